"""C06 - Chemkin mechanism files transcribe the model faithfully.

(D)   spec/ChemkinDoc.tla (+ ChemkinReq.tla, ChemkinEq.tla) checked exhaustively
      (MC_ChemkinDoc.cfg); the variants MC_ChemkinDoc_reactants / _digitname / _lonebulk
      must be rejected by TLC.
(S->C) every written session of MC_ChemkinDoc_cases.cfg (mechanism + the documents TLC
      expects) is instantiated with real Nasa / CatSite / ChemkinReaction objects and
      written by the real writers; the expectation travels with the trace and is compared
      by the trace specification after IT parsed the real file (clause ReplayDoc).
(C->S) those runs (run lists = the 84 TLC run patterns over 2 temperatures x 2 pressures) plus random mechanisms (up to 40 reactions / 30 species / 3 sites, all
      activation-method names, float formats, delimiters, condition lists) are recorded -
      one NDJSON event per writer / reader call, the file text lexed into tokens, the
      model numbers taken from the objects' own getters - and judged by
      spec/Trace_ChemkinDoc.tla.

Python only drives the library, lexes text (comment tails dropped, split at blanks, '/'
and "'", decimal tokens -> <<m, e>>) and projects objects; sections, counts, partition,
once-ness, printed precision and equation read-back are decided in TLA+.
"""
import json
import os
import random
import re
import shutil
import tempfile
import threading

from harness import core
from harness.core import to_dec

KEYWORDS = {'ELEMENTS', 'SPECIES', 'REACTIONS', 'END', 'SITE', 'SDEN', 'BULK', 'STICK', 'EOF',
            'GAS', 'MWON', 'MWOFF', 'itube_restart'}
G_METHODS = ('get_GoRT_act', 'get_G_act', 'get_delta_GoRT', 'get_delta_G')
_NUM = re.compile(r'^([+-]?)(\d*)\.?(\d*)(?:[eE]([+-]?\d+))?$')
_NUMSHAPE = re.compile(r'^[+-]?(\d+\.?\d*|\.\d+)([eE][+-]?\d+)?$')


# --------------------------------------------------------------------------
# lexing (projection of text)
# --------------------------------------------------------------------------
def lex_token(t):
    if _NUMSHAPE.match(t):
        sg, ip, fp, ex = _NUM.match(t).groups()
        m = int((ip or '0') + fp)
        if m >= 10 ** 9:
            raise core.MachineryError('printed number with more than 9 digits: %r' % t)
        e = int(ex or 0) - len(fp)
        return {'s': t, 'c': core.text_codes(t), 'n': True, 'v': [-m if sg == '-' else m, e]}
    return {'s': t, 'c': core.text_codes(t), 'n': False, 'v': [0, 0]}


def lex(text):
    lines = []
    for raw in text.split('\n'):
        body = raw.split('!', 1)[0]
        toks = [t for t in re.split(r"[\s/']+", body) if t]
        if toks:
            lines.append([lex_token(t) for t in toks])
    return lines


def _strip_stamp(text):
    """Everything after the first line (the first line carries datetime.now())."""
    return text.split('\n', 1)[1] if '\n' in text else ''


# --------------------------------------------------------------------------
# building the real objects from a case
# --------------------------------------------------------------------------
def _num(x, kind):
    """Number in the requested Python type: float, int (when integral) or numpy scalar."""
    import numpy as np
    if kind == 'int' and float(x) == int(x):
        return int(x)
    if kind == 'numpy':
        return np.int64(int(x)) if float(x) == int(x) else np.float64(x)
    return x


def _rx_string(case, r):
    sp = case['species']
    side = lambda terms: '+'.join(('%d%s' % (c, sp[i - 1]['name']) if c != 1 else sp[i - 1]['name']) for c, i in terms)
    mid = '=%s=' % case['ts'][r['ts'] - 1]['name'] if r['ts'] else '='
    return side(r['lhs']) + mid + side(r['rhs'])


def build(case):
    from pmutt.empirical.nasa import Nasa
    from pmutt.chemkin import CatSite
    from pmutt.reaction import ChemkinReaction, Reactions
    from pmutt.reaction.bep import BEP
    from pmutt import pmutt_list_to_dict
    nk = case['opts'].get('numkind', 'float')
    mk_site = lambda s: CatSite(name=s['name'], site_density=s['sden'], density=_num(s['dens'], nk),
                                bulk_specie=s['bulk'])
    sites = [mk_site(s) for s in case['sites']]
    # 'shared': the species of a site hold ONE CatSite object; 'separate': each its own equal object;
    # 'roundtrip': the Reactions object goes through to_dict / from_dict (separate objects again)
    mode = case['opts'].get('site_objs', 'shared')
    has_bep = any(d.get('kind') == 'bep' for d in case.get('ts', []))

    def nasa(d):
        a = [d['a1'], d['a2'], 0., 0., 0., d['a6'], d['a7']]
        kw = {}
        if d['site']:
            kw = {'cat_site': sites[d['site'] - 1] if mode == 'shared' else mk_site(case['sites'][d['site'] - 1]),
                  'n_sites': _num(float(d['occ']) if nk == 'float' else d['occ'], nk)}
        return Nasa(name=d['name'], T_low=100., T_mid=1500., T_high=4000., a_low=a, a_high=a,
                    phase=d['ph'], elements=dict(d['els']), **kw)
    species = [nasa(d) for d in case['species']]
    ts = [BEP(slope=d['slope'], intercept=d['intercept'], name=d['name'], descriptor=d['descriptor'])
          if d.get('kind') == 'bep' else nasa(d) for d in case.get('ts', [])]
    by_name = pmutt_list_to_dict(species + [t for t, d in zip(ts, case.get('ts', [])) if d.get('kind') != 'bep'])
    rxs = []
    for r in case['rx']:
        beta, stick = _num(r['beta'], nk), _num(r['stick'], nk)
        if r.get('ctor') == 'from_string':
            rx = ChemkinReaction.from_string(_rx_string(case, r), by_name, beta=beta,
                                             is_adsorption=r['ads'], sticking_coeff=stick)
        else:
            kw = {}
            if r['ts']:
                kw = {'transition_state': [ts[r['ts'] - 1]], 'transition_state_stoich': [_num(1., nk)]}
            rx = ChemkinReaction(
                reactants=[species[i - 1] for c, i in r['lhs']], reactants_stoich=[_num(float(c), nk) for c, i in r['lhs']],
                products=[species[i - 1] for c, i in r['rhs']], products_stoich=[_num(float(c), nk) for c, i in r['rhs']],
                beta=beta, is_adsorption=r['ads'], sticking_coeff=stick, **kw)
            if r['ts'] and case['ts'][r['ts'] - 1].get('kind') == 'bep':
                ts[r['ts'] - 1].reaction = rx
        rxs.append(rx)
    reactions = Reactions(reactions=rxs)
    if mode == 'roundtrip' and not has_bep:
        reactions = Reactions.from_dict(reactions.to_dict())
        rxs = list(reactions.reactions)
    return sites, species, rxs, reactions


def project_mech(case):
    sp = [{'name': core.text_codes(d['name']), 'ph': d['ph'], 'site': d['site'], 'bulk': d['bulk'],
           'occ': d['occ'], 'els': [core.text_codes(k) for k in sorted(d['els'])]}
          for d in case['species']]
    sites = [{'name': core.text_codes(s['name']), 'bulk': core.text_codes(s['bulk']),
              'sden': to_dec(s['sden']), 'dens': to_dec(s['dens'])} for s in case['sites']]
    rx = [{'lhs': r['lhs'], 'rhs': r['rhs'], 'ads': r['ads']} for r in case['rx']]
    return {'sp': sp, 'sites': sites, 'rx': rx}


NOEXP = {'gasrx': [], 'gassp': [], 'sites': [], 'bulk': [], 'neag': 0, 'neas': 0}


def _exc(ex):
    return '%s: %s' % (type(ex).__name__, str(ex)[:160])


def _val(fn):
    """Model number from the object's own getter -> {'ok', 'v'}; a getter that raises or
    returns a non-finite value gives no model value (nothing is demanded of that column)."""
    try:
        vals = fn()
        if all(core.finite(v) for v in vals):
            return {'ok': True, 'v': [to_dec(v) for v in vals]}
    except Exception:
        pass
    return {'ok': False, 'v': []}


def _witness(r, method, conds, unit, acct):
    """Activation value ingredients taken from the SPECIES objects (never from the reaction
    layer): dimensionless H or G of every species of the initial, transition and final state at
    each condition.  The trace specification combines them (Trace_ChemkinDoc!SpeciesValue)."""
    from pmutt import constants as c
    if method is None:
        return {'ok': False, 'w': []}
    form = method[4]                                   # get_[E|H|G]...
    getter = 'get_GoRT' if form == 'G' else 'get_HoRT'
    ts = r.transition_state
    if form == 'E' and ts is None:
        return {'ok': False, 'w': []}
    if ts is not None and any(type(t).__name__ == 'BEP' for t in ts):
        return {'ok': False, 'w': []}           # a BEP barrier is not a species property (C09)
    try:
        out = []
        for cond in conds:
            kw = {'T': cond['T']}
            if cond.get('P') is not None:
                kw['P'] = cond['P']
            val = lambda sp: float(getattr(sp, getter)(**kw))
            is_ = [(int(n), val(sp)) for sp, n in zip(r.reactants, r.reactants_stoich)]
            ps_ = [(int(n), val(sp)) for sp, n in zip(r.products, r.products_stoich)]
            ts_ = [(int(n), val(sp)) for sp, n in zip(ts, r.transition_state_stoich)] if ts is not None else []
            rt = 1. if 'oRT' in method else c.R('{}/K'.format(unit)) * cond['T']
            if not all(core.finite(v) for _, v in is_ + ps_ + ts_):
                return {'ok': False, 'w': []}
            out.append({'form': form, 'hasts': ts is not None,
                        'is': [[n, to_dec(v)] for n, v in is_], 'ts': [[n, to_dec(v)] for n, v in ts_],
                        'ps': [[n, to_dec(v)] for n, v in ps_], 'rt': to_dec(rt)})
            if ts is not None:                          # vacuity accounting only
                s0 = sum(n * v for n, v in is_)
                barrier = sum(n * v for n, v in ts_) - s0
                floor = max(0., sum(n * v for n, v in ps_) - s0)
                key = '%s_%s' % (method, 'ts_above_floor' if barrier > floor else 'ts_below_floor')
                acct[key] = acct.get(key, 0) + 1
                if r.is_adsorption:
                    acct['activated_adsorption_entries'] = acct.get('activated_adsorption_entries', 0) + 1
        return {'ok': True, 'w': out}
    except Exception:
        return {'ok': False, 'w': []}


NO_AWIT = {'ok': False, 'hasQ': False, 'ex': [1, 0], 'op': 'none', 'eff': [1, 0]}


def _awitness(case, k, r, include_entropy, sden_op, kw):
    """Ingredients of the pre-exponential factor taken from the species list of the CASE (site
    densities, which reactants are adsorbates) and the species objects' own get_q - never from
    ChemkinReaction.get_A / _get_n_surf.  eff is numpy's sden_operation over the adsorbate
    reactants' site densities (verified by the trace spec)."""
    import numpy as np
    rc, sp = case['rx'][k], case['species']
    ts = r.transition_state
    if r.is_adsorption or (ts is not None and any(type(t).__name__ == 'BEP' for t in ts)):
        return NO_AWIT
    try:
        w = dict(NO_AWIT, ok=True)
        if ts is not None and include_entropy:
            # pmutt's rule: (kb T/h) * q_TS / q_IS / T with the species' own partition functions
            # (_ModelBase.get_q, documented to return 1 for empirical species such as Nasa)
            q = 1.
            for x, n in zip(ts, r.transition_state_stoich):
                q *= float(x.get_q()) ** int(n)
            for x, n in zip(r.reactants, r.reactants_stoich):
                q /= float(x.get_q()) ** int(n)
            if not core.finite(q) or q <= 0:
                return NO_AWIT
            w.update(ex=to_dec(q), hasQ=True)
        dens = []
        for c, i in rc['lhs']:
            if sp[i - 1]['ph'] != 'G' and not sp[i - 1]['bulk'] and sp[i - 1]['site']:
                dens += [case['sites'][sp[i - 1]['site'] - 1]['sden']] * int(c)
        if dens:
            if sden_op is None:
                return NO_AWIT
            w.update(op=sden_op, eff=to_dec(float(getattr(np, sden_op)(dens))))
        return w
    except Exception:
        return NO_AWIT


def _write_event(ev, call, d, fname, extra, newline='\n'):
    """call(filename) runs the real writer.  Returns (event, returned text or None)."""
    e = {'ev': ev, 'raised': '', 'same': True, 'lines': []}
    e.update(extra)
    try:
        text = call(None)
        path = os.path.join(d, fname)
        call(path)
        with open(path, newline='') as f:
            disk = f.read()
        e['same'] = _strip_stamp(disk.replace(newline, '\n') if newline != '\n' else disk) == _strip_stamp(text) \
            and (newline == '\n' or disk.count('\n') == disk.count(newline))
        e['lines'] = lex(text)
        return e, path
    except core.MachineryError:
        raise
    except Exception as ex:
        e['raised'] = _exc(ex)
        return e, None


def _read_event(which, path, species):
    """read_reactions without and with `species`; rxo takes the names from the returned objects."""
    from pmutt.io import chemkin as ck
    e = {'ev': 'read', 'file': which, 'raised': '', 'rx': [], 'rxo': []}
    try:
        _, reactants, rstoich, products, pstoich = ck.read_reactions(path)
        for ln, ls, pn, ps in zip(reactants, rstoich, products, pstoich):
            e['rx'].append({'lhs': [[int(c), core.text_codes(n)] for c, n in zip(ls, ln)],
                            'rhs': [[int(c), core.text_codes(n)] for c, n in zip(ps, pn)]})
        _, _, robj, rstoich, _, pobj, pstoich = ck.read_reactions(path, species=species)
        for lo, ls, po, ps in zip(robj, rstoich, pobj, pstoich):
            e['rxo'].append({'lhs': [[int(c), core.text_codes(x.name)] for c, x in zip(ls, lo)],
                             'rhs': [[int(c), core.text_codes(x.name)] for c, x in zip(ps, po)]})
    except Exception as ex:
        e['raised'] = _exc(ex)
    return e


def execute(case):
    """Run every writer and the reader on one mechanism.  Returns (events, mismatches)."""
    from pmutt.io import chemkin as ck
    o = case['opts']
    events = [{'ev': 'mech', 'M': project_mech(case), 'hasexp': 'exp' in case,
               'exp': case.get('exp', NOEXP)}]
    try:
        sites, species, rxs, reactions = build(case)
    except Exception as ex:
        return events, [{'raised': 'construction: ' + _exc(ex)}]
    d = tempfile.mkdtemp(prefix='c06_')
    try:
        import numpy as np
        nk = o.get('numkind', 'float')
        dflt = bool(o.get('defaults'))
        nl = o.get('newline', '\n')
        kw = {'T': _num(o['T'], nk)}
        if o.get('P') is not None:
            kw['P'] = _num(o['P'], nk)
        act, ads_act, unit = o['act'], o['ads_act'], o['unit']
        ukw = {} if 'oRT' in act else {'units': unit}
        aukw = {} if 'oRT' in ads_act else {'units': unit}
        fmt = {} if dflt else {'species_delimiter': o['sd'], 'reaction_delimiter': o['rd'], 'float_format': o['ff'],
                               'column_delimiter': o['cd'], 'act_method_name': act, 'act_unit': unit,
                               'stoich_format': o.get('sf', '.0f'), 'newline': nl}
        wkw = {} if dflt else kw                         # defaults: T is left at its default as well
        seq = {'list': list, 'tuple': tuple, 'ndarray': list}[o.get('seq_container', 'list')]
        rx_arg = reactions if o.get('rx_container', 'Reactions') == 'Reactions' else list(rxs)
        species_arg = seq(species)

        acct = {}
        events[0]['acct'] = acct
        here = [{'T': o['T'], 'P': o.get('P')}]

        def wit(r, ads_method):
            return _witness(r, ads_method if r.is_adsorption else act, here, unit, acct)

        def model(r, sden_op, ads_method):
            if r.is_adsorption:
                if ads_method is None:
                    return {'ok': False, 'v': []}
                return _val(lambda: [r.sticking_coeff, r.beta,
                                     getattr(r, ads_method)(**dict(kw, **aukw))])
            return _val(lambda: [r.get_A(include_entropy=act not in G_METHODS,
                                         sden_operation=sden_op, **kw),
                                 r.beta, getattr(r, act)(**dict(kw, **ukw))])
        # gas.inp
        e, gpath = _write_event(
            'write_gas', lambda fn: ck.write_gas(nasa_species=species_arg, reactions=rx_arg,
                                                 filename=fn, **dict(fmt, **wkw)),
            d, 'gas.inp', {'model': [model(r, None, None) for r in rxs],
                           'wit': [wit(r, None) for r in rxs],
                           'awit': [_awitness(case, k, r, act not in G_METHODS, None, kw)
                                    for k, r in enumerate(rxs)]}, nl)
        events.append(e)
        if gpath:
            events.append(_read_event('gas', gpath, species))
        # surf.inp
        unit_toks = [] if 'oRT' in act else [t for t in re.split(r'[\s/]+', unit.upper()) if t]
        skw = {} if dflt else {'sden_operation': o['sden_op'], 'ads_act_method': ads_act,
                               'use_mw_correction': o['mw']}
        e, spath = _write_event(
            'write_surf', lambda fn: ck.write_surf(reactions=reactions, filename=fn,
                                                   **dict(skw, **dict(fmt, **wkw))),
            d, 'surf.inp', {'model': [model(r, o['sden_op'], ads_act) for r in rxs],
                            'wit': [wit(r, ads_act) for r in rxs],
                            'awit': [_awitness(case, k, r, act not in G_METHODS, o['sden_op'], kw)
                                     for k, r in enumerate(rxs)],
                            'mw': 'MWON' if o['mw'] else 'MWOFF', 'unit': unit_toks}, nl)
        events.append(e)
        if spath:
            events.append(_read_event('surf', spath, species))
        # EAg.inp / EAs.inp
        conds = [{key: _num(v, nk) for key, v in c.items()} for c in o['conds']]
        conds_arg = seq(conds)
        eakw = {} if dflt else {'act_method_name': o['ea_act'], 'ads_act_method': o['ea_ads_act'],
                                'float_format': o['ea_ff'], 'species_delimiter': o['sd'],
                                'reaction_delimiter': o['ea_rd'], 'stoich_format': o.get('sf', '.0f'),
                                'column_delimiter': o['cd'], 'newline': nl}
        for gas in (True, False):
            def ea_model(r):
                m = o['ea_ads_act'] if r.is_adsorption else o['ea_act']
                return _val(lambda: [getattr(r, m)(**c) for c in conds])
            e, _ = _write_event(
                'write_ea', lambda fn: ck.write_EA(reactions=rx_arg, conditions=conds_arg,
                                                   write_gas_phase=gas, filename=fn, **eakw),
                d, 'EAg.inp' if gas else 'EAs.inp',
                {'gas': gas, 'ncond': len(conds), 'model': [ea_model(r) for r in rxs],
                 'wit': [_witness(r, o['ea_ads_act'] if r.is_adsorption else o['ea_act'], conds, unit, acct)
                         for r in rxs]}, nl)
            events.append(e)
        # T_flow.inp (columns as list / tuple / numpy array)
        col = np.array if o.get('seq_container') == 'ndarray' else seq
        e, _ = _write_event(
            'write_tflow', lambda fn: ck.write_T_flow(
                filename=fn, **dict({key: col([c[key] for c in conds]) for key in ('T', 'P', 'Q', 'abyv')},
                                    **({} if dflt else {'float_format': o['tflow_ff'], 'column_delimiter': o['cd'],
                                                        'newline': nl}))),
            d, 'T_flow.inp', {'model': [[to_dec(c[k]) for k in ('T', 'P', 'Q', 'abyv')] for c in conds]}, nl)
        events.append(e)
        # tube_mole.inp
        fracs = [{key: _num(v, nk) for key, v in f.items()} for f in o['fracs']]
        named = sorted(set(k for f in fracs for k in f))
        e, _ = _write_event(
            'write_tube', lambda fn: ck.write_tube_mole(
                mole_frac_conditions=seq(fracs), nasa_species=species_arg, filename=fn,
                **({} if dflt else {'float_format': o['tube_ff'], 'column_delimiter': o['cd'], 'newline': nl})),
            d, 'tube_mole.inp',
            {'ncond': len(fracs), 'F': [core.text_codes(n) for n in named],
             'model': [[to_dec(f.get(s['name'], 0.)) for f in fracs] for s in case['species']]}, nl)
        events.append(e)
    finally:
        shutil.rmtree(d, ignore_errors=True)
    return events, []


def _safe_execute(case):
    import warnings
    warnings.simplefilter('ignore')
    try:
        return execute(case)
    except core.MachineryError as ex:
        return None, str(ex)


# --------------------------------------------------------------------------
# case generation
# --------------------------------------------------------------------------
ACTS = ['get_E_act', 'get_H_act', 'get_G_act', 'get_EoRT_act', 'get_HoRT_act', 'get_GoRT_act']
ADS_ACTS = ['get_H_act', 'get_G_act', 'get_HoRT_act', 'get_GoRT_act']
EA_ACTS = ['get_EoRT_act', 'get_HoRT_act', 'get_GoRT_act']
EA_ADS_ACTS = ['get_HoRT_act', 'get_GoRT_act']
# every unit pmutt.constants.R documents (without the /K)
UNITS = ['J/mol', 'kJ/mol', 'L kPa/mol', 'cm3 kPa/mol', 'm3 Pa/mol', 'cm3 MPa/mol', 'm3 bar/mol',
         'L bar/mol', 'L torr/mol', 'cal/mol', 'kcal/mol', 'L atm/mol', 'cm3 atm/mol', 'eV', 'Eh', 'Ha']
FLOATS = [' .3E', '.3E', ' .2E', '.5E', ' .4E', '.1E', '.0E', ' .3e', '+.3E', '+.2e']   # sign options ' ', '+', none
SDELIMS = ['+', ' + ', '+ ']
RDELIMS = ['=', '<=>', '=>', ' = ', ' <=> ', ' => ']
CDELIMS = ['  ', ' ', '    ', '\t']
SDEN_OPS = ['min', 'max', 'sum', 'mean', 'median']
NUMKINDS = ['float', 'int', 'numpy']
ELEMS = ['H', 'C', 'O', 'N', 'Pt', 'Ru', 'Cu']
DEFAULTS = {'T': 298.15, 'P': None, 'act': 'get_E_act', 'ads_act': 'get_H_act', 'unit': 'kcal/mol',
            'ff': ' .3E', 'sf': '.0f', 'sd': '+', 'rd': '=', 'cd': '  ', 'sden_op': 'min', 'mw': True,
            'ea_act': 'get_EoRT_act', 'ea_ads_act': 'get_HoRT_act', 'ea_ff': ' .2E', 'ea_rd': '<=>',
            'tflow_ff': '.3E', 'tube_ff': ' .3f', 'newline': '\n'}
# sizes at the ends of the quantifier's ranges (reactions 1-40, species 2-30), forced by rotation
SIZES = [(40, 30), (1, 2), (39, 29), (2, 3)]


def _thermo(rnd):
    return {'a1': round(rnd.uniform(2.5, 9.0), 3), 'a2': round(rnd.uniform(0., 4e-3), 6),
            'a6': round(rnd.uniform(-4e4, 2e4), 1), 'a7': round(rnd.uniform(-5., 30.), 3)}


def _options(rnd, species, need_ts_free, runs=None, k=0):
    """need_ts_free: some non-adsorption reaction has no transition state (E methods excluded).
    k rotates through the enumerations so that every unit / method / format / delimiter / number
    kind occurs in every run; the rest is drawn."""
    acts = [a for a in ACTS if not (need_ts_free and 'E' in a.split('_')[1])]
    ea_acts = [a for a in EA_ACTS if not (need_ts_free and a == 'get_EoRT_act')]
    numkind = NUMKINDS[k % 3]
    conds = _conditions(rnd, runs, numkind, nruns=[None, 1, 8, 2, 7, None, None][k % 7])
    names = [s['name'] for s in species]
    fracs = []
    nf = [None, 1, 8][k % 3] or rnd.randint(1, 8)
    for j in range(nf):
        ks = rnd.sample(names, rnd.randint(1, min(len(names), 6)))
        if k % 5 == 0 and j == 0:
            ks = list(names)                               # every species named
        vals = [0, 1] if numkind == 'int' else [0., 1., 0.5, 0.125, round(rnd.random(), rnd.choice([2, 3, 5]))]
        fracs.append({n: rnd.choice(vals) for n in ks})
    o = {'T': rnd.choice([298.15, 500., round(rnd.uniform(300., 1100.), 1)]),
         'P': rnd.choice([None, None, 1., 2.5, 0.1]),
         'act': acts[k % len(acts)], 'ads_act': ADS_ACTS[(k // 2) % 4], 'unit': UNITS[k % 16],
         'ff': FLOATS[k % len(FLOATS)], 'sf': rnd.choice(['.0f', '.0f', '.2f', '.1f']),
         'sd': SDELIMS[k % 3], 'rd': RDELIMS[(k // 3) % 6], 'cd': CDELIMS[(k // 2) % 4],
         'sden_op': SDEN_OPS[k % 5], 'mw': k % 3 != 0,
         'ea_act': ea_acts[(k // 3) % len(ea_acts)], 'ea_ads_act': EA_ADS_ACTS[(k // 5) % 2],
         'ea_ff': rnd.choice([' .2E', '.2E', ' .3E', '.4E', ' .2e', '+.2E']), 'ea_rd': rnd.choice(['<=>', '=', ' <=> ', '=>']),
         'tflow_ff': rnd.choice(['.3E', '.2E', ' .4E', '.5E', '.3e']),
         'tube_ff': rnd.choice([' .3f', '.3f', ' .5f', '.2E']),
         'newline': ['\n', '\r\n'][(k // 4) % 2]}
    if numkind != 'float':
        o['T'] = rnd.choice([300., 500., 1000.])
        if o['P'] is not None:
            o['P'] = rnd.choice([1., 2., 10.])
    if k % 12 == 5 and not need_ts_free:                   # every option left at its documented default
        o = dict(DEFAULTS)
        o['defaults'] = True
    o.update({'site_objs': ['shared', 'separate', 'roundtrip'][(k // 2) % 3], 'numkind': numkind, 'rx_container': ['Reactions', 'list'][(k // 3) % 2],
              'seq_container': ['list', 'tuple', 'ndarray'][(k // 2) % 3], 'conds': conds, 'fracs': fracs})
    return o


def _conditions(rnd, runs=None, numkind='float', nruns=None):
    """Run list.  runs = a TLC run pattern (sequence of <<T index, P index>>) or None: a random
    pattern of 1-8 runs over pools of 1-3 temperatures and 1-3 pressures, so that equal T with
    different P, repeated (T, P) pairs and different T with equal P all occur regularly."""
    if runs is None:
        nt, npr = rnd.randint(1, 3), rnd.randint(1, 3)
        runs = [[rnd.randint(1, nt), rnd.randint(1, npr)] for _ in range(nruns or rnd.randint(1, 8))]
    if numkind == 'float':
        Ts = rnd.sample([300., 350., 425.5, 500., 650., 800., 975.25, 1100.], 3)
        Ps = rnd.sample([0.1, 0.5, 1., 2., 5., 20., round(rnd.uniform(0.05, 40.), 3)], 3)
        return [{'T': Ts[t - 1], 'P': Ps[p - 1], 'Q': round(rnd.uniform(0.5, 500.), 2),
                 'abyv': round(rnd.uniform(1., 2000.), 1)} for t, p in runs]
    Ts = rnd.sample([300., 350., 500., 650., 800., 1100.], 3)        # integral values (int / numpy)
    Ps = rnd.sample([1., 2., 5., 20., 40.], 3)
    return [{'T': Ts[t - 1], 'P': Ps[p - 1], 'Q': float(rnd.randint(1, 500)),
             'abyv': float(rnd.randint(1, 2000))} for t, p in runs]


BEP_DESCRIPTORS = ['delta_H', 'rev_delta_H', 'reactants_H', 'products_H']


def _finish_rx(rnd, case, rx, p_ts):
    """Kinetic attributes of a reaction whose sides are fixed."""
    sp = case['species']
    gas_lhs = any(sp[i - 1]['ph'] == 'G' for c, i in rx['lhs'])
    all_gas = all(sp[i - 1]['ph'] == 'G' for c, i in rx['lhs'] + rx['rhs'])
    rx['ads'] = bool(rx.get('ads', gas_lhs and not all_gas and rnd.random() < 0.6))
    rx['stick'] = rnd.choice([0.5, 1., 0.1, 0., round(rnd.uniform(0.001, 1.), 4)])   # 0 is the lower end of the range (seed C06-11)
    rx['beta'] = rnd.choice([1., 0., 0.5, -1., 2., round(rnd.uniform(-2, 2), 2)])
    rx['ts'] = 0
    rx['ctor'] = 'from_string' if rnd.random() < 0.3 else 'direct'
    if rnd.random() < (0.4 if rx['ads'] else p_ts):
        if not rx['ads'] and rnd.random() < 0.15:
            t = {'kind': 'bep', 'name': 'BEP%d' % (len(case['ts']) + 1), 'slope': rnd.choice([0., 0.5, 1., 0.37]),
                 'intercept': round(rnd.uniform(0., 60.), 2), 'descriptor': rnd.choice(BEP_DESCRIPTORS)}
            rx['ctor'] = 'direct'
        else:
            site = max([sp[i - 1]['site'] for c, i in rx['lhs'] + rx['rhs']] + [0])
            t = {'name': 'TS%d' % (len(case['ts']) + 1), 'ph': 'S' if site else 'G', 'site': site,
                 'bulk': False, 'occ': 1, 'els': {'H': 1}}
            t.update(_thermo(rnd))
            t['a6'] = round(t['a6'] + rnd.uniform(0., 3e4), 1)
        case['ts'].append(t)
        rx['ts'] = len(case['ts'])
    return rx


NAME_FIRST = 'ABCDEFGHIKLMNOPRSTXYZ'
NAME_REST = 'ABCEHNOXabcex0123456789_*-,.#[]:'


def _name(rnd, taken, suffix, length=None):
    """Chemkin species / site names: start with a letter; letters, digits and _ * - , . # [ ] : ( );
    1 to 16 characters (the Chemkin limit) and a few longer ones.  Never blank + < = > / ' !"""
    while True:
        n_rest = rnd.randint(0, 5) if length is None else max(0, length - 1 - len(suffix))
        n = rnd.choice(NAME_FIRST) + ''.join(rnd.choice(NAME_REST) for _ in range(n_rest)) + suffix
        if length is not None and len(suffix) + 1 > length:
            n = rnd.choice(NAME_FIRST)
        if n not in taken and n.upper() not in KEYWORDS and n not in KEYWORDS and '->' not in n:
            taken.add(n)
            return n


def random_case(rnd, cid, big, k=0):
    """k rotates the boundary classes (sizes, number of sites, gas-only / surface-only, name lengths)."""
    forced = SIZES[(k // 8) % 4] if k % 8 == 0 else None
    kind_mode = ['mixed', 'mixed', 'mixed', 'gas_only', 'surface_only', 'mixed', 'no_gas_species'][k % 7]
    if forced:
        kind_mode = 'mixed'
    nsites = [1, 2, 3][k % 3]
    taken = set()
    sites, species = [], []
    for j in range(nsites):
        sname = _name(rnd, taken, rnd.choice(['', '111', '_s', '-110']), length=[None, None, 16, 1][(k + j) % 4])
        bname = _name(rnd, taken, '(B)')
        sites.append({'name': sname, 'bulk': bname, 'sden': float('%.4e' % rnd.uniform(1e-10, 5e-9)),
                      'dens': rnd.choice([round(rnd.uniform(1., 25.), rnd.choice([1, 2])), float(rnd.randint(1, 25))])})
    nsp = forced[1] if forced else rnd.randint(2, 30 if big else 9)
    nbulk = 0 if kind_mode == 'gas_only' else sum(1 for j in range(nsites) if rnd.random() < 0.8)
    nbulk = min(nbulk, max(0, nsp - 2))
    for m in range(nsp - nbulk):
        kind = rnd.random()
        els = {e: rnd.randint(1, 4) for e in rnd.sample(ELEMS, rnd.randint(1, 3))}
        length = {0: 1, 1: 16, 2: 15, 3: 24}.get(m) if k % 4 == 1 else None
        is_gas = (kind < 0.4 or m == 0)
        if kind_mode == 'gas_only':
            is_gas = True
        elif kind_mode in ('surface_only', 'no_gas_species'):
            is_gas = (kind_mode == 'surface_only' and m == 0)       # surface_only keeps one idle gas species
        if is_gas:
            d = {'name': _name(rnd, taken, '', length), 'ph': 'G', 'site': 0, 'bulk': False, 'occ': 0, 'els': els}
        else:
            j = rnd.randint(1, nsites)
            d = {'name': _name(rnd, taken, rnd.choice(['(S)', '*', '(T)', '(S,T)']), length), 'ph': 'S', 'site': j,
                 'bulk': False, 'occ': rnd.choice([1, 1, 1, 2, 3]), 'els': els}
        d.update(_thermo(rnd))
        species.append(d)
    for j in rnd.sample(range(nsites), nbulk):   # bulk species present in the species list (mostly)
        d = {'name': sites[j]['bulk'], 'ph': 'S', 'site': j + 1, 'bulk': True, 'occ': 1,
             'els': {rnd.choice(['Pt', 'Ru', 'Cu']): 1}}
        d.update(_thermo(rnd))
        species.append(d)
    case = {'cid': cid, 'kind': 'rand', 'species': species, 'sites': sites, 'ts': [], 'rx': []}
    idx = list(range(1, len(species) + 1))
    gas = [i for i in idx if species[i - 1]['ph'] == 'G']
    nongas = [i for i in idx if species[i - 1]['ph'] != 'G']
    nrx = forced[0] if forced else rnd.randint(1, 40 if big else 10)
    seen = set()
    p_ts = 1. if k % 12 == 5 else rnd.choice([0., 0.5, 1.])
    g2s_ok = rnd.random() < 0.3          # gaseous reactants with a non-gaseous product allowed
    tries = 0
    while len(case['rx']) < nrx and tries < 3000:
        tries += 1
        mode = rnd.random()
        pool = gas if (mode < 0.25 and gas) else idx
        if kind_mode == 'surface_only':
            pool = nongas

        def side():
            n = rnd.randint(1, min(3, len(pool)))
            return [[rnd.choice([1, 1, 1, 2, 3]), i] for i in rnd.sample(pool, n)]
        lhs, rhs = side(), side()
        if mode > 0.85 and gas and g2s_ok and kind_mode == 'mixed':      # gaseous reactants, any products
            lhs = [[rnd.choice([1, 2]), i] for i in rnd.sample(gas, rnd.randint(1, min(2, len(gas))))]
        rx = {'lhs': lhs, 'rhs': rhs}
        key = (tuple(sorted((i, c) for c, i in lhs)), tuple(sorted((i, c) for c, i in rhs)))
        if key in seen or key[0] == key[1] or not _admissible(species, rx):
            continue
        if not g2s_ok and all(species[i - 1]['ph'] == 'G' for c, i in lhs) \
                and any(species[i - 1]['ph'] != 'G' for c, i in rhs):
            continue
        seen.add(key)
        case['rx'].append(_finish_rx(rnd, case, rx, p_ts))
    if not case['rx'] or (forced and len(case['rx']) != nrx):
        return random_case(rnd, cid, big, k + (0 if forced else 1))
    need_ts_free = any(not r['ads'] and not r['ts'] for r in case['rx'])
    case['opts'] = _options(rnd, species, need_ts_free, k=k)
    return case


def _admissible(species, rx):
    """The generator's reading of the quantifier (notes/C06.md): a bulk species reacts together
    with an adsorbate of its site; a reaction with a surface reactant has an adsorbate among
    its reactants (otherwise ChemkinReaction.get_A has no site density to use)."""
    terms = rx['lhs'] + rx['rhs']
    sp = lambda i: species[i - 1]
    for c, i in terms:
        if sp(i)['bulk'] and not any(sp(j)['ph'] != 'G' and not sp(j)['bulk'] and sp(j)['site'] == sp(i)['site']
                                     for _, j in terms):
            return False
    lhs_gas = all(sp(i)['ph'] == 'G' for c, i in rx['lhs'])
    lhs_ads = any(sp(i)['ph'] != 'G' and not sp(i)['bulk'] for c, i in rx['lhs'])
    return lhs_gas or lhs_ads


def _str(codes):
    return ''.join(chr(c) for c in codes)


def tlc_case(rec, exp, rnd, cid, runs=None, k=0):
    """A printed <<"CASE", Mech, Expected>> record -> concrete case."""
    sites = [{'name': _str(s['name']), 'bulk': _str(s['bulk']),
              'sden': float('%.4e' % rnd.uniform(1e-10, 5e-9)), 'dens': round(rnd.uniform(1., 25.), 1)}
             for s in rec['sites']]
    species = []
    for s in rec['sp']:
        d = {'name': _str(s['name']), 'ph': s['ph'], 'site': s['site'], 'bulk': s['bulk'], 'occ': s['occ'],
             'els': {_str(e): 1 + k for k, e in enumerate(s['els'])}}
        d.update(_thermo(rnd))
        species.append(d)
    case = {'cid': cid, 'kind': 'tlc', 'species': species, 'sites': sites, 'ts': [], 'rx': []}
    p_ts = rnd.choice([0., 0.5, 1.])
    for r in rec['rx']:
        rx = {'lhs': [list(t) for t in r['lhs']], 'rhs': [list(t) for t in r['rhs']],
              'ads': bool(r['ads']) and rnd.random() < 0.6}
        case['rx'].append(_finish_rx(rnd, case, rx, p_ts))
    case['opts'] = _options(rnd, species, any(not r['ads'] and not r['ts'] for r in case['rx']), runs, k)
    case['exp'] = {'gasrx': list(exp['gasrx']), 'gassp': [list(n) for n in exp['gassp']],
                   'sites': [{'name': list(s['name']), 'ads': [list(a) for a in s['ads']]} for s in exp['sites']],
                   'bulk': [list(b) for b in exp['bulk']], 'neag': exp['neag'], 'neas': exp['neas']}
    return case


def _gas_rx(case, r):
    sp = case['species']
    return all(sp[i - 1]['ph'] == 'G' for c, i in r['lhs'] + r['rhs'])


def _tags(case, file):
    sp = case['species']
    o = case['opts']
    g2s = any(all(sp[i - 1]['ph'] == 'G' for c, i in r['lhs']) and
              any(sp[i - 1]['ph'] != 'G' for c, i in r['rhs']) for r in case['rx'])
    tags = {'file': file, 'kind': case['kind'], 'gas_reactants_surface_product': g2s}
    if file in ('read_gas', 'read_surf'):
        names = [s['name'] for s in sp if (s['ph'] == 'G') or file == 'read_surf']
        if file == 'read_surf':
            names += [x['name'] for x in case['sites']] + [x['bulk'] for x in case['sites']]
        tags['hyphen_in_names'] = any('-' in n for n in names)
    if file in ('gas', 'surf'):
        # a BEP transition state in this file, asked for with a dimensionless method name
        tags['bep_dimensionless'] = ('oRT' in o['act']) and any(
            r['ts'] and case['ts'][r['ts'] - 1].get('kind') == 'bep' and _gas_rx(case, r) == (file == 'gas')
            for r in case['rx'])
    return tags


def _file_of(ev):
    if ev['ev'] == 'write_ea':
        return 'EAg' if ev['gas'] else 'EAs'
    if ev['ev'] == 'read':
        return 'read_' + ev['file']
    return ev['ev'].replace('write_', '')


def _signature(case):
    sp = case['species']
    kinds = sorted(('G' if s['ph'] == 'G' else ('B%d' if s['bulk'] else 'S%d') % s['site']) for s in sp)
    rx = [[sorted((c, i) for c, i in r['lhs']), sorted((c, i) for c, i in r['rhs']), r['ads'], bool(r['ts'])]
          for r in case['rx']]
    o = case['opts']
    return json.dumps([kinds, rx, o['act'], o['ff'], o['sd'], o['rd'], len(o['conds'])])


def _nontrivial(case):
    sp = case['species']
    has_gas = any(all(sp[i - 1]['ph'] == 'G' for c, i in r['lhs'] + r['rhs']) for r in case['rx'])
    has_surf = any(any(sp[i - 1]['ph'] != 'G' for c, i in r['lhs'] + r['rhs']) for r in case['rx'])
    return (has_gas and has_surf) or len(case['rx']) >= 2


def _exercised(cases, traces):
    """How often the antecedents of the clauses were non-trivial (vacuity accounting)."""
    ex = {k: 0 for k in (
        'write_events', 'read_events', 'writer_raised', 'reactions', 'gaseous_reactions',
        'surface_reactions', 'adsorption_reactions', 'reactions_with_ts', 'gas_reactants_nongas_product',
        'abe_triples_with_model_value', 'ea_rows_with_model_value', 'adsorbate_species', 'bulk_species',
        'mechanisms_with_2plus_sites', 'mechanisms_gas_and_surface', 'tlc_cases_with_expectation',
        'tube_rows', 'tflow_rows', 'dimensionless_act', 'spaced_delimiters',
        'ea_gibbs_plain_method', 'ea_gibbs_adsorption_method', 'run_pairs_equalT_diffP',
        'run_pairs_equal_TP', 'run_pairs_diffT_equalP', 'ea_entries_equalT_diffP_value_differs',
        'activated_adsorption_entries',
        'names_with_hyphen', 'names_with_comma', 'names_len_1', 'names_len_15_16', 'names_len_over_16',
        'site_names_with_hyphen', 'mech_1_reaction', 'mech_2_reactions', 'mech_39_reactions', 'mech_40_reactions',
        'mech_2_species', 'mech_3_species', 'mech_29_species', 'mech_30_species', 'mech_1_site', 'mech_3_sites',
        'gas_only_mechanisms', 'surface_only_mechanisms', 'no_gas_species', 'gas_file_without_reactions',
        'surf_file_without_reactions', 'runs_1', 'runs_8', 'frac_conditions_1', 'frac_conditions_8',
        'all_species_in_tube', 'all_defaults', 'newline_crlf', 'rx_given_as_list', 'rx_given_as_Reactions',
        'from_string_reactions', 'bep_transition_states', 'coefficient_3', 'same_species_both_sides',
        'occupancy_above_1', 'stick_int_1', 'stick_zero', 'surface_rx_with_bulk_reactant', 'surface_rx_with_bulk_product',
        'A_species_witnesses', 'A_species_witnesses_with_bulk_reactant', 'A_species_witnesses_with_ts',
        'site_objs_shared_2plus_adsorbates', 'site_objs_separate_2plus_adsorbates',
        'site_objs_roundtrip_2plus_adsorbates', 'plus_sign_format_files_read_back')}
    for m in ACTS:
        ex['act_' + m] = 0
    for m in ADS_ACTS:
        ex['ads_act_' + m] = 0
    for m in EA_ACTS:
        ex['ea_act_' + m] = 0
    for u in UNITS:
        ex['unit_' + u] = 0
    for x in NUMKINDS:
        ex['numkind_' + x] = 0
    for x in ('list', 'tuple', 'ndarray'):
        ex['seq_' + x] = 0
    for x in SDEN_OPS:
        ex['sden_' + x] = 0
    for x in FLOATS:
        ex['ff_' + x] = 0
    for x in RDELIMS:
        ex['rd_' + x] = 0
    for x in CDELIMS:
        ex['cd_' + repr(x)] = 0
    for m in ACTS:
        ex[m + '_ts_above_floor'] = ex[m + '_ts_below_floor'] = 0
    for case, (tid, events) in zip(cases, traces):
        sp = case['species']
        kinds = []
        for r in case['rx']:
            terms = r['lhs'] + r['rhs']
            g = all(sp[i - 1]['ph'] == 'G' for c, i in terms)
            kinds.append(g)
            ex['reactions'] += 1
            ex['gaseous_reactions' if g else 'surface_reactions'] += 1
            ex['adsorption_reactions'] += bool(r['ads'])
            ex['reactions_with_ts'] += bool(r['ts'])
            ex['gas_reactants_nongas_product'] += (not g and all(sp[i - 1]['ph'] == 'G' for c, i in r['lhs']))
        ex['mechanisms_gas_and_surface'] += (True in kinds and False in kinds)
        part = set(i for r in case['rx'] for c, i in r['lhs'] + r['rhs'])
        ex['adsorbate_species'] += sum(1 for i in part if sp[i - 1]['ph'] != 'G' and not sp[i - 1]['bulk'])
        ex['bulk_species'] += sum(1 for i in part if sp[i - 1]['bulk'])
        ex['mechanisms_with_2plus_sites'] += len(set(sp[i - 1]['site'] for i in part if sp[i - 1]['site'])) >= 2
        ex['tlc_cases_with_expectation'] += 'exp' in case
        ex['dimensionless_act'] += 'oRT' in case['opts']['act']
        ex['spaced_delimiters'] += (' ' in case['opts']['sd'] or ' ' in case['opts']['rd'])
        for k, v in events[0].get('acct', {}).items():
            ex[k] = ex.get(k, 0) + v
        o = case['opts']
        allnames = [x['name'] for x in sp]
        ex['names_with_hyphen'] += sum('-' in n for n in allnames)
        ex['names_with_comma'] += sum(',' in n for n in allnames)
        ex['names_len_1'] += sum(len(n) == 1 for n in allnames)
        ex['names_len_15_16'] += sum(len(n) in (15, 16) for n in allnames)
        ex['names_len_over_16'] += sum(len(n) > 16 for n in allnames)
        ex['site_names_with_hyphen'] += sum('-' in x['name'] for x in case['sites'])
        for n in (1, 2, 39, 40):
            ex['mech_%d_reaction%s' % (n, '' if n == 1 else 's')] += len(case['rx']) == n
        for n in (2, 3, 29, 30):
            ex['mech_%d_species' % n] += len(sp) == n
        ex['mech_1_site'] += len(case['sites']) == 1
        ex['mech_3_sites'] += len(case['sites']) == 3
        ex['gas_only_mechanisms'] += all(kinds)
        ex['surface_only_mechanisms'] += not any(kinds)
        ex['no_gas_species'] += not any(x['ph'] == 'G' for x in sp)
        ex['gas_file_without_reactions'] += not any(kinds)
        ex['surf_file_without_reactions'] += all(kinds)
        ex['runs_1'] += len(o['conds']) == 1
        ex['runs_8'] += len(o['conds']) == 8
        ex['frac_conditions_1'] += len(o['fracs']) == 1
        ex['frac_conditions_8'] += len(o['fracs']) == 8
        ex['all_species_in_tube'] += set(allnames) <= set(n for f in o['fracs'] for n in f)
        ex['all_defaults'] += bool(o.get('defaults'))
        ex['newline_crlf'] += o.get('newline') == '\r\n'
        ex['rx_given_as_list'] += o.get('rx_container') == 'list'
        ex['rx_given_as_Reactions'] += o.get('rx_container') == 'Reactions'
        ex['from_string_reactions'] += sum(r.get('ctor') == 'from_string' for r in case['rx'])
        ex['bep_transition_states'] += sum(1 for t in case['ts'] if t.get('kind') == 'bep')
        ex['coefficient_3'] += sum(c == 3 for r in case['rx'] for c, i in r['lhs'] + r['rhs'])
        ex['same_species_both_sides'] += sum(bool(set(i for c, i in r['lhs']) & set(i for c, i in r['rhs'])) for r in case['rx'])
        per_site = {}
        for i in part:
            if sp[i - 1]['ph'] != 'G' and not sp[i - 1]['bulk']:
                per_site[sp[i - 1]['site']] = per_site.get(sp[i - 1]['site'], 0) + 1
        mode = o.get('site_objs', 'shared')
        if mode == 'roundtrip' and any(t.get('kind') == 'bep' for t in case['ts']):
            mode = 'separate'
        ex['site_objs_%s_2plus_adsorbates' % mode] += any(v >= 2 for v in per_site.values())
        ex['plus_sign_format_files_read_back'] += sum(
            1 for e in events if e['ev'] == 'read' and o['ff'].startswith('+')
            and ((True in kinds) if e['file'] == 'gas' else (False in kinds)))
        nonads = [r for r in case['rx'] if not r['ads']]
        ex['surface_rx_with_bulk_reactant'] += sum(any(sp[i - 1]['bulk'] for c, i in r['lhs']) for r in nonads)
        ex['surface_rx_with_bulk_product'] += sum(any(sp[i - 1]['bulk'] for c, i in r['rhs']) for r in nonads)
        for e in events:
            if e['ev'] == 'write_surf' and not e['raised']:
                for r, w in zip(case['rx'], e['awit']):
                    if w['ok']:
                        ex['A_species_witnesses'] += 1
                        ex['A_species_witnesses_with_ts'] += bool(w['hasQ'])
                        ex['A_species_witnesses_with_bulk_reactant'] += any(sp[i - 1]['bulk'] for c, i in r['lhs'])
        ex['occupancy_above_1'] += sum(x['occ'] > 1 for x in sp)
        ex['stick_zero'] += sum(1 for r in case['rx'] if r['ads'] and r['stick'] == 0)
        ex['stick_int_1'] += sum(1 for r in case['rx'] if r['ads'] and r['stick'] == 1 and o.get('numkind') != 'float')
        ex['act_' + o['act']] += 1
        ex['ads_act_' + o['ads_act']] += 1
        ex['ea_act_' + o['ea_act']] += 1
        ex['unit_' + o['unit']] += 1
        ex['numkind_' + o.get('numkind', 'float')] += 1
        ex['seq_' + o.get('seq_container', 'list')] += 1
        ex['sden_' + o['sden_op']] += 1
        ex['ff_' + o['ff']] += 1
        ex['rd_' + o['rd']] += 1
        ex['cd_' + repr(o['cd'])] += 1
        ex['ea_gibbs_plain_method'] += case['opts']['ea_act'] == 'get_GoRT_act'
        ex['ea_gibbs_adsorption_method'] += case['opts']['ea_ads_act'] == 'get_GoRT_act'
        cs = case['opts']['conds']
        pairs = [(a, b) for a in range(len(cs)) for b in range(a + 1, len(cs))]
        sameT = [(a, b) for a, b in pairs if cs[a]['T'] == cs[b]['T'] and cs[a]['P'] != cs[b]['P']]
        ex['run_pairs_equalT_diffP'] += len(sameT)
        ex['run_pairs_equal_TP'] += sum(1 for a, b in pairs if cs[a]['T'] == cs[b]['T'] and cs[a]['P'] == cs[b]['P'])
        ex['run_pairs_diffT_equalP'] += sum(1 for a, b in pairs if cs[a]['T'] != cs[b]['T'] and cs[a]['P'] == cs[b]['P'])
        for e in events:                 # entries whose model value separates two runs of equal T
            if e['ev'] == 'write_ea' and not e['raised']:
                for m in e['model']:
                    if m['ok']:
                        ex['ea_entries_equalT_diffP_value_differs'] += sum(1 for a, b in sameT if m['v'][a] != m['v'][b])
        for e in events:
            if e['ev'] == 'read':
                ex['read_events'] += 1
            elif e['ev'].startswith('write_'):
                ex['write_events'] += 1
                ex['writer_raised'] += bool(e['raised'])
                if e['raised']:
                    continue
                if e['ev'] in ('write_gas', 'write_surf'):
                    ex['abe_triples_with_model_value'] += sum(1 for m in e['model'] if m['ok'])
                elif e['ev'] == 'write_ea':
                    ex['ea_rows_with_model_value'] += sum(1 for m in e['model'] if m['ok'])
                elif e['ev'] == 'write_tube':
                    ex['tube_rows'] += max(0, len(e['lines']) - 3)
                elif e['ev'] == 'write_tflow':
                    ex['tflow_rows'] += max(0, len(e['lines']) - 1)
    return ex


REJECTED = [('MC_ChemkinDoc_reactants', 'Partition'), ('MC_ChemkinDoc_digitname', 'ReadBack'),
            ('MC_ChemkinDoc_lonebulk', 'EachOnceBulk'), ('MC_ChemkinDoc_memoT', 'RunsInv')]


def run(ctx):
    ctx.coverage['rule'] = (
        'a case is one mechanism (species with phase/site/occupancy/elements, catalyst sites, '
        'reactions with integer stoichiometry, adsorption flag, transition state) plus writer options; '
        'tlc cases are a seeded sample (600 quick / 3000 thorough) of the written sessions of MC_ChemkinDoc_cases.cfg '
        'carrying the documents TLC expects, rand cases are random mechanisms of 1-40 reactions over '
        '2-30 species on 1-3 sites; every case is written by write_gas, write_surf, write_EA (both), '
        'write_T_flow, write_tube_mole, read back by read_reactions and judged event by event by '
        'Trace_ChemkinDoc.tla; non-trivial = gaseous and non-gaseous reactions together, or >= 2 '
        'reactions; distinct by species kinds, reaction set and the main options')
    if ctx.replay_case is not None:
        cases = [ctx.replay_case['case']]
    else:
        rnd = random.Random(ctx.seed)
        # (D) design model, the variants TLC must reject, and (S->C) case generation, side by side
        box = {}

        def gen():
            box['cases'] = core.run_tlc('MC_ChemkinDoc', 'MC_ChemkinDoc_cases', workers=1, timeout=1500)

        def variant(cfg):
            box[cfg] = ctx.model('MC_ChemkinDoc', cfg, workers=1, expect_ok=False)
        threads = [threading.Thread(target=gen)] + [threading.Thread(target=variant, args=(cfg,))
                                                    for cfg, _ in REJECTED]
        for th in threads:
            th.start()
        ctx.model('MC_ChemkinDoc', ctx.pick('MC_ChemkinDoc', 'MC_ChemkinDoc_thorough'),
                  workers=max(2, core.NCPU - 4))
        for th in threads:
            th.join()
        if any(k not in box for k in ['cases'] + [cfg for cfg, _ in REJECTED]):
            raise core.MachineryError('a TLC run did not return: %s' % sorted(box))
        for cfg, inv in REJECTED:
            bad = box[cfg]
            if bad.ok or bad.violated != inv:
                raise core.MachineryError('%s should be rejected with %s, got ok=%s violated=%s\n%s'
                                          % (cfg, inv, bad.ok, bad.violated, bad.out[-1500:]))
            ctx.notes.append('design model rejects %s: %s violated' % (cfg, inv))
        r = box['cases']
        if not r.ok:
            raise core.MachineryError('case generation failed:\n' + r.out[-2000:])
        chunks = ['<< "CASE",' + c for c in r.out.split('<< "CASE",')[1:]]
        ctx.coverage['tlc_cases'] = len(chunks)
        if not chunks:
            raise core.MachineryError('TLC printed no cases')
        chunks = rnd.sample(chunks, min(ctx.pick(600, 3000), len(chunks)))
        recs = [core.parse_tla(c) for c in chunks]
        i = r.out.find('<< "RUNS"')
        runlists = [core.parse_tla(pv)[1] for pv in core.extract_printed(r.out[max(i, 0):max(i, 0) + 60000])
                    if i >= 0 and core.tagged(pv, 'RUNS')][:1]
        if not runlists or len(runlists[0]) < 2:
            raise core.MachineryError('TLC printed no run lists')
        runlists = [[list(x) for x in rl] for rl in runlists[0]]
        rnd.shuffle(runlists)
        ctx.coverage['tlc_run_lists'] = len(runlists)
        cases = [tlc_case(rec[1], rec[2], rnd, 't%d' % k, runlists[k % len(runlists)], k)
                 for k, rec in enumerate(recs)]
        for k in range(ctx.pick(240, 1500)):
            cases.append(random_case(rnd, 'r%d' % k, big=(k % 4 == 0), k=k))
    results = core.pmap(_safe_execute, cases)
    traces = []
    for tid, (case, (events, mism)) in enumerate(zip(cases, results)):
        if events is None:
            raise core.MachineryError('case %s: %s' % (case.get('cid'), mism))
        ctx.evaluated()
        if _nontrivial(case):
            ctx.nontrivial(_signature(case))
        for m in mism:
            ctx.violation('Raises', case, tags=_tags(case, 'construction'), detail=m)
        traces.append((tid, events))
        if tid % 211 == 0:
            ctx.sample({'cid': case['cid'], 'species': [s['name'] for s in case['species']],
                        'rx': [[r['lhs'], r['rhs'], r['ads']] for r in case['rx']][:6],
                        'act': case['opts']['act'], 'ff': case['opts']['ff']})
    ctx.coverage['exercised'] = ex = _exercised(cases, traces)
    if ctx.replay_case is None:
        empty = [k for k, v in ex.items() if v == 0 and k != 'writer_raised']
        if empty:
            raise core.MachineryError('vacuous run, never exercised: %s' % empty)
    fails, stats = core.validate_traces('Trace_ChemkinDoc', 'Trace', traces)
    ctx.count('traces_validated_against_impl', len(traces))
    ctx.coverage['trace_lines'] = stats['lines']
    if any(clause == 'WitnessBroken' for _, _, clause in fails):
        bad = [(tid, idx) for tid, idx, clause in fails if clause == 'WitnessBroken'][:3]
        raise core.MachineryError('a harness witness (site density operation / entropy sum) did not verify: %s' % bad)
    by = {}
    for tid, idx, clause in fails:
        by.setdefault((tid, clause, _file_of(traces[tid][1][idx])), []).append(idx)
    for (tid, clause, file), idxs in sorted(by.items()):
        ev = traces[tid][1][idxs[0]]
        ctx.violation(clause, cases[tid], tags=_tags(cases[tid], file),
                      detail={'event_indices': idxs, 'raised': ev.get('raised', '')})
    ctx.assume('model numbers are the values returned by the objects own getters (get_A / '
               'sticking_coeff / beta / get_*_act, CatSite attributes, the condition lists) called by '
               'the harness with the requested conditions; their thermodynamic correctness is C08/C09')
    ctx.assume('printed precision: 2|printed - model| <= 1.05 units of the last printed digit '
               '(model projected to 9 significant digits)')
    ctx.assume('names: start with a letter, no blank + < = > / \' !, not a Chemkin keyword; phases G/S; '
               'reactions pairwise different; see notes/C06.md for the generator restrictions')


if __name__ == '__main__':
    core.main('C06', 'model_checking', run)
