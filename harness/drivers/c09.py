"""C09 - kinetic parameters respect the reaction's thermodynamics.

(D)    spec/Kinetics.tla checked exhaustively (MC_Kinetics.cfg): clamp = Max(0, barrier,
       delta) refined by the implementation-shaped max over _get_states, clamped forward
       and reverse values still differ by the reaction change, BEP table (8 descriptors x
       2 directions x slopes {0, 1/2, 1}): difference, via-reaction, same barrier for U and
       H; site-density power.  Two implementation-shaped variants that reproduce defects of
       the pinned tree (MC_Kinetics_droprev.cfg, MC_Kinetics_urev.cfg) must be REJECTED.
(S->C) TLC emits every clamp configuration with the clamped values, the adjusted-slope
       table and every reactant list (<= 3 reactants, kinds gas/surfA/surfB/bulk, stoich
       1-2) with its number of surface reactants.  They are replayed into real
       ChemkinReaction / SurfaceReaction / BEP objects with exactly representable numbers
       (NASA species with integer H/RT, S/R at T = 256 K) and compared by equality.
(C->S) the same runs plus random reactions (mixed species classes, regimes exo/endo,
       barrierless ... high barrier, all unit systems, BEP slopes 0-1, intercepts 0-60,
       site densities 1e-11..1e-8, operations sum/min/max/mean) are recorded and judged by
       spec/Trace_Kinetics.tla.
"""
import math
import random

from harness import core
from harness import lib_c09 as L
from harness.core import to_dec, to_dec_exact

T_EXACT = 256.0
REGIMES = ['none', 'below', 'between', 'top', 'above', 'high']


# --------------------------------------------------------------------------
# small helpers
# --------------------------------------------------------------------------
def _call(evs, name, fn):
    """Call the library; a raise on a call inside the quantifier becomes an event."""
    import numpy as np
    try:
        v = float(np.squeeze(fn()))
    except Exception as ex:                       # noqa
        evs.append({'ev': 'raised', 'fn': name, 'msg': ('%s: %s' % (type(ex).__name__, ex))[:300]})
        return None
    if not core.finite(v):
        evs.append({'ev': 'raised', 'fn': name, 'msg': 'non-finite value %r' % v})
        return None
    return v


def _split(rnd, total, stoich):
    """values x_i with sum(stoich_i * x_i) = total"""
    xs = [rnd.uniform(-15., 15.) for _ in stoich[:-1]]
    rest = total - sum(n * x for n, x in zip(stoich, xs))
    xs.append(rest / stoich[-1])
    return xs


def _tform(T, form):
    """The same temperature as a float, an int, or a NumPy scalar (all are accepted inputs)."""
    import numpy as np
    if form == 'int':
        return int(round(T))
    if form == 'np':
        return np.float64(T)
    if form == 'npint':
        return np.int64(int(round(T)))
    return float(T)


def _mk_species(kind, name, h, s, cp, T, phase='G', cat=None, n_sites=None):
    T = float(T)
    if kind == 'nasa':
        return L.nasa(name, h, s, cp=cp, T_ref=T, phase=phase, cat_site=cat, n_sites=n_sites)
    if kind == 'shomate':
        return L.shomate(name, h, s, cp=cp, T_ref=T, phase=phase)
    # statmech: H/RT(T) is set through the potential energy; S/R is what the modes give
    from pmutt import constants as c
    wn = [200. + 37. * ((len(name) * 7 + i * 13) % 40) for i in range(3)]
    probe = L.statmech(name, 0.0, wn)
    v = float(probe.get_HoRT(T=T))
    return L.statmech(name, (h - v) * c.kb('eV/K') * T, wn, phase=phase)


def _phases_for(cls, gas, surf_by_site, sden, bulk=()):
    """Attach Chemkin catalyst sites / OpenMKM phases to already built species."""
    if cls == 'SurfaceReaction':
        return L.omkm_phases(gas, surf_by_site, sden, bulk)
    return None


# --------------------------------------------------------------------------
# clamp events
# --------------------------------------------------------------------------
def clamp_events(rx, cls, has_ts, T, P, units_list, evs):
    """Record the activation getters and the state values they must be the clamp of."""
    out = {}
    for q in ('H', 'G'):
        for form in ['dimless'] + list(units_list):
            kw = {'T': T}
            if q == 'G':
                kw['P'] = P
            if form == 'dimless':
                st = lambda s_: getattr(rx, 'get_%soRT_state' % q)(state=s_, **kw)       # noqa
                act = lambda rev: getattr(rx, 'get_%soRT_act' % q)(rev=rev, **kw)         # noqa
            else:
                st = lambda s_: getattr(rx, 'get_%s_state' % q)(state=s_, units=form, **kw)   # noqa
                act = lambda rev: getattr(rx, 'get_%s_act' % q)(units=form, rev=rev, **kw)    # noqa
            r = _call(evs, 'get_%s_state' % q, lambda: st('reactants'))
            p = _call(evs, 'get_%s_state' % q, lambda: st('products'))
            ts = _call(evs, 'get_%s_state' % q, lambda: st('ts')) if has_ts else 0.0
            if r is None or p is None or ts is None:
                continue
            for d, rev in (('fwd', False), ('rev', True)):
                v = _call(evs, 'get_%s%s_act' % (q, 'oRT' if form == 'dimless' else ''), lambda: act(rev))
                if v is None:
                    continue
                out[(q, form, d)] = v
                evs.append({'ev': 'clamp', 'cls': cls, 'q': q, 'form': form, 'dir': d, 'hasTS': has_ts,
                            'r': to_dec(r), 'p': to_dec(p), 'ts': to_dec(ts), 'val': to_dec(v)})
    return out


def exec_clamp_tlc(case):
    """A TLC clamp configuration on exact numbers; equality with TLC's clamped values."""
    cls, q = case['cls'], case['q']
    rnd = random.Random(case['cseed'])
    c = case['c']
    T = T_EXACT
    names = ['R1', 'P1', 'TS1']
    vals = [c['r'], c['p'], c['ts']]
    sp = []
    site = L.cat_site('PT', 2.5e-9)
    for nm, v in zip(names, vals):
        other = float(rnd.randrange(-3, 4))
        if q == 'H':
            h, s = float(v), other
        else:
            h, s = other, other - float(v)           # G/RT = h - s = v
        sp.append(L.nasa(nm, h, s, T_ref=T, phase='S', cat_site=site if cls == 'ChemkinReaction' else None))
    if cls == 'SurfaceReaction':
        L.omkm_phases([], {'terrace': sp}, {'terrace': 2.5e-9})
    has_ts = bool(c['hasTS'])
    rx = L.reaction(cls, [sp[0]], [1.], [sp[1]], [1.], [sp[2]] if has_ts else None, [1.] if has_ts else None)
    evs, mism = [], []
    units = [case.get('unit') or L.R_UNITS[case['cseed'] % len(L.R_UNITS)]]
    got = clamp_events(rx, cls, has_ts, T, 1.0, units, evs)
    for d in ('fwd', 'rev'):
        g = got.get((q, 'dimless', d))
        if g is None or g != float(c[d]):
            mism.append({'getter': 'get_%soRT_act' % q, 'dir': d, 'tlc': c[d], 'code': g})
    return evs, mism, {'cls': cls, 'q': q, 'ts': 'species' if has_ts else 'none',
                       'cov': ['runit:' + u for u in units]}


def _regime_ts(rnd, regime, r, p):
    lo, hi = min(r, p), max(r, p)
    if regime == 'below':
        return lo - rnd.uniform(0.5, 10.)
    if regime == 'between':
        return lo + (hi - lo) * rnd.uniform(0.1, 0.9)
    if regime == 'top':
        return hi
    if regime == 'above':
        return hi + rnd.uniform(0.01, 8.)
    return hi + rnd.uniform(8., 60.)


def _rand_state(rnd):
    r = rnd.uniform(-30., 30.)
    kind = rnd.choice(['exo', 'endo', 'neutral', 'exo', 'endo'])
    d = {'exo': -rnd.uniform(0.05, 25.), 'endo': rnd.uniform(0.05, 25.), 'neutral': 0.0}[kind]
    return r, r + d


def exec_clamp_rand(case):
    """Random reaction of ChemkinReaction / SurfaceReaction with mixed species classes."""
    rnd = random.Random(case['cseed'])
    cls = case['cls']
    regH, regG = case['regH'], case['regG']
    has_ts = regH != 'none'
    tform = case.get('tform', 'float')
    T = _tform(rnd.choice([298.15, rnd.uniform(250., 1400.)]), tform)
    P = rnd.choice([1.0, 0.1, 10.0, 1.01325])
    ctor = case.get('ctor', 'init')
    int_st = case.get('int_st', False)
    kinds = ['nasa', 'shomate', 'statmech']
    hr, hp = _rand_state(rnd)
    gr, gp = _rand_state(rnd)
    targets = {'r': (hr, gr), 'p': (hp, gp)}
    if has_ts:
        targets['ts'] = (_regime_ts(rnd, regH, hr, hp), _regime_ts(rnd, regG if regG != 'none' else 'above', gr, gp))
    site = L.cat_site('PT', 10 ** rnd.uniform(-11, -8))
    states, surf, gas = {}, [], []
    for key in (['r', 'p', 'ts'] if has_ts else ['r', 'p']):
        n = rnd.randint(1, 3) if key != 'ts' else rnd.randint(1, 2)
        st = [rnd.choice([1, 1, 2, 3] if int_st else [0.5, 1., 1., 2., 3.]) for _ in range(n)]
        hs = _split(rnd, targets[key][0], st)
        ss = _split(rnd, targets[key][0] - targets[key][1], st)       # S/R = H/RT - G/RT
        sps = []
        for i in range(n):
            k = rnd.choice(kinds)
            is_gas = key != 'ts' and rnd.random() < 0.4
            nm = '%s%d%s' % (key.upper(), i, '' if is_gas else '(S)')
            cat = site if (cls == 'ChemkinReaction' and not is_gas and k == 'nasa') else None
            s_ = _mk_species(k, nm, hs[i], ss[i], rnd.choice([0., rnd.uniform(0., 6.)]), T,
                             phase='G' if is_gas else 'S', cat=cat)
            (gas if is_gas else surf).append(s_)
            sps.append(s_)
        states[key] = (sps, st)
    if cls == 'SurfaceReaction':
        L.omkm_phases(gas, {'terrace': surf}, {'terrace': site.site_density})
    build = L.from_string if ctor == 'from_string' else L.reaction
    rx = build(cls, states['r'][0], states['r'][1], states['p'][0], states['p'][1],
               states['ts'][0] if has_ts else None, states['ts'][1] if has_ts else None)
    evs = []
    units = case.get('units') or rnd.sample(L.R_UNITS, 2)
    clamp_events(rx, cls, has_ts, T, P, units, evs)
    return evs, [], {'cls': cls, 'ts': 'species' if has_ts else 'none',
                     'cov': ['runit:' + u for u in units] + ['T:' + tform, 'ctor:%s:%s' % (cls, ctor),
                                                             'stoich:' + ('int' if int_st else 'float')]}


# --------------------------------------------------------------------------
# BEP
# --------------------------------------------------------------------------
def exec_bep(case):
    """A BEP relation as the transition state of a reaction."""
    from pmutt import constants as c
    rnd = random.Random(case['cseed'])
    desc, bcls, cls = case['desc'], case['bcls'], case['cls']
    import numpy as np
    slope, icpt = case['slope'], case['icpt']
    stype = case.get('stype', 'float')            # how slope / intercept are handed to the constructor
    if stype == 'int':
        slope, icpt = int(slope), int(icpt)
    elif stype == 'np':
        slope, icpt = np.float64(slope), np.float64(icpt)
    uses_E = desc.endswith('_E')
    tform = case.get('tform', 'float')
    T = _tform(rnd.choice([298.15, rnd.uniform(250., 1200.)]), tform)
    # energy descriptors need species with an electronic energy (StatMech)
    kinds = ['statmech'] if (uses_E or case.get('uh')) else ['nasa', 'shomate', 'statmech']
    hr, hp = _rand_state(rnd)
    sides = {}
    surf = []
    site = L.cat_site('PT', 2.5e-9)
    for key, tot in (('r', hr), ('p', hp)):
        n = rnd.randint(1, 2)
        st = [rnd.choice([0.5, 1., 1., 2.]) for _ in range(n)]
        hs = _split(rnd, tot, st)
        sps = []
        for i in range(n):
            k = rnd.choice(kinds)
            s_ = _mk_species(k, '%s%d' % (key.upper(), i), hs[i], rnd.uniform(-8., 8.), rnd.uniform(0., 4.), T,
                             phase='S', cat=site if (cls == 'ChemkinReaction' and k == 'nasa') else None)
            sps.append(s_)
            surf.append(s_)
        sides[key] = (sps, st)
    b = L.bep(bcls, 'BEP1', slope, icpt, desc)
    if cls == 'SurfaceReaction':
        L.omkm_phases([], {'terrace': surf}, {'terrace': 2.5e-9})
    # the OpenMKM route: the reaction names its direction / id and registers itself with the BEP
    okw = {}
    omkm = case.get('omkm')
    if cls == 'SurfaceReaction' and omkm:
        okw = {'direction': omkm[0], 'id': omkm[1]}
        if bcls == 'omkm':
            b.direction = omkm[0]
    ctor = case.get('ctor', 'init')
    build = L.from_string if ctor == 'from_string' else L.reaction
    rx = build(cls, sides['r'][0], sides['r'][1], sides['p'][0], sides['p'][1], [b], [1.], **okw)
    evs, mism = [], []
    cov = ['bep:%s:%s' % (desc, cls), 'bepcls:' + bcls, 'T:' + tform, 'ctor:%s:%s' % (cls, ctor),
           'slope:' + case.get('skind', 'interior'), 'icpt:' + case.get('ikind', 'interior'), 'stype:' + stype]
    if okw:
        cov.append('omkm:%s:%s' % (omkm[0], type(omkm[1]).__name__))
        if bcls == 'omkm':
            if getattr(rx, 'bep', None) is not b:
                mism.append({'getter': 'SurfaceReaction.bep', 'tlc': 'the BEP of the transition state', 'code': repr(getattr(rx, 'bep', None))})
            reg = {'synthesis': b.synthesis_reactions, 'cleavage': b.cleavage_reactions}.get(omkm[0])
            if reg is not None and not any(x is rx for x in reg):
                mism.append({'getter': 'BEP.%s_reactions' % omkm[0], 'tlc': 'contains the reaction', 'code': len(reg)})
    # (S->C) adjusted slope table of TLC, exact for slopes 0, 1/2, 1
    for sc in case.get('table', []):
        try:
            got = b._get_adjusted_slope(rev=(sc['dir'] == 'rev'))
        except Exception as ex:                      # noqa
            got = repr(ex)
        if sc['specified'] and got != sc['adj2'] / 2.0:
            mism.append({'getter': '_get_adjusted_slope', 'dir': sc['dir'], 'tlc': sc['adj2'] / 2.0, 'code': got})
    # descriptor value by its documented meaning, from the reaction's own getters (kcal/mol)
    kc = 'kcal/mol'
    meaning = {
        'delta_H': lambda: rx.get_delta_H(units=kc, T=T), 'rev_delta_H': lambda: rx.get_delta_H(units=kc, T=T, rev=True),
        'reactants_H': lambda: rx.get_H_state(state='reactants', units=kc, T=T),
        'products_H': lambda: rx.get_H_state(state='products', units=kc, T=T),
        'delta_E': lambda: rx.get_delta_E(units=kc, T=T), 'rev_delta_E': lambda: rx.get_delta_E(units=kc, T=T, rev=True),
        'reactants_E': lambda: rx.get_E_state(state='reactants', units=kc, T=T),
        'products_E': lambda: rx.get_E_state(state='products', units=kc, T=T)}
    D = _call(evs, 'descriptor', meaning[desc])
    if D is None:
        return evs, mism, {'desc': desc, 'cls': cls, 'cov': cov}
    units = [kc] + (case.get('units') or rnd.sample([u for u in L.ENERGY_UNITS if u != kc], 2))
    cov += ['eunit:' + u for u in units]
    for d, rev in (('fwd', False), ('rev', True)):
        for u in units:
            v = _call(evs, 'BEP.get_E_act', lambda: b.get_E_act(units=u, reaction=rx, rev=rev, T=T))
            if v is None:
                continue
            evs.append({'ev': 'bep', 'desc': desc, 'dir': d, 'units': u, 'slope': to_dec(slope), 'icpt': to_dec(icpt),
                        'D': to_dec(D), 'uf': to_dec(c.convert_unit(initial=kc, final=u)), 'val': to_dec(v)})
    # difference forward - reverse (kcal/mol, cal/mol, dimensionless: forms whose unit factors are one table)
    has_E = kinds == ['statmech']
    for form in ('kcal/mol', 'cal/mol', 'dimless'):
        if form == 'dimless':
            dH = _call(evs, 'get_delta_HoRT', lambda: rx.get_delta_HoRT(T=T))
            dE = _call(evs, 'get_delta_EoRT', lambda: rx.get_delta_EoRT(T=T)) if has_E else 0.0
            ef = _call(evs, 'BEP.get_EoRT_act', lambda: b.get_EoRT_act(reaction=rx, rev=False, T=T))
            er = _call(evs, 'BEP.get_EoRT_act', lambda: b.get_EoRT_act(reaction=rx, rev=True, T=T))
        else:
            dH = _call(evs, 'get_delta_H', lambda: rx.get_delta_H(units=form, T=T))
            dE = _call(evs, 'get_delta_E', lambda: rx.get_delta_E(units=form, T=T)) if has_E else 0.0
            ef = _call(evs, 'BEP.get_E_act', lambda: b.get_E_act(units=form, reaction=rx, rev=False, T=T))
            er = _call(evs, 'BEP.get_E_act', lambda: b.get_E_act(units=form, reaction=rx, rev=True, T=T))
        if dH is None or dE is None:
            continue
        if ef is None or er is None:
            continue
        evs.append({'ev': 'bepdiff', 'desc': desc, 'form': form, 'ef': to_dec(ef), 'er': to_dec(er),
                    'dH': to_dec(dH), 'dE': to_dec(dE)})
        # via the reaction's transition-state enthalpy
        for d, rev, direct in (('fwd', False, ef), ('rev', True, er)):
            init = 'products' if rev else 'reactants'
            route = case.get('via', 'delta')
            if route == 'H' and cls != 'Reaction':
                route = 'delta'                      # the H getters of the kinetic-file classes are clamped
            cov.append('via:%s:%s:%s' % (cls, route, 'dimless' if form == 'dimless' else 'units'))
            if form == 'dimless':
                via = _call(evs, 'get_HoRT_act', {
                    'delta': lambda: rx.get_delta_HoRT(rev=rev, act=True, T=T),
                    'H': lambda: rx.get_HoRT_act(rev=rev, T=T),
                    'E': lambda: rx.get_EoRT_act(rev=rev, T=T)}[route])
                hts = _call(evs, 'get_HoRT_state', lambda: rx.get_HoRT_state(state='ts', T=T))
                hin = _call(evs, 'get_HoRT_state', lambda: rx.get_HoRT_state(state=init, T=T))
            else:
                via = _call(evs, 'get_H_act', {
                    'delta': lambda: rx.get_delta_H(units=form, T=T, rev=rev, act=True),
                    'H': lambda: rx.get_H_act(units=form, T=T, rev=rev),
                    'E': lambda: rx.get_E_act(units=form, T=T, rev=rev)}[route])
                hts = _call(evs, 'get_H_state', lambda: rx.get_H_state(state='ts', units=form, T=T))
                hin = _call(evs, 'get_H_state', lambda: rx.get_H_state(state=init, units=form, T=T))
            if None in (via, hts, hin):
                continue
            evs.append({'ev': 'bepvia', 'desc': desc, 'dir': d, 'form': form, 'direct': to_dec(direct),
                        'via': to_dec(via), 'hts': to_dec(hts), 'hinit': to_dec(hin)})
    # internal energy and enthalpy offsets (species with an internal energy only)
    if has_E:
        for form in ('dimless', 'kcal/mol', 'J/mol', 'act', 'act:kcal/mol'):
            cov.append('uh:' + form)
            if form == 'act':                        # the activation families: U_act vs H through the TS
                uts = _call(evs, 'get_UoRT_act', lambda: rx.get_UoRT_act(rev=False, T=T))
                hts = _call(evs, 'get_delta_HoRT', lambda: rx.get_delta_HoRT(rev=False, act=True, T=T))
                ur, hr_ = 0.0, 0.0
            elif form == 'act:kcal/mol':
                uts = _call(evs, 'get_U_act', lambda: rx.get_U_act(units='kcal/mol', T=T, rev=False))
                hts = _call(evs, 'get_delta_H', lambda: rx.get_delta_H(units='kcal/mol', T=T, rev=False, act=True))
                ur, hr_ = 0.0, 0.0
            elif form == 'dimless':
                uts = _call(evs, 'BEP.get_UoRT', lambda: b.get_UoRT(reaction=rx, T=T))
                hts = _call(evs, 'BEP.get_HoRT', lambda: b.get_HoRT(reaction=rx, T=T))
                ur = _call(evs, 'get_UoRT_state', lambda: rx.get_UoRT_state(state='reactants', T=T))
                hr_ = _call(evs, 'get_HoRT_state', lambda: rx.get_HoRT_state(state='reactants', T=T))
            else:
                uts = _call(evs, 'get_U_state', lambda: rx.get_U_state(state='ts', units=form, T=T))
                hts = _call(evs, 'get_H_state', lambda: rx.get_H_state(state='ts', units=form, T=T))
                ur = _call(evs, 'get_U_state', lambda: rx.get_U_state(state='reactants', units=form, T=T))
                hr_ = _call(evs, 'get_H_state', lambda: rx.get_H_state(state='reactants', units=form, T=T))
            if None in (uts, hts, ur, hr_):
                continue
            evs.append({'ev': 'bepuh', 'desc': desc, 'form': form, 'uts': to_dec(uts), 'ur': to_dec(ur),
                        'hts': to_dec(hts), 'hr': to_dec(hr_)})
    # clamped getters of the kinetic-file classes on a BEP transition state
    if cls != 'Reaction':
        ru = case.get('runit') or rnd.choice(L.R_UNITS)
        cov.append('runit:' + ru)
        clamp_events(rx, cls, True, T, 1.0, [ru], evs)
    return evs, mism, {'desc': desc, 'cls': cls, 'bcls': bcls, 'ts': 'bep', 'cov': cov}


# --------------------------------------------------------------------------
# pre-exponential factors
# --------------------------------------------------------------------------
def _a_event(evs, cls, rx, T, rs, sdA, sdB, op, units, route, per_T, rev, m, m_val, scale_sites, tags):
    """Record A, A with every site density times ten, and the sensors."""
    from pmutt import constants as c
    kw = {'T': T}
    if tags.get('omit_T'):                        # documented default: 298.15 K
        kw = {}
    uf = 1.0
    if cls != 'Reaction':
        if not tags.get('omit_op'):               # documented default of ChemkinReaction.get_A: 'sum'
            kw['sden_operation'] = op
        kw['include_entropy'] = (route in ('entropy', 'q')) or tags.get('no_ts', False)
        if cls == 'SurfaceReaction':
            if isinstance(units, (list, tuple)):  # ('obj', quantity, length): a Units object
                from pmutt.omkm.units import Units
                kw['units'] = Units(quantity=units[1], length=units[2])
                qu, au = units[1], units[2] + '2'
            else:
                kw['units'] = units
                qu, au = units.split('/')
            # mol/cm2 -> output units by the library's own tables (their content is C12's subject)
            uf = c.convert_unit(initial='mol', final=qu) / c.convert_unit(initial='cm2', final=au)
    if route in ('entropy', 'q'):
        kw.update({'use_q': route == 'q', 'm': m, 'rev': rev})
    v = _call([], 'get_A', lambda: rx.get_A(**kw))
    ok = v is not None
    scale_sites(10.0)
    try:
        v10 = _call([], 'get_A', lambda: rx.get_A(**kw))
    finally:
        scale_sites(0.1)
    if route == 'entropy':
        dS = _call(evs, 'get_SoR_act', lambda: rx.get_SoR_act(rev=rev, T=T))
        if dS is None:
            return
        x = dS + m_val
        ex = math.exp(x)
    else:
        dS, x, ex = 0.0, 0.0, 1.0
    sl = [sdA if k == 'surfA' else sdB for (k, n) in rs if k in ('surfA', 'surfB') for _ in range(n)]
    evs.append({'ev': 'A', 'cls': cls, 'T': to_dec(T), 'kb': to_dec(c.kb('J/K')), 'h': to_dec(c.h('J s')),
                'route': route, 'perT': per_T, 'dir': 'rev' if rev else 'fwd',
                'dS': to_dec(dS), 'm': to_dec(m_val), 'x': to_dec(x), 'ex': to_dec(ex),
                'rs': [[k, n] for (k, n) in rs], 'sdA': to_dec(sdA), 'sdB': to_dec(sdB), 'op': op,
                'mw': to_dec(sum(sl) / len(sl)) if sl else [0, 0],
                'uf': to_dec(uf),
                'ok': ok, 'val': to_dec(v) if ok else [0, 0],
                'ok10': v10 is not None, 'val10': to_dec(v10) if v10 is not None else [0, 0]})


def _build_site_reaction(rnd, cls, rs, has_ts, T, sdA, sdB, exact=False, n_sites=None, ctor='init'):
    """Reactants from a list of (kind, stoich); one product; optional transition state."""
    siteA = L.cat_site('PT', sdA, bulk='PTB(B)')
    siteB = L.cat_site('RU', sdB, bulk='RUB(B)')
    gas, surf, bulk = [], {'terrace': [], 'step': []}, []
    reactants, st = [], []

    def hs():
        if exact:
            return float(rnd.randrange(-3, 4)), float(rnd.randrange(-3, 4))
        return rnd.uniform(-20., 20.), rnd.uniform(-10., 10.)
    for i, (k, n) in enumerate(rs):
        h, s = hs()
        if k == 'gas':
            sp = L.nasa('G%d' % i, h, s, T_ref=T, phase='G')
            gas.append(sp)
        elif k == 'bulk':
            nm = 'PTB(B)'
            if any(x.name == nm for x in bulk):
                nm = 'RUB(B)'
            sp = L.nasa(nm, h, s, T_ref=T, phase='S',
                        cat_site=(siteA if nm == 'PTB(B)' else siteB) if cls == 'ChemkinReaction' else None)
            bulk.append(sp)
        else:
            site = siteA if k == 'surfA' else siteB
            sp = L.nasa('S%d(%s)' % (i, k[-1]), h, s, T_ref=T, phase='S',
                        cat_site=site if cls == 'ChemkinReaction' else None, n_sites=n_sites)
            surf['terrace' if k == 'surfA' else 'step'].append(sp)
        reactants.append(sp)
        st.append(float(n))
    all_gas = all(k == 'gas' for k, n in rs)
    h, s = hs()
    prod = L.nasa('PR' + ('' if all_gas else '(A)'), h, s, T_ref=T, phase='G' if all_gas else 'S',
                  cat_site=None if (all_gas or cls != 'ChemkinReaction') else siteA)
    h, s = hs()
    ts = L.nasa('TS' + ('' if all_gas else '(A)'), h, s, T_ref=T, phase='G' if all_gas else 'S',
                cat_site=None if (all_gas or cls != 'ChemkinReaction') else siteA) if has_ts else None
    if all_gas:
        gas += [prod] + ([ts] if ts else [])
    else:
        surf['terrace'] += [prod] + ([ts] if ts else [])
    phases = None
    if cls == 'SurfaceReaction':
        phases = L.omkm_phases(gas, {k: v for k, v in surf.items() if v}, {'terrace': sdA, 'step': sdB}, bulk)
    # two different bulk species of the same name cannot exist; at most two bulk reactants are built
    build = L.from_string if ctor == 'from_string' else L.reaction
    rx = build(cls, reactants, st, [prod], [1.], [ts] if ts else None, [1.] if ts else None)

    def scale_sites(f):
        if cls == 'ChemkinReaction':
            siteA.site_density *= f
            siteB.site_density *= f
        else:
            for nm in ('terrace', 'step'):
                if nm in phases:
                    phases[nm].site_density *= f
    return rx, scale_sites


def exec_site(case):
    """A reactant list (from TLC or random): number of surface reactants, gas-phase flag, A."""
    rnd = random.Random(case['cseed'])
    cls = case['cls']
    rs = [(k, int(n)) for k, n in case['rs']]
    has_ts = case['hasTS']
    exact = case.get('exact', False)
    tform = case.get('tform', 'float')
    T = T_EXACT if exact else _tform(rnd.choice([298.15, rnd.uniform(250., 1400.)]), tform)
    if case.get('omit_T'):
        T = 298.15
    # site densities: the ends of the documented range, their neighbours, the interior
    sd_kind = case.get('sd', 'interior')
    sdA = {'low': 1e-11, 'high': 1e-8, 'low+': 1.0000001e-11, 'high-': 9.999999e-9}.get(sd_kind) or 10 ** rnd.uniform(-11, -8)
    sdB = sdA if rnd.random() < 0.3 else rnd.choice([1e-11, 1e-8, 10 ** rnd.uniform(-11, -8)])
    if sum(1 for k, n in rs if k == 'bulk') > 2:
        return [], [], {'cls': cls, 'skipped': 'more than two bulk reactants'}
    ctor = case.get('ctor', 'init')
    n_sites = case.get('n_sites')
    rx, scale_sites = _build_site_reaction(rnd, cls, rs, has_ts, float(T), sdA, sdB, exact, n_sites, ctor)
    cov = ['T:' + tform, 'ctor:%s:%s' % (cls, ctor), 'sd:' + sd_kind, 'n_sites:%s' % n_sites]
    evs, mism = [], []
    n = sum(k for kind, k in rs if kind in ('surfA', 'surfB'))
    all_gas = all(k == 'gas' for k, _ in rs)
    if 'n' in case:
        try:
            got = rx._get_n_surf()
        except Exception as ex:                      # noqa
            got = repr(ex)
        if got != case['n']:
            mism.append({'getter': '_get_n_surf', 'tlc': case['n'], 'code': got})
        if cls == 'ChemkinReaction' and bool(rx.gas_phase) != bool(case['gas']):
            mism.append({'getter': 'gas_phase', 'tlc': case['gas'], 'code': bool(rx.gas_phase)})
    tags = {'cls': cls, 'n': n, 'gas': all_gas, 'ts': 'species' if has_ts else 'none', 'cov': cov}
    # A is defined by the property for gas-phase reactions (no site density) and for >= 1 surface reactant
    # and, for positivity only, for Chemkin surface reactions without an adsorbed reactant;
    # SurfaceReaction.get_A documents a ValueError when no reactant has a site density
    if cls == 'SurfaceReaction' and n == 0:
        tags['skipped'] = 'SurfaceReaction without surface reactant: documented ValueError'
        return evs, mism, tags
    tags['nosite'] = (n == 0 and not all_gas)
    ulist = case.get('aunits') or [rnd.choice(L.A_UNITS)]
    for j, op in enumerate(L.SDEN_OPS if case.get('all_ops', True) else [case.get('op') or rnd.choice(L.SDEN_OPS)]):
        units = ulist[j % len(ulist)]
        opt = {'omit_T': bool(case.get('omit_T')),
               'omit_op': bool(case.get('omit_op')) and cls == 'ChemkinReaction' and op == 'sum'}
        if cls == 'SurfaceReaction':
            cov.append('aunit:' + ('Units:%s/%s2' % (units[1], units[2]) if isinstance(units, (list, tuple)) else units))
        cov += ['op:%s:%s' % (cls, op), 'n:%s:%d' % (cls, n)]
        if opt['omit_op']:
            cov.append('op:default')
        if opt['omit_T']:
            cov.append('T:default')
        if has_ts and rnd.random() < 0.75:
            m = rnd.choice([0, 1, 2, None])
            m_val = float(sum(k for _, k in rs)) if m is None else float(m)
            route = 'q' if case.get('use_q') else 'entropy'
            cov.append('Aroute:%s:%s' % (cls, route))
            _a_event(evs, cls, rx, T, rs, sdA, sdB, op, units, route, True, False, m, m_val, scale_sites,
                     dict(tags, **opt))
        else:
            cov.append('Aroute:%s:%s' % (cls, 'nots' if not has_ts else 'noentropy'))
            _a_event(evs, cls, rx, T, rs, sdA, sdB, op, units, 'nots', True, False, 0, 0.0, scale_sites,
                     dict(tags, no_ts=not has_ts, **opt))
    return evs, mism, tags


def exec_a_rand(case):
    """Reaction.get_A by the entropy route, both directions, all molecularity options."""
    rnd = random.Random(case['cseed'])
    tform = case.get('tform', 'float')
    T = _tform(rnd.choice([298.15, rnd.uniform(250., 1400.)]), tform)
    use_q = bool(case.get('use_q'))
    kinds = ['statmech'] if use_q else ['nasa', 'shomate', 'statmech']
    sides = {}
    for key in ('r', 'p', 'ts'):
        n = rnd.randint(1, 2) if key != 'ts' else 1
        st = [float(rnd.choice([1, 1, 2])) for _ in range(n)] if key != 'ts' else [1.]
        sps = [_mk_species(rnd.choice(kinds), '%s%d' % (key.upper(), i), rnd.uniform(-20., 20.),
                           rnd.uniform(-12., 12.), rnd.uniform(0., 5.), T) for i in range(n)]
        sides[key] = (sps, st)
    rx = L.reaction('Reaction', sides['r'][0], sides['r'][1], sides['p'][0], sides['p'][1],
                    sides['ts'][0], sides['ts'][1])
    evs = []
    for rev in (False, True):
        for m in (0, 1, 2, None):
            m_val = float(sum(sides['p' if rev else 'r'][1])) if m is None else float(m)
            _a_event(evs, 'Reaction', rx, T, [], 1.0, 1.0, 'sum', 'mol/cm2', 'q' if use_q else 'entropy', False,
                     rev, m, m_val, lambda f: None, {})
    return evs, [], {'cls': 'Reaction', 'ts': 'species',
                     'cov': ['T:' + tform, 'Aroute:Reaction:%s' % ('q' if use_q else 'entropy')]}


# --------------------------------------------------------------------------
# what SurfaceReaction.to_omkm_yaml / to_cti hand to the kinetic-model file
# --------------------------------------------------------------------------
_OPT_VAL = {'ea': 12.5, 'a': 3.2e13, 'stick': 0.37, 'beta': 0.5}


def _opt(case_c, key, rnd):
    o = case_c[key]
    if o == 'none':
        return None
    if o == 'zero':
        return 0.0
    return _OPT_VAL[key] * rnd.choice([1.0, 0.5, 2.0])


def _num_of(v):
    """number written in a YAML entry: a float, or '"<number> <units>"' when a Units object is used"""
    if isinstance(v, str):
        return float(v.strip('"').split()[0])
    return float(v)


def exec_handed(case):
    import re
    from pmutt import constants as c
    from pmutt.omkm.units import Units
    rnd = random.Random(case['cseed'])
    hc = case['c']
    ads = bool(hc['ads'])
    method = hc['method']
    T = rnd.choice([298.15, rnd.uniform(300., 1100.)])
    P = rnd.choice([1.0, 1.01325, 5.0])
    reg = case['reg']
    has_ts = reg != 'none'
    sd = 10 ** rnd.uniform(-11, -8)
    hr, hp = _rand_state(rnd)
    gr, gp = _rand_state(rnd)
    tot = {'r': (hr, gr), 'p': (hp, gp)}
    if has_ts:
        tot['ts'] = (_regime_ts(rnd, reg, hr, hp), _regime_ts(rnd, reg, gr, gp))
    if ads:
        layout = {'r': [('GAS1', 'G', 1.), ('PT(S)', 'S', 1.)], 'p': [('A(S)', 'S', 1.)]}
        rs = [('gas', 1), ('surfA', 1)]
    elif case['cseed'] % 3 == 0:
        layout = {'r': [('A(S)', 'S', 1.)], 'p': [('B(S)', 'S', 1.), ('PT(S)', 'S', 1.)]}
        rs = [('surfA', 1)]
    else:
        layout = {'r': [('A(S)', 'S', 1.), ('B(S)', 'S', 2. if case['cseed'] % 3 == 1 else 1.)], 'p': [('C(S)', 'S', 1.)]}
        rs = [('surfA', 1), ('surfA', int(layout['r'][1][2]))]
    if has_ts:
        layout['ts'] = [('TS1(S)', 'S', 1.)]
    sides, gas, surf = {}, [], []
    for key, lst in layout.items():
        st = [x[2] for x in lst]
        hs = _split(rnd, tot[key][0], st)
        ss = _split(rnd, tot[key][0] - tot[key][1], st)
        sps = []
        for (nm, ph, n), h, s_ in zip(lst, hs, ss):
            sp = _mk_species(rnd.choice(['nasa', 'shomate']), nm, h, s_, rnd.uniform(0., 4.), T, phase=ph)
            (gas if ph == 'G' else surf).append(sp)
            sps.append(sp)
        sides[key] = (sps, st)
    phases = L.omkm_phases(gas, {'terrace': surf}, {'terrace': sd})
    given = {k: _opt(hc, k, rnd) for k in ('ea', 'a', 'stick', 'beta')}
    rx = L.reaction('SurfaceReaction', sides['r'][0], sides['r'][1], sides['p'][0], sides['p'][1],
                    sides['ts'][0] if has_ts else None, sides['ts'][1] if has_ts else None,
                    is_adsorption=ads, A=given['a'], beta=given['beta'], Ea=given['ea'],
                    sticking_coeff=given['stick'], use_motz_wise=bool(hc['mw']), id='r_%04d' % (case['cseed'] % 9999))
    u = case['actunit']
    qu, lu = case['aunit']
    wkw = {'T': T, 'P': P, 'ads_act_method': method}
    if case['uobj']:
        wkw['units'] = Units(quantity=qu, length=lu, act_energy=u)
    else:
        wkw.update({'quantity_unit': qu, 'length_unit': lu, 'act_energy_unit': u})
    evs, mism = [], []
    cov = ['handed:ea:' + hc['easrc'], 'handed:a:' + hc['asrc'], 'handed:b:' + hc['bsrc'],
           'handed:ads:%s:%s' % (ads, method), 'handed:mw:%s' % bool(hc['mw']),
           'handed:units:' + ('obj' if case['uobj'] else 'str'), 'handed:actunit:' + u,
           'handed:opt:ea=%s' % hc['ea'], 'handed:opt:a=%s' % hc['a'], 'handed:opt:stick=%s' % hc['stick'],
           'handed:opt:beta=%s' % hc['beta'], 'handed:ts:' + reg] + \
          ['handed:ads=%s:%s=%s' % (ads, k, hc[k]) for k in ('ea', 'a', 'stick', 'beta')]
    tags = {'cls': 'SurfaceReaction', 'ts': 'species' if has_ts else 'none', 'cov': cov}

    def written():
        """(A, b, Ea) as written by to_omkm_yaml and by to_cti"""
        y = rx.to_omkm_yaml(**wkw)
        rc = y['sticking-coefficient' if ads else 'rate-constant']
        t = rx.to_cti(**wkw)
        m_ = re.search(r'stick\(([^,]+),([^,]+),([^)]+)\)' if ads else r'\[([^,\]]+),([^,\]]+),([^\]]+)\]', t)
        return y, (_num_of(rc['A']), _num_of(rc['b']), _num_of(rc['Ea'])), tuple(float(g) for g in m_.groups())
    try:
        y, (yA, yb, yEa), (tA, tb, tEa) = written()
    except Exception as ex:                      # noqa
        evs.append({'ev': 'raised', 'fn': 'to_omkm_yaml/to_cti', 'msg': ('%s: %s' % (type(ex).__name__, ex))[:300]})
        return evs, mism, tags

    def same(name, got, want, cti=False):
        w = float('%.5e' % want) if cti else float(want)
        if got != w:
            mism.append({'getter': name, 'tlc': want, 'code': got})
    # ---- Ea
    if hc['easrc'] == 'given':
        want = c.convert_unit(given['ea'], initial='kcal/mol', final=u)
    else:
        want = _call(evs, hc['easrc'], lambda: getattr(rx, hc['easrc'])(units=u, T=T, P=P))
    if want is not None:
        same('to_omkm_yaml.Ea', yEa, want)
        same('to_cti.Ea', tEa, want, cti=True)
    if hc['easrc'] != 'given':
        q = 'H' if hc['easrc'] == 'get_H_act' else 'G'
        st = lambda s_: getattr(rx, 'get_%s_state' % q)(state=s_, units=u, T=T, P=P)      # noqa
        r = _call(evs, 'get_%s_state' % q, lambda: st('reactants'))
        p_ = _call(evs, 'get_%s_state' % q, lambda: st('products'))
        ts = _call(evs, 'get_%s_state' % q, lambda: st('ts')) if has_ts else 0.0
        if None not in (r, p_, ts):
            evs.append({'ev': 'clamp', 'cls': 'SurfaceReaction', 'q': q, 'form': u, 'dir': 'fwd', 'hasTS': has_ts,
                        'handed': True, 'r': to_dec(r), 'p': to_dec(p_), 'ts': to_dec(ts), 'val': to_dec(yEa)})
    # ---- A
    src = hc['asrc']
    if src == 'half':
        same('to_omkm_yaml.A', yA, 0.5)
        same('to_cti.A', tA, 0.5, cti=True)
    elif src in ('given_stick', 'given_A'):
        g = given['stick'] if src == 'given_stick' else given['a']
        same('to_omkm_yaml.A', yA, g)
        same('to_cti.A', tA, g, cti=True)
    else:
        same('to_cti.A', tA, yA, cti=True)
        phases['terrace'].site_density *= 10.0
        try:
            y10 = written()[1][0]
        finally:
            phases['terrace'].site_density *= 0.1
        uf = c.convert_unit(initial='mol', final=qu) / c.convert_unit(initial='cm2', final=lu + '2')
        evs.append({'ev': 'A', 'cls': 'SurfaceReaction', 'T': to_dec(T), 'kb': to_dec(c.kb('J/K')),
                    'h': to_dec(c.h('J s')), 'route': 'nots', 'perT': True, 'dir': 'fwd', 'handed': True,
                    'dS': [0, 0], 'm': [0, 0], 'x': [0, 0], 'ex': [1, 0], 'rs': [[k, n] for k, n in rs],
                    'sdA': to_dec(sd), 'sdB': to_dec(sd), 'op': 'sum', 'mw': to_dec(sd), 'uf': to_dec(uf),
                    'ok': core.finite(yA), 'val': to_dec(yA) if core.finite(yA) else [0, 0],
                    'ok10': core.finite(y10), 'val10': to_dec(y10) if core.finite(y10) else [0, 0]})
    # ---- b, Motz-Wise, sticking species
    wb = {'given': given['beta'], 'zero': 0.0, 'one': 1.0}[hc['bsrc']]
    same('to_omkm_yaml.b', yb, wb)
    same('to_cti.b', tb, wb)
    if ads:
        if y.get('Motz-Wise') is not bool(hc['mw']):
            mism.append({'getter': 'to_omkm_yaml.Motz-Wise', 'tlc': bool(hc['mw']), 'code': y.get('Motz-Wise')})
        if y.get('sticking-species') != 'GAS1':
            mism.append({'getter': 'to_omkm_yaml.sticking-species', 'tlc': 'GAS1', 'code': y.get('sticking-species')})
    return evs, mism, tags


# --------------------------------------------------------------------------
# second-use histories: build, evaluate, assign public attributes, evaluate again
# --------------------------------------------------------------------------
def _desc_value(rx, desc, T):
    kc = 'kcal/mol'
    return {
        'delta_H': lambda: rx.get_delta_H(units=kc, T=T), 'rev_delta_H': lambda: rx.get_delta_H(units=kc, T=T, rev=True),
        'reactants_H': lambda: rx.get_H_state(state='reactants', units=kc, T=T),
        'products_H': lambda: rx.get_H_state(state='products', units=kc, T=T),
        'delta_E': lambda: rx.get_delta_E(units=kc, T=T), 'rev_delta_E': lambda: rx.get_delta_E(units=kc, T=T, rev=True),
        'reactants_E': lambda: rx.get_E_state(state='reactants', units=kc, T=T),
        'products_E': lambda: rx.get_E_state(state='products', units=kc, T=T)}[desc]


def _bep_vector(evs, b, rx, T):
    """what a BEP object answers for one reaction (same calls on the edited and on the fresh object)"""
    out = []
    for name, fn in (('E_act fwd', lambda: b.get_E_act(units='kcal/mol', reaction=rx, rev=False, T=T)),
                     ('E_act rev', lambda: b.get_E_act(units='kcal/mol', reaction=rx, rev=True, T=T)),
                     ('EoRT_act fwd', lambda: b.get_EoRT_act(reaction=rx, rev=False, T=T)),
                     ('EoRT_act rev', lambda: b.get_EoRT_act(reaction=rx, rev=True, T=T)),
                     ('HoRT', lambda: b.get_HoRT(reaction=rx, T=T)),
                     ('UoRT', lambda: b.get_UoRT(reaction=rx, T=T)),
                     ('GoRT', lambda: b.get_GoRT(reaction=rx, T=T))):
        v = _call(evs, 'BEP.' + name, fn)
        if v is None:
            return None
        out.append(v)
    return out


def _edit_class(old, new):
    fam = lambda d: 'rev' if d.startswith('rev_delta') else ('delta' if d.startswith('delta') else 'state')   # noqa
    if fam(old) == fam(new):
        return 'within'
    if 'state' in (fam(old), fam(new)):
        return 'nondelta'
    return 'cross'


def exec_bepedit(case):
    """Build a BEP, evaluate, assign public attributes one after the other and re-evaluate:
    BepRelation / BepDifference / BepViaReaction on the edited object and EditedEqualsFresh."""
    from pmutt import constants as c
    rnd = random.Random(case['cseed'])
    cls, bcls = case['cls'], case['bcls']
    T = rnd.choice([298.15, rnd.uniform(250., 1200.)])
    site = L.cat_site('PT', 2.5e-9)
    b = L.bep(bcls, 'BEP1', case['slope'], case['icpt'], case['desc'])
    rxs = []
    for j in range(2):                             # two reactions share the BEP (edit 'reaction')
        hr, hp = _rand_state(rnd)
        sps = [_mk_species('statmech', '%s%d' % (nm, j), h, 0., 0., T, phase='S') for nm, h in (('R', hr), ('P', hp))]
        if cls == 'SurfaceReaction':
            L.omkm_phases([], {'terrace%d' % j: sps}, {'terrace%d' % j: 2.5e-9})
        rxs.append(L.reaction(cls, [sps[0]], [1.], [sps[1]], [1.], [b], [1.]))
    rx = rxs[0]
    evs, mism = [], []
    cov = ['edit:stage0']
    kc = 'kcal/mol'
    u2 = case.get('unit', 'J/mol')

    def observe(stage):
        desc, slope, icpt = b.descriptor, b.slope, b.intercept       # the current public attributes
        D = _call(evs, 'descriptor', _desc_value(rx, desc, T))
        if D is None:
            return
        got = {}
        for d, rev in (('fwd', False), ('rev', True)):
            for u in (kc, u2):
                v = _call(evs, 'BEP.get_E_act', lambda: b.get_E_act(units=u, reaction=rx, rev=rev, T=T))
                if v is None:
                    continue
                got[(d, u)] = v
                evs.append({'ev': 'bep', 'desc': desc, 'dir': d, 'units': u, 'slope': to_dec(slope), 'icpt': to_dec(icpt),
                            'D': to_dec(D), 'uf': to_dec(c.convert_unit(initial=kc, final=u)), 'val': to_dec(v),
                            'stage': stage})
        dH = _call(evs, 'get_delta_H', lambda: rx.get_delta_H(units=kc, T=T))
        dE = _call(evs, 'get_delta_E', lambda: rx.get_delta_E(units=kc, T=T))
        if None not in (dH, dE) and ('fwd', kc) in got and ('rev', kc) in got:
            evs.append({'ev': 'bepdiff', 'desc': desc, 'form': kc, 'ef': to_dec(got[('fwd', kc)]),
                        'er': to_dec(got[('rev', kc)]), 'dH': to_dec(dH), 'dE': to_dec(dE), 'stage': stage})
        for d, rev in (('fwd', False), ('rev', True)):
            init = 'products' if rev else 'reactants'
            via = _call(evs, 'get_delta_H', lambda: rx.get_delta_H(units=kc, T=T, rev=rev, act=True))
            hts = _call(evs, 'get_H_state', lambda: rx.get_H_state(state='ts', units=kc, T=T))
            hin = _call(evs, 'get_H_state', lambda: rx.get_H_state(state=init, units=kc, T=T))
            if None not in (via, hts, hin) and (d, kc) in got:
                evs.append({'ev': 'bepvia', 'desc': desc, 'dir': d, 'form': kc, 'direct': to_dec(got[(d, kc)]),
                            'via': to_dec(via), 'hts': to_dec(hts), 'hinit': to_dec(hin), 'stage': stage})
        if stage > 0:
            fresh = L.bep(bcls, 'BEP1', slope, icpt, desc)
            ve, vf = _bep_vector(evs, b, rx, T), _bep_vector(evs, fresh, rx, T)
            if ve is not None and vf is not None:
                evs.append({'ev': 'fresh', 'what': 'BEP', 'edited': ['%.17g' % x for x in ve],
                            'fresh': ['%.17g' % x for x in vf], 'stage': stage, 'attr': last[0]})
    last = [None]
    observe(0)
    for stage, (attr, val) in enumerate(case['edits'], 1):
        if attr == 'reaction':
            rx = rxs[1] if rx is rxs[0] else rxs[0]
            cov.append('edit:reaction')
        else:
            if attr == 'descriptor':
                cov.append('edit:descriptor:' + _edit_class(b.descriptor, val))
            else:
                cov.append('edit:%s' % attr)
            setattr(b, attr, val)
        last[0] = attr
        observe(stage)
    return evs, mism, {'cls': cls, 'bcls': bcls, 'ts': 'bep', 'cov': cov}


def exec_rxedit(case):
    """A SurfaceReaction (or ChemkinReaction) whose kinetic attributes are assigned after
    construction: what it hands out must equal what a fresh object built from the current public
    attribute values hands out; a computed Ea is still the clamp."""
    from pmutt.omkm.units import Units      # noqa
    rnd = random.Random(case['cseed'])
    cls = case['cls']
    T = rnd.choice([298.15, rnd.uniform(300., 1100.)])
    P = rnd.choice([1.0, 1.01325])
    reg = case['reg']
    has_ts = reg != 'none'
    sd = 10 ** rnd.uniform(-11, -8)
    hr, hp = _rand_state(rnd)
    gr, gp = _rand_state(rnd)
    tot = {'r': (hr, gr), 'p': (hp, gp)}
    if has_ts:
        tot['ts'] = (_regime_ts(rnd, reg, hr, hp), _regime_ts(rnd, reg, gr, gp))
    layout = {'r': [('GAS1', 'G', 1.), ('PT(S)', 'S', 1.)], 'p': [('A(S)', 'S', 1.)]}
    if has_ts:
        layout['ts'] = [('TS1(S)', 'S', 1.)]
    site = L.cat_site('PT', sd)
    sides, gas, surf = {}, [], []
    for key, lst in layout.items():
        st = [x[2] for x in lst]
        hs = _split(rnd, tot[key][0], st)
        ss = _split(rnd, tot[key][0] - tot[key][1], st)
        sps = []
        for (nm, ph, n), h, s_ in zip(lst, hs, ss):
            sp = _mk_species('nasa', nm, h, s_, rnd.uniform(0., 4.), T, phase=ph,
                             cat=site if (cls == 'ChemkinReaction' and ph == 'S') else None)
            (gas if ph == 'G' else surf).append(sp)
            sps.append(sp)
        sides[key] = (sps, st)
    if cls == 'SurfaceReaction':
        L.omkm_phases(gas, {'terrace': surf}, {'terrace': sd})
    attrs = ('is_adsorption', 'A', 'beta', 'Ea', 'sticking_coeff', 'use_motz_wise') if cls == 'SurfaceReaction' \
        else ('is_adsorption', 'beta', 'sticking_coeff')

    def build(vals):
        return L.reaction(cls, sides['r'][0], sides['r'][1], sides['p'][0], sides['p'][1],
                          sides['ts'][0] if has_ts else None, sides['ts'][1] if has_ts else None, **vals)
    rx = build(dict(case['init']))
    evs, mism = [], []
    cov = []
    u = case.get('actunit', 'kcal/mol')

    def vector(r, method):
        """everything the object hands out; a raise is part of the answer"""
        out = []

        def num(fn):
            try:
                v = fn()
                return 'None' if v is None else (str(v) if isinstance(v, bool) else '%.17g' % float(v))
            except Exception as ex:                  # noqa
                return 'raise:' + type(ex).__name__
        if cls == 'SurfaceReaction':
            def ycall():
                y = r.to_omkm_yaml(T=T, P=P, act_energy_unit=u, ads_act_method=method)
                return y, y['sticking-coefficient' if r.is_adsorption else 'rate-constant']
            for key in ('A', 'b', 'Ea'):
                out.append(num(lambda: _num_of(ycall()[1][key]) if ycall()[1].get(key) is not None else None))
            out.append(num(lambda: ycall()[0].get('Motz-Wise')))
            out.append(num(lambda: float(len(r.to_cti(T=T, P=P, act_energy_unit=u, ads_act_method=method)))))
            out.append(num(lambda: r.get_A(T=T, include_entropy=False)))
        else:
            out.append(num(lambda: r.get_A(T=T, include_entropy=False)))
            out.append(num(lambda: r.beta))
            # the sticking coefficient is only relevant (documented) for an adsorption reaction
            out.append(num(lambda: r.sticking_coeff if r.is_adsorption else None))
        out.append(num(lambda: r.get_H_act(units=u, T=T)))
        out.append(num(lambda: r.get_G_act(units=u, T=T, P=P)))
        return out
    for stage, (attr, val) in enumerate(case['edits'], 1):
        setattr(rx, attr, val)
        cov.append('rxedit:%s:%s' % (cls, attr))
        method = case['methods'][stage % len(case['methods'])]
        fresh = build({a: getattr(rx, a) for a in attrs})
        ve, vf = vector(rx, method), vector(fresh, method)
        evs.append({'ev': 'fresh', 'what': cls, 'edited': ve, 'fresh': vf, 'stage': stage, 'attr': attr,
                    'nostick': bool(rx.is_adsorption and rx.sticking_coeff is None)})
        # a computed Ea of the edited object is still the clamp
        if cls == 'SurfaceReaction' and rx.Ea is None:
            q = 'G' if (not rx.is_adsorption or method == 'get_G_act') else 'H'
            try:
                y = rx.to_omkm_yaml(T=T, P=P, act_energy_unit=u, ads_act_method=method)
                yEa = _num_of(y['sticking-coefficient' if rx.is_adsorption else 'rate-constant']['Ea'])
            except Exception:                        # noqa  (already part of the vector above)
                continue
            st = lambda s_: getattr(rx, 'get_%s_state' % q)(state=s_, units=u, T=T, P=P)      # noqa
            r_ = _call(evs, 'get_%s_state' % q, lambda: st('reactants'))
            p_ = _call(evs, 'get_%s_state' % q, lambda: st('products'))
            ts = _call(evs, 'get_%s_state' % q, lambda: st('ts')) if has_ts else 0.0
            if None not in (r_, p_, ts):
                evs.append({'ev': 'clamp', 'cls': cls, 'q': q, 'form': u, 'dir': 'fwd', 'hasTS': has_ts, 'handed': True,
                            'r': to_dec(r_), 'p': to_dec(p_), 'ts': to_dec(ts), 'val': to_dec(yEa), 'stage': stage})
    return evs, mism, {'cls': cls, 'ts': 'species' if has_ts else 'none', 'cov': cov}


def _shared_observe(evs, b, rx, cls, T, stage, what):
    """One evaluation of a reaction through the shared BEP, judged against the descriptor taken
    from the reaction's own species-level getters (never through the BEP)."""
    from pmutt import constants as c
    kc = 'kcal/mol'
    desc, slope, icpt = b.descriptor, b.slope, b.intercept
    D = _call(evs, 'descriptor', _desc_value(rx, desc, T))
    if D is None:
        return
    got = {}
    for d, rev in (('fwd', False), ('rev', True)):
        v = _call(evs, 'BEP.get_E_act', lambda: b.get_E_act(units=kc, reaction=rx, rev=rev, T=T))
        if v is None:
            continue
        got[d] = v
        evs.append({'ev': 'bep', 'desc': desc, 'dir': d, 'units': kc, 'slope': to_dec(slope), 'icpt': to_dec(icpt),
                    'D': to_dec(D), 'uf': to_dec(c.convert_unit(initial=kc, final=kc)), 'val': to_dec(v),
                    'stage': stage, 'shared': what})
    dH = _call(evs, 'get_delta_H', lambda: rx.get_delta_H(units=kc, T=T))
    dE = _call(evs, 'get_delta_E', lambda: rx.get_delta_E(units=kc, T=T))
    if None not in (dH, dE) and len(got) == 2:
        evs.append({'ev': 'bepdiff', 'desc': desc, 'form': kc, 'ef': to_dec(got['fwd']), 'er': to_dec(got['rev']),
                    'dH': to_dec(dH), 'dE': to_dec(dE), 'stage': stage, 'shared': what})
    if cls != 'Reaction':
        # Ea handed out by the kinetic-file classes: max(0, barrier, change); the barrier state is the
        # species-level witness H_reactants + (slope * D + intercept), not the BEP's own answer
        for q, kw in (('H', {'T': T}), ('G', {'T': T, 'P': 1.0})):
            r = _call(evs, 'state', lambda: getattr(rx, 'get_%s_state' % q)(state='reactants', units=kc, **kw))
            p = _call(evs, 'state', lambda: getattr(rx, 'get_%s_state' % q)(state='products', units=kc, **kw))
            hr = _call(evs, 'state', lambda: rx.get_H_state(state='reactants', units=kc, T=T))
            if None in (r, p, hr):
                continue
            native_fwd = not desc.startswith('rev_delta')
            if not native_fwd:
                continue                              # the forward barrier is only the documented relation here
            v = _call(evs, 'get_%s_act' % q, lambda: getattr(rx, 'get_%s_act' % q)(units=kc, rev=False, **kw))
            if v is not None:
                # ts is computed by the trace spec: H_reactants + slope * D + intercept - T S_reactants
                evs.append({'ev': 'clamp', 'cls': cls, 'q': q, 'form': kc, 'dir': 'fwd', 'hasTS': True,
                            'r': to_dec(r), 'p': to_dec(p), 'ts': [0, 0], 'val': to_dec(v),
                            'tsw': {'hr': to_dec(r if q == 'H' else hr), 'slope': to_dec(slope), 'D': to_dec(D),
                                    'icpt': to_dec(icpt), 'gr': to_dec(r)},
                            'stage': stage, 'shared': what})


def exec_shared(case):
    """ONE BEP object serving many reactions: a sequence of reactions created, evaluated and
    dropped one after another; several live reactions evaluated alternately; one reaction
    re-evaluated after the energy of one of its species was edited."""
    import gc
    rnd = random.Random(case['cseed'])
    cls, bcls = case['cls'], case['bcls']
    T = rnd.choice([298.15, rnd.uniform(250., 1200.)])
    b = L.bep(bcls, 'BEP1', case['slope'], case['icpt'], case['desc'])
    evs = []
    cov = []
    counter = [0]

    def make(j):
        hr, hp = _rand_state(rnd)
        sps = [_mk_species('statmech', '%s%d' % (nm, j), h, 0., 0., T, phase='S') for nm, h in (('R', hr), ('P', hp))]
        if cls == 'SurfaceReaction':
            L.omkm_phases([], {'terrace': sps}, {'terrace': 2.5e-9})
        return L.reaction(cls, [sps[0]], [1.], [sps[1]], [1.], [b], [1.]), sps
    # (a) created, evaluated, dropped
    for j in range(case['n']):
        rx, sps = make(j)
        _shared_observe(evs, b, rx, cls, T, j, 'sequence')
        counter[0] += 1
        del rx, sps
        if j % 3 == 0:
            gc.collect()
    cov += ['shared:sequence'] * case['n']
    # (b) live reactions evaluated alternately
    live = [make(100 + j) for j in range(3)]
    for rnd_ in range(2):
        for j, (rx, sps) in enumerate(live):
            _shared_observe(evs, b, rx, cls, T, 1000 + rnd_ * 10 + j, 'alternate')
            cov.append('shared:alternate')
    # (c) the same reaction after an energy edit of its product
    rx, sps = live[0]
    for k in range(2):
        sps[1].elec_model.potentialenergy += rnd.choice([-0.35, 0.2, 0.5])
        _shared_observe(evs, b, rx, cls, T, 2000 + k, 'energy_edit')
        cov.append('shared:energy_edit')
    return evs, [], {'cls': cls, 'bcls': bcls, 'ts': 'bep', 'cov': cov}


EXEC = {'handed': exec_handed, 'shared': exec_shared, 'bepedit': exec_bepedit, 'rxedit': exec_rxedit, 'clamp_tlc': exec_clamp_tlc, 'clamp_rand': exec_clamp_rand, 'bep': exec_bep,
        'site': exec_site, 'a_rand': exec_a_rand}


def execute(case):
    import warnings
    warnings.simplefilter('ignore')
    try:
        return EXEC[case['kind']](case)
    except core.MachineryError:
        raise
    except Exception as ex:                          # noqa  (a failure while *building* inputs is ours)
        import traceback
        return None, traceback.format_exc()[-1500:], {}


# --------------------------------------------------------------------------
TFORMS = ['float', 'int', 'np', 'npint']
SLOPES = [('zero', 0.0), ('one', 1.0), ('near0', 1e-6), ('near1', 0.999999), ('interior', None), ('interior', None)]
ICPTS = [('zero', 0.0), ('sixty', 60.0), ('near0', 1e-6), ('near60', 59.999999), ('interior', None), ('interior', None)]
BEP_COMBOS = [(cls, bcls) for cls in ('Reaction', 'ChemkinReaction', 'SurfaceReaction') for bcls in ('base', 'omkm')]
OMKM_ROUTES = [['synthesis', 'BEP1_syn_0001'], ['cleavage', 7], [None, None], ['cleavage', 'r_0012'], ['synthesis', 3.0]]
A_UNIT_FORMS = list(L.A_UNITS) + [['obj', q, l] for q, l in (('molec', 'cm'), ('mol', 'm'), ('particle', 'A'),
                                                           ('molecule', 'inch'), ('mol', 'ft'), ('molec', 'km'))]


def make_cases(ctx, data, rnd):
    cases = []
    seed = lambda: rnd.randrange(1 << 30)                                           # noqa
    rot = {'r': ctx.seed, 'e': ctx.seed, 'a': ctx.seed}

    def runits(k):
        out = [L.R_UNITS[(rot['r'] + j) % len(L.R_UNITS)] for j in range(k)]
        rot['r'] += k
        return out

    def eunits(k):
        pool = [u for u in L.ENERGY_UNITS if u != 'kcal/mol']
        out = [pool[(rot['e'] + j) % len(pool)] for j in range(k)]
        rot['e'] += k
        return out

    def aunits(k):
        out = [A_UNIT_FORMS[(rot['a'] + j) % len(A_UNIT_FORMS)] for j in range(k)]
        rot['a'] += k
        return out
    for c in data['clamp']:
        for cls in ('ChemkinReaction', 'SurfaceReaction'):
            for q in ('H', 'G'):
                cases.append({'kind': 'clamp_tlc', 'cls': cls, 'q': q, 'c': c, 'unit': runits(1)[0], 'cseed': seed()})
    for i in range(ctx.pick(500, 12000)):
        regH = REGIMES[i % len(REGIMES)]
        regG = 'none' if regH == 'none' else REGIMES[1 + (i // len(REGIMES)) % (len(REGIMES) - 1)]
        cases.append({'kind': 'clamp_rand', 'cls': ('ChemkinReaction', 'SurfaceReaction')[(i // 3) % 2],
                      'regH': regH, 'regG': regG, 'units': runits(2), 'tform': TFORMS[(i // 2) % 4],
                      'ctor': ('init', 'from_string')[(i // 5) % 2], 'int_st': (i // 7) % 3 == 0, 'cseed': seed()})
    # BEP: the TLC slope table on exact slopes, then random slopes / intercepts
    table = {}
    for sc in data['slope']:
        table.setdefault((sc['desc'], sc['a2']), []).append(sc)
    k = 0
    for (desc, a2), scs in sorted(table.items()):
        for j in range(ctx.pick(2, 6)):
            cls, bcls = BEP_COMBOS[(k + ctx.seed) % 6]
            k += 1
            cases.append({'kind': 'bep', 'desc': desc, 'bcls': bcls, 'cls': cls, 'slope': a2 / 2.0,
                          'skind': {0: 'zero', 1: 'interior', 2: 'one'}[a2],
                          'stype': 'int' if (a2 != 1 and k % 3 == 0) else 'float',
                          'icpt': float(rnd.choice([0, 8, 20, 60])), 'ikind': 'interior', 'table': scs,
                          'uh': k % 2 == 0, 'via': ('delta', 'H', 'E')[k % 3], 'units': eunits(2),
                          'runit': runits(1)[0], 'omkm': OMKM_ROUTES[k % 5], 'cseed': seed()})
    for i in range(ctx.pick(336, 6000)):
        desc = L.DESCRIPTORS[i % 8]
        cls, bcls = BEP_COMBOS[(i // 8) % 6]                 # 48 (descriptor, class, BEP class) combinations
        sk, sv = SLOPES[(i // 3) % 6]
        ik, iv = ICPTS[(i // 5) % 6]
        stype = ('float', 'np', 'float', 'int')[(i // 2) % 4]
        if stype == 'int' and (sk not in ('zero', 'one') or ik not in ('zero', 'sixty')):
            stype = 'float'
        cases.append({'kind': 'bep', 'desc': desc, 'bcls': bcls, 'cls': cls,
                      'slope': rnd.uniform(0., 1.) if sv is None else sv, 'skind': sk,
                      'icpt': rnd.uniform(0., 60.) if iv is None else iv, 'ikind': ik, 'stype': stype,
                      'uh': i % 3 != 0, 'via': ('delta', 'H', 'E')[(i // 48 + i) % 3], 'units': eunits(2),
                      'runit': runits(1)[0], 'tform': TFORMS[(i // 7) % 4], 'omkm': OMKM_ROUTES[(i // 16) % 5],
                      'ctor': ('init', 'from_string')[(i // 11) % 2], 'cseed': seed()})
    # the 'int' slope / intercept combination needs both on a boundary: force a few
    for i, (sl, ic) in enumerate([(0, 0), (1, 60), (1, 0), (0, 60)] * 2):
        cls, bcls = BEP_COMBOS[(i + ctx.seed) % 6]
        cases.append({'kind': 'bep', 'desc': L.DESCRIPTORS[(i * 3 + ctx.seed) % 8], 'bcls': bcls, 'cls': cls,
                      'slope': sl, 'skind': 'one' if sl else 'zero', 'icpt': ic, 'ikind': 'sixty' if ic else 'zero',
                      'stype': 'int', 'uh': True, 'via': 'E', 'units': eunits(2), 'runit': runits(1)[0],
                      'cseed': seed()})
    # site cases of TLC (exact numbers), each on both classes, with and without a transition state
    for j, sc in enumerate(data['site']):
        for cls in ('ChemkinReaction', 'SurfaceReaction'):
            for has_ts in ((False, True) if not ctx.quick else ((j % 2) == 0,)):
                cases.append({'kind': 'site', 'cls': cls, 'rs': sc['rs'], 'n': sc['n'], 'gas': sc['gas'],
                              'hasTS': has_ts, 'exact': True, 'all_ops': not ctx.quick or j % 3 == 0,
                              'op': L.SDEN_OPS[j % 4], 'aunits': aunits(1), 'cseed': seed()})
    kinds = ['gas', 'surfA', 'surfB', 'bulk', 'surfA', 'surfB']
    sds = ['low', 'high', 'low+', 'high-', 'interior', 'interior']
    for i in range(ctx.pick(500, 8000)):
        n = rnd.randint(1, 3)
        rs = [[rnd.choice(kinds), rnd.choice([1, 1, 2])] for _ in range(n)]
        if sum(k for kind, k in rs if kind.startswith('surf')) > 3:
            rs = rs[:1]
        cases.append({'kind': 'site', 'cls': ('ChemkinReaction', 'SurfaceReaction')[i % 2], 'rs': rs,
                      'hasTS': i % 4 != 0, 'aunits': aunits(4), 'tform': TFORMS[(i // 2) % 4],
                      'sd': sds[(i // 4) % 6], 'n_sites': (None, 2)[(i // 6) % 2],
                      'ctor': ('init', 'from_string')[(i // 3) % 2], 'omit_T': i % 10 == 7,
                      'omit_op': i % 5 == 2, 'use_q': (i // 2) % 4 == 1, 'cseed': seed()})
    for i in range(ctx.pick(150, 3000)):
        cases.append({'kind': 'a_rand', 'tform': TFORMS[i % 4], 'use_q': i % 5 == 3, 'cseed': seed()})
    # second-use histories (Kinetics.tla Edit): descriptor across / within the families and to / from
    # the state descriptors, slope, intercept, another reaction
    progs = [
        ('delta_H', [['descriptor', 'rev_delta_H'], ['descriptor', 'delta_H']]),
        ('rev_delta_E', [['descriptor', 'delta_E'], ['slope', 0.25], ['descriptor', 'rev_delta_H']]),
        ('delta_H', [['descriptor', 'delta_E'], ['intercept', 0.0], ['reaction', None]]),
        ('rev_delta_H', [['descriptor', 'rev_delta_E'], ['slope', 1], ['intercept', 33.5]]),
        ('reactants_H', [['descriptor', 'rev_delta_H'], ['reaction', None], ['descriptor', 'products_E']]),
        ('delta_E', [['slope', 0.0], ['descriptor', 'rev_delta_E'], ['reaction', None]]),
        ('rev_delta_H', [['descriptor', 'reactants_E'], ['descriptor', 'delta_H'], ['slope', 0.75]]),
        ('products_E', [['intercept', 60.0], ['descriptor', 'delta_E'], ['descriptor', 'rev_delta_E']]),
    ]
    for i in range(ctx.pick(48, 600)):
        d0, ed = progs[(i + ctx.seed) % len(progs)]
        cls, bcls = BEP_COMBOS[(i // 2) % 6]
        cases.append({'kind': 'bepedit', 'cls': cls, 'bcls': bcls, 'desc': d0, 'edits': ed,
                      'slope': rnd.choice([0.0, 1.0, rnd.uniform(0., 1.)]), 'icpt': rnd.uniform(0., 60.),
                      'unit': eunits(1)[0], 'cseed': seed()})
    for i in range(ctx.pick(24, 240)):
        cls, bcls = BEP_COMBOS[(i + ctx.seed) % 6]
        cases.append({'kind': 'shared', 'cls': cls, 'bcls': bcls, 'desc': L.DESCRIPTORS[(i // 3) % 8],
                      'slope': rnd.uniform(0., 1.), 'icpt': rnd.uniform(0., 60.),
                      'n': (10, 25, 60, 14)[i % 4], 'cseed': seed()})
    rprogs = [
        ({'is_adsorption': False}, [['Ea', 0.0], ['A', 1.0e13], ['beta', 0.0], ['Ea', None]]),
        ({'is_adsorption': True}, [['sticking_coeff', 0.0], ['beta', 0.5], ['use_motz_wise', True], ['Ea', 7.5]]),
        ({'is_adsorption': True, 'sticking_coeff': 0.2}, [['is_adsorption', False], ['A', 0.0], ['A', None]]),
        ({'is_adsorption': False, 'A': 5.0e12, 'Ea': 3.0}, [['Ea', None], ['A', None], ['beta', None]]),
        ({'is_adsorption': False, 'sticking_coeff': 0.3}, [['is_adsorption', True], ['sticking_coeff', 0.9], ['Ea', 0.0]]),
        ({'is_adsorption': True, 'beta': 0.0}, [['beta', 2.0], ['sticking_coeff', 1.0], ['is_adsorption', False]]),
        ({'is_adsorption': False}, [['is_adsorption', True], ['Ea', 0.0], ['sticking_coeff', 0.4]]),
    ]
    for i in range(ctx.pick(48, 600)):
        init, ed = rprogs[(i + ctx.seed) % len(rprogs)]
        cls = ('SurfaceReaction', 'SurfaceReaction', 'ChemkinReaction')[(i // 6) % 3]
        if cls == 'ChemkinReaction':
            init = {k: v for k, v in init.items() if k in ('is_adsorption', 'beta', 'sticking_coeff')}
            ed = [e for e in ed if e[0] in ('is_adsorption', 'beta', 'sticking_coeff')]
        cases.append({'kind': 'rxedit', 'cls': cls, 'init': init, 'edits': ed, 'reg': REGIMES[i % len(REGIMES)],
                      'methods': ['get_H_act', 'get_G_act'], 'actunit': L.ACT_UNITS[i % 4], 'cseed': seed()})
    # what the OpenMKM writers hand out: every option combination of Kinetics.tla's HandedCfg
    hregs = ['none', 'below', 'between', 'above', 'high']
    for j, hc in enumerate(sorted(data['handed'], key=lambda d: sorted(d.items()))):
        cases.append({'kind': 'handed', 'c': hc, 'reg': hregs[j % 5], 'actunit': L.ACT_UNITS[(j // 2) % 4],
                      'aunit': [L.QUANTITY_UNITS[(j // 3) % 4], L.LENGTH_UNITS[(j // 5) % 6]],
                      'uobj': (j // 2) % 3 == 0, 'cseed': seed()})
    return cases


def required_coverage():
    """Every input class the quantifier names; a class never exercised makes the run vacuous."""
    need = ['runit:' + u for u in L.R_UNITS] + ['eunit:' + u for u in L.ENERGY_UNITS]
    need += ['aunit:' + u for u in L.A_UNITS] + ['aunit:Units:molec/cm2', 'aunit:Units:mol/m2']
    need += ['bep:%s:%s' % (d, cls) for d in L.DESCRIPTORS for cls in ('Reaction', 'ChemkinReaction', 'SurfaceReaction')]
    need += ['bepcls:base', 'bepcls:omkm']
    need += ['via:Reaction:%s:%s' % (r, f) for r in ('delta', 'H', 'E') for f in ('dimless', 'units')]
    need += ['via:%s:%s:%s' % (cls, r, f) for cls in ('ChemkinReaction', 'SurfaceReaction') for r in ('delta', 'E')
             for f in ('dimless', 'units')]
    need += ['uh:' + f for f in ('dimless', 'kcal/mol', 'J/mol', 'act', 'act:kcal/mol')]
    need += ['T:' + t for t in TFORMS] + ['T:default']
    need += ['ctor:%s:%s' % (cls, k) for cls in ('Reaction', 'ChemkinReaction', 'SurfaceReaction') for k in ('init', 'from_string')]
    need += ['stoich:int', 'stoich:float']
    need += ['slope:' + k for k in ('zero', 'one', 'near0', 'near1', 'interior')]
    need += ['icpt:' + k for k in ('zero', 'sixty', 'near0', 'near60', 'interior')]
    need += ['stype:float', 'stype:int', 'stype:np']
    need += ['omkm:synthesis:str', 'omkm:cleavage:int', 'omkm:cleavage:str', 'omkm:None:NoneType']
    need += ['op:%s:%s' % (cls, op) for cls in ('ChemkinReaction', 'SurfaceReaction') for op in L.SDEN_OPS] + ['op:default']
    need += ['n:ChemkinReaction:%d' % k for k in range(4)] + ['n:SurfaceReaction:%d' % k for k in (1, 2, 3)]
    need += ['sd:' + k for k in ('low', 'high', 'low+', 'high-', 'interior')] + ['n_sites:None', 'n_sites:2']
    need += ['Aroute:Reaction:entropy', 'Aroute:Reaction:q']
    need += ['Aroute:%s:%s' % (cls, r) for cls in ('ChemkinReaction', 'SurfaceReaction')
             for r in ('entropy', 'q', 'nots', 'noentropy')]
    need += ['edit:descriptor:' + k for k in ('cross', 'within', 'nondelta')]
    need += ['edit:slope', 'edit:intercept', 'edit:reaction']
    need += ['shared:sequence', 'shared:alternate', 'shared:energy_edit']
    need += ['rxedit:SurfaceReaction:' + a for a in ('is_adsorption', 'A', 'beta', 'Ea', 'sticking_coeff', 'use_motz_wise')]
    need += ['rxedit:ChemkinReaction:' + a for a in ('is_adsorption', 'beta', 'sticking_coeff')]
    need += ['handed:ea:' + x for x in ('given', 'get_H_act', 'get_G_act')]
    need += ['handed:a:' + x for x in ('half', 'given_stick', 'given_A', 'get_A_no_entropy')]
    need += ['handed:b:' + x for x in ('given', 'zero', 'one')]
    need += ['handed:ads:%s:%s' % (a, m) for a in (True, False) for m in ('get_H_act', 'get_G_act')]
    need += ['handed:mw:True', 'handed:mw:False', 'handed:units:obj', 'handed:units:str']
    need += ['handed:actunit:' + u for u in L.ACT_UNITS]
    need += ['handed:opt:%s=%s' % (k, v) for k in ('ea', 'a', 'stick', 'beta') for v in ('none', 'zero', 'val')]
    need += ['handed:ts:' + r for r in ('none', 'below', 'between', 'above', 'high')]
    need += ['handed:ads=%s:%s=%s' % (a, k, v) for a in (True, False) for k in ('ea', 'a', 'stick', 'beta')
             for v in ('none', 'zero', 'val')]
    return need


def _signature(case, tags):
    if case['kind'] == 'clamp_tlc':
        c = case['c']
        return ['clamp_tlc', case['cls'], case['q'], c['hasTS'], c['r'], c['p'], c['ts']]
    if case['kind'] == 'clamp_rand':
        return ['clamp_rand', case['cls'], case['regH'], case['regG'], case['cseed']]
    if case['kind'] == 'bep':
        return ['bep', case['cls'], case['bcls'], case['desc'], case['slope'], case['icpt'], case['cseed']]
    if case['kind'] == 'shared':
        return ['shared', case['cls'], case['bcls'], case['desc'], case['n'], case['cseed']]
    if case['kind'] in ('bepedit', 'rxedit'):
        return [case['kind'], case['cls'], case.get('bcls'), case.get('desc'), case.get('init'), case['edits'], case['cseed']]
    if case['kind'] == 'handed':
        return ['handed', sorted(case['c'].items()), case['reg'], case['actunit'], case['aunit'], case['uobj']]
    if case['kind'] == 'site':
        return ['site', case['cls'], case['rs'], case['hasTS'], case.get('exact', False), case['cseed']]
    return ['a_rand', case['cseed']]


def _nontrivial(case, events):
    if case['kind'] == 'handed':
        return True                       # every handed case compares written values by equality
    if not events:
        return False
    if case['kind'] in ('clamp_tlc',):
        c = case['c']
        return not (c['r'] == c['p'] and (not c['hasTS'] or c['ts'] == c['r']))
    return True


def _tags_of_event(case, ctags, e):
    t = {'kind': case['kind'], 'cls': e.get('cls', ctags.get('cls')), 'ts': ctags.get('ts')}
    if ctags.get('nosite'):
        t['nosite'] = True
    if e.get('handed'):
        t['handed'] = True
    if e.get('nostick'):
        t['nostick'] = True
    for k in ('q', 'dir', 'desc', 'route', 'op', 'fn', 'attr', 'what', 'stage', 'shared'):
        if k in e:
            t[k] = e[k]
    if 'form' in e:
        t['form'] = 'dimless' if e['form'] == 'dimless' else 'units'
    return t


def run(ctx):
    ctx.coverage['rule'] = (
        'clamp_tlc / bep-table / site cases are every configuration emitted by TLC from Kinetics.tla (150 clamp '
        'configurations x 2 classes x {H, G}; 48 adjusted-slope entries; 476 reactant lists x 2 classes) on exactly '
        'representable numbers; clamp_rand / bep / site / a_rand cases are seeded random reactions with forced '
        'regimes (no TS, TS below / between / at / just above / far above the end states; exo, endo, neutral), '
        'mixed species classes, all unit systems, slopes 0-1, intercepts 0-60, site densities 1e-11..1e-8, the four '
        'site-density operations. Non-trivial: the case produced at least one judged observation and, for a TLC '
        'clamp case, the three state values are not all equal. Distinct by (kind, class, configuration, seed).')
    rnd = random.Random(ctx.seed)
    if ctx.replay_case is not None:
        cases = [ctx.replay_case['case']]
    else:
        # the four TLC runs are independent: run them side by side
        import concurrent.futures as cf
        with cf.ThreadPoolExecutor(max_workers=8) as ex:
            f_main = ex.submit(ctx.model, 'MC_Kinetics', 'MC_Kinetics', 6)
            f_var = [(cfg, inv, ex.submit(ctx.model, 'MC_Kinetics', cfg, 3, False))
                     for cfg, inv in (('MC_Kinetics_droprev', 'ClampRefines'),
                                      ('MC_Kinetics_urev', 'BepUandHSameBarrier'))]
            f_edit = ex.submit(ctx.model, 'MC_Kinetics', 'MC_Kinetics_edit', 3)
            f_var.append(('MC_Kinetics_cachedflag', 'EditedEqualsFresh',
                          ex.submit(ctx.model, 'MC_Kinetics', 'MC_Kinetics_cachedflag', 2, False)))
            f_memo = ex.submit(ctx.model, 'KineticsMemo', 'MC_KineticsMemo', 1)
            f_var.append(('MC_KineticsMemo_idmemo', 'DescriptorIsCurrent',
                          ex.submit(ctx.model, 'KineticsMemo', 'MC_KineticsMemo_idmemo', 1, False)))
            f_cases = ex.submit(core.tlc_cases, 'MC_KineticsCases', 'MC_KineticsCases')
            f_edit.result()
            f_memo.result()
            f_main.result()
            for cfg, inv, f in f_var:
                r = f.result()
                if r.violated != inv:
                    raise core.MachineryError('variant %s should be rejected by %s, TLC said: %s\n%s'
                                              % (cfg, inv, r.violated, r.out[-2000:]))
            data, r = f_cases.result()
        ctx.coverage.setdefault('models', []).append(
            {'module': 'MC_KineticsCases', 'cfg': 'MC_KineticsCases', 'ok': r.ok,
             'assumes': ['SiteOK', 'RevViaHolds = {delta_H, rev_delta_H} (computed over all BEP configurations)',
                         'ViaDemanded(d, rev) <=> d in RevViaHolds']})
        ctx.coverage['tlc_cases'] = {k: len(v) for k, v in data.items()}
        for sc in data['site']:
            sc['pw'] -= 10
        cases = make_cases(ctx, data, rnd)
    results = core.pmap(execute, cases)
    traces = []
    skipped = 0
    cov = {}
    for tid, (case, (events, mism, ctags)) in enumerate(zip(cases, results)):
        for key in (ctags.get('cov') or []):
            cov[key] = cov.get(key, 0) + 1
        if events is None:
            raise core.MachineryError('driver failed while building case %r:\n%s' % (case, mism))
        ctx.evaluated()
        if 'skipped' in ctags:
            skipped += 1
        if _nontrivial(case, events):
            ctx.nontrivial(_signature(case, ctags))
        for m in mism:
            ctx.violation('ReplayState' if case['kind'] != 'handed' else 'HandedValue', case,
                      tags={'kind': case['kind'], 'cls': ctags.get('cls'),
                            'getter': m.get('getter'), 'dir': m.get('dir')}, detail=m)
        traces.append((tid, events))
        if tid % 997 == 0:
            ctx.sample({k: v for k, v in case.items() if k != 'table'})
        elif case['kind'] == 'handed' and tid % 101 == 0:
            ctx.sample(case)
    ctx.coverage['cases_without_A_definition'] = skipped
    fails, stats = core.validate_traces('Trace_Kinetics', 'Trace_Kinetics', traces)
    ctx.count('traces_validated_against_impl', len([t for t in traces if t[1]]))
    ctx.coverage['trace_lines'] = stats['lines']
    per_ev = {}
    for _, evs in traces:
        for e in evs:
            key = e['ev'] + (':' + e['route'] if e['ev'] == 'A' else '')
            per_ev[key] = per_ev.get(key, 0) + 1
    ctx.coverage['events'] = per_ev
    ctx.coverage['input_classes'] = dict(sorted(cov.items()))
    ctx.coverage['reactions_evaluated_through_one_shared_BEP'] = cov.get('shared:sequence', 0) + cov.get('shared:alternate', 0)
    ctx.coverage['re_evaluated_after_an_energy_edit'] = cov.get('shared:energy_edit', 0)
    if ctx.replay_case is None:
        for need in ('clamp', 'bep', 'bepdiff', 'bepvia', 'bepuh', 'A:entropy', 'A:nots', 'A:q', 'fresh'):
            if per_ev.get(need, 0) == 0:
                raise core.MachineryError('vacuous run: no %s observation was recorded' % need)
        missing = [k for k in required_coverage() if cov.get(k, 0) == 0]
        if missing:
            raise core.MachineryError('vacuous run: input classes never exercised: %s' % ', '.join(missing))
    for tid, idx, clause in fails:
        case = cases[tid]
        e = results[tid][0][idx]
        ctx.violation(clause, case, tags=_tags_of_event(case, results[tid][2], e), detail=e)
    ctx.assume('exp(dS + m) is a libm sensor computed from the logged entropy of activation and molecularity; '
               'x = dS + m and the mean site density are witnesses verified by TLC')
    ctx.assume('state values (H, G, U of reactants / products / transition state) are the reaction\'s own '
               'get_*_state getters under the same keywords and units (their correctness is C08 / C04)')
    ctx.assume('kcal/mol -> unit factors of BEP.get_E_act are the library\'s convert_unit table (C12); '
               'difference / via-reaction clauses are judged in kcal/mol, cal/mol and dimensionless form')
    ctx.assume('pre-exponential factors of surface reactions are only defined with >= 1 surface reactant; '
               'gas-phase reactions carry no site density')


if __name__ == '__main__':
    core.main('C09', 'exploration', run)
