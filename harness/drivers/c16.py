"""C16 - equilibrium compositions conserve atoms and minimise Gibbs energy.

(D)    spec/Equilibrium.tla: solver-outcome protocol (Required accepted, the
       implementation-shaped "Discard" variant rejected); spec/EqCert.tla: the
       null-space certificate the trace spec relies on is sound on every small
       element matrix (and the rule without its rank witness is rejected).
(S->C) MC_EqCases.tla: every 2-4 species network over a ten-formula alphabet with
       0/1 feeds (element matrix, totals, number of independent reactions, dependent
       balances, forced-zero species computed by TLC) is built with real NASA-7
       species; the constructor's mol_elem / ele_feed must EQUAL TLC's.  Every
       behaviour of the protocol model is stepped through one real object (a
       "failed" step = the real solver run with an iteration limit of 1); what the
       caller observed must be a behaviour TLC allows.
(C->S) those runs plus random networks (2-12 species, 1-4 elements, G/RT span <= 60,
       300-2500 K, 0.01-100 atm, permuted species order) and the repository's
       thermdat network are recorded as NDJSON and judged by Trace_Equilibrium.tla.
       The harness certificates of networks with <= 6 species are additionally
       checked by brute force (EqCert!NetOK).
"""
import json
import math
import os
import random
import shutil
import tempfile

from harness import core
from harness.core import to_dec, to_dec_exact
from harness import lib_c16 as L

THERMDAT_FORMULAS = {
    'H2O': {'H': 2, 'O': 1}, 'CO2': {'C': 1, 'O': 2}, 'CO': {'C': 1, 'O': 1}, 'H2': {'H': 2},
    'CH4': {'C': 1, 'H': 4}, 'CHCH': {'C': 2, 'H': 2}, 'CH2CH2': {'C': 2, 'H': 4},
    'CH3CH3': {'C': 2, 'H': 6}, 'CH2CHCH3': {'C': 3, 'H': 6}, 'CH3CH2CH3': {'C': 3, 'H': 8}}
# a small network on which the unforced solver converges (used for protocol behaviours)
BEH_NETWORK = {'elements': ['H', 'O'],
               'species': [{'name': 'H2', 'formula': {'H': 2, 'O': 0}, 'g': -16.0},
                           {'name': 'O2', 'formula': {'H': 0, 'O': 2}, 'g': -25.0},
                           {'name': 'H2O', 'formula': {'H': 2, 'O': 1}, 'g': -46.0},
                           {'name': 'OH', 'formula': {'H': 1, 'O': 1}, 'g': -22.0}],
               'feed': [1.0, 1.0, 0.5, 0.25], 'T': 1500.0, 'P': 1.0}


def _dec_feed(x):
    try:
        return to_dec_exact(x)
    except ValueError:
        return to_dec(x)


def _lib_matrix(eq, names, els):
    """Project the object's mol_elem to integers in the harness's species/element order."""
    import numpy as np
    me = np.asarray(eq.mol_elem, dtype=float)
    lib_els = [str(x) for x in eq.elements]
    lib_sp = list(eq.species)
    ok = (sorted(lib_els) == sorted(els) and sorted(lib_sp) == sorted(names)
          and me.shape == (len(lib_sp), len(lib_els)) and bool(np.all(np.isfinite(me)))
          and bool(np.all(me == np.round(me))) and bool(np.all(np.abs(me) < 1e6)))
    if not ok:
        return False, [], []
    E = [[int(me[lib_sp.index(nm), lib_els.index(e)]) for e in els] for nm in names]
    tot = np.asarray(eq.ele_feed, dtype=float)
    if tot.shape != (len(lib_els),) or not np.all(np.isfinite(tot)):
        return True, E, []
    return True, E, [float(tot[lib_els.index(e)]) for e in els]


def _forms(case):
    """The ways this case's Equilibrium objects are constructed.  A form is
    {'model': 'dict' | 'list' | 'thermdat', 'net': key order of the network dict,
     'mlist': order of the model list (None for dict / thermdat), 'extra': the list also holds
     a species that is not in the network}.  The first form is the reference."""
    N = len(case.get('names') or case['species'])
    ident = list(range(N))
    if case.get('forms'):
        return case['forms']
    forms = [{'model': 'thermdat' if case['kind'] == 'thermdat' else 'dict', 'net': ident,
              'mlist': None, 'extra': False}]
    perm = case.get('perm')
    if perm and sorted(perm) == ident and perm != ident:      # replay files written before forms
        forms.append({'model': forms[0]['model'] if case['kind'] == 'thermdat' else 'list',
                      'net': list(perm), 'mlist': None if case['kind'] == 'thermdat' else list(perm),
                      'extra': False})
    return forms


def make_forms(case, rnd, full):
    """Every accepted form of `model` and several key orders of `network` (stored in the case
    so that a replay rebuilds exactly the same objects)."""
    N = len(case.get('names') or case['species'])
    ident = list(range(N))
    perm = list(case.get('perm') or ident)
    if perm == ident and N > 1:
        perm = ident[1:] + ident[:1]
    rev = ident[::-1]
    thermdat = case['kind'] == 'thermdat'
    first = {'model': 'thermdat' if thermdat else 'dict', 'net': ident, 'mlist': None, 'extra': False}
    others = [
        {'model': 'thermdat' if thermdat else 'dict', 'net': perm, 'mlist': None, 'extra': False},
        {'model': 'list', 'net': perm, 'mlist': perm, 'extra': False},       # list in network order
        {'model': 'list', 'net': rev, 'mlist': perm, 'extra': True},         # shuffled list + extra species
    ]
    others.append({'model': 'list', 'net': ident, 'mlist': perm + perm[:1], 'extra': False, 'dup': True})
    if _thermdat_writable(case):
        others.append({'model': 'thermdat_w', 'net': perm, 'mlist': rev, 'extra': False})
    differs = {'model': 'list', 'net': ident, 'mlist': rev, 'extra': thermdat}   # list reversed w.r.t. network
    case['forms'] = [first, differs] + (others if full else [others[rnd.randrange(len(others))]])
    return case


def _thermdat_writable(case):
    """NASA-7 species with names a thermdat line can carry (the writer/reader are C05's subject)."""
    if case['kind'] == 'thermdat':
        return False
    return all(s.get('cls', 'nasa') == 'nasa' and s.get('phase') == 'G' and len(s['name']) <= 12
               and all(ch.isalnum() for ch in s['name']) for s in case['species'])


def _build(case):
    """-> (names, els, E, feed, factory(form) -> Equilibrium, gfun(T) -> [g])"""
    from pmutt.equilibrium import Equilibrium
    els = list(case['elements'])
    if case['kind'] == 'thermdat':
        from pmutt.io.thermdat import read_thermdat
        path = os.path.join(core.REPO, L.THERMDAT)
        names = list(case['names'])
        E = [[THERMDAT_FORMULAS[nm].get(e, 0) for e in els] for nm in names]
        model = read_thermdat(path, 'dict')
        species = [model[nm] for nm in names]
        extras = [model[nm] for nm in model if nm not in names]
    else:
        species = L.make_species(case['species'])
        names = [s['name'] for s in case['species']]
        E = [[int(s['formula'].get(e, 0)) for e in els] for s in case['species']]
        x = dict(case['species'][0])
        x['name'] = 'XTRA_not_in_network'
        extras = L.make_species([x])

    ftype = (case.get('types') or {}).get('feed', 'float')

    def factory(form):
        """-> (constructor call, G/RT function of the species the object holds, cleanup)"""
        # what the user states: species name -> amount (in the number type of this case)
        net = {names[i]: L.typed(case['feed'][i], ftype) for i in form['net']}
        nothing = lambda: None
        if form['model'] == 'thermdat':
            path = os.path.join(core.REPO, L.THERMDAT)
            return (lambda: Equilibrium.from_thermdat(path, net)), gfun, nothing
        if form['model'] == 'thermdat_w':
            # the case's own species written by write_thermdat (harness side; the writer and the
            # reader are C05's subject) and handed to from_thermdat
            from pmutt.io.thermdat import write_thermdat, read_thermdat
            d = tempfile.mkdtemp(prefix='c16_thermdat_')
            path = os.path.join(d, 'thermdat')
            try:
                # a DIFFERENT thermdat is written to the same path first and read through the
                # library (same names; other NASA-7 coefficients, and for every other case one
                # more atom in the first species), then the file is regenerated with the
                # case's real species and read twice
                decoy = []
                for j, i in enumerate(form['mlist']):
                    d_ = dict(case['species'][i])
                    for key in ('a_low', 'a_high'):
                        d_[key] = list(d_[key])
                        d_[key][5] += 12.0 * case['points'][0][0] * (1 if j % 2 else -1)
                    if j == 0 and len(case['cid']) % 2:
                        d_['formula'] = dict(d_['formula'])
                        e0 = sorted(d_['formula'])[0]
                        d_['formula'][e0] = d_['formula'][e0] + 1
                    decoy.append(d_)
                write_thermdat(L.make_species(decoy), filename=path)
                read_thermdat(path, 'dict')
                Equilibrium.from_thermdat(path, net)
                write_thermdat([species[i] for i in form['mlist']], filename=path)
                Equilibrium.from_thermdat(path, net)
            except Exception as ex:
                shutil.rmtree(d, ignore_errors=True)
                raise core.MachineryError('could not prepare the thermdat file of case %s: %r' % (case['cid'], ex))
            # G/RT from the species that were written (the file carries 9 significant digits)
            return ((lambda: Equilibrium.from_thermdat(path, net)), gfun,
                    (lambda: shutil.rmtree(d, ignore_errors=True)))
        if form['model'] == 'dict':
            model = {names[i]: species[i] for i in range(len(names))}
            return (lambda: Equilibrium(model=model, network=net)), gfun, nothing
        lst = [species[i] for i in form['mlist']]
        if form.get('extra'):
            lst = extras[:1] + lst + extras[1:]
        return (lambda: Equilibrium(model=lst, network=net)), gfun, nothing

    def gfun(T):
        return [float(sp.get_GoRT(T=T)) for sp in species]
    return names, els, E, list(case['feed']), factory, gfun


def _list_differs(form, feed):
    """model is a list whose order differs from the network's key order, and the feed is not
    symmetric under that permutation (the amounts would land on other species)."""
    if form['model'] != 'list':
        return False
    return [feed[i] for i in form['net']] != [feed[i] for i in form['mlist'][:len(form['net'])]]


def _solve_event(rec, eq, names, E, fed, gfun, T, P, key, first, forced, types=None, again=False):
    types = types or {}
    Tt, Pt = L.typed(T, types.get('T', 'float')), L.typed(P, types.get('P', 'float'))
    obs = L.observe_call(rec, lambda: eq.get_net_comp(T=Tt, P=Pt), force_fail=forced)
    ev = {'ev': 'solve', 'T': to_dec(T), 'P': to_dec(P), 'key': key, 'first': first, 'again': again,
          'forced': forced, 'out': obs['out'], 'status': obs['status'], 'how': obs['how'],
          'sig': obs['sig'], 'num': False, 'finite': True, 'pos': True}
    info = {'out': obs['out'], 'status': obs['status'], 'how': obs['how'], 'sig': obs['sig'],
            'exc': obs['exc'], 'msgs': obs['msgs'], 'wellcond': False, 'moles': None}
    if obs['how'] == 'return' and obs['out'] == 'converged':
        res = obs['result']
        try:
            sp = list(res.species)
            n = [float(res.moles[sp.index(nm)]) for nm in names]
            frac = [float(res.mole_frac[sp.index(nm)]) for nm in names]
        except Exception as ex:                      # malformed result object
            ev['finite'] = False
            info['exc'] = 'result: %s' % ex
            return ev, info
        info['moles'] = n
        try:
            echo = [float(res.T), float(res.P)]
        except Exception:
            echo = [float('nan'), float('nan')]
        if not (L._finite(n) and L._finite(frac) and L._finite(echo)):
            ev['finite'] = False
            return ev, info
        ev['echoT'], ev['echoP'] = to_dec(echo[0]), to_dec(echo[1])
        ev['listed'] = bool(sorted(sp) == sorted(names) and len(res.moles) == len(names)
                            and len(res.mole_frac) == len(names))
        if min(n) <= 0.0:
            ev['pos'] = False
            ev['n'] = [to_dec(x) for x in n]
            ev['frac'] = [to_dec(x) for x in frac]
            ev['ntot'] = to_dec(math.fsum(n))
            return ev, info
        g = gfun(T)
        if not L._finite(g):
            raise core.MachineryError('non-finite G/RT from the species objects')
        ev.update(L.numeric_fields(E, fed, n, frac, g, T, P))
        info['wellcond'] = L.well_conditioned(n)
        info['k'] = len(ev['B'])
        info['small'] = len(names) <= 6
        info['cert'] = {'E': E, 'B': ev['B'], 'piv': ev['piv'], 'rows': ev['rows'], 'cols': ev['cols']}
    return ev, info


def execute(case):
    """Run one case against the real library.  Returns (events, mismatches, infos)."""
    rec = L.Recorder()
    try:
        return _execute(case, rec)
    finally:
        rec.restore()


def _execute(case, rec):
    names, els, E, feed, factory, gfun = _build(case)
    # "fed" for the degeneracy proposals: amounts that matter next to the largest element total
    big = max([sum(feed[i] * E[i][j] for i in range(len(feed))) for j in range(len(els))] + [0.0])
    fed = [x > 1e-10 * big for x in feed]
    N = len(names)
    events, mism, infos = [], [], []
    forms = _forms(case)
    exp = case.get('expect')
    first_pt = None
    for oi, form in enumerate(forms):
        fname = '%s%s%s/net%s' % (form['model'], '+extra' if form.get('extra') else '',
                                  '+dup' if form.get('dup') else '',
                                  'A' if form['net'] == list(range(N)) else 'P')
        differs = _list_differs(form, feed)
        construct, gform, cleanup = factory(form)
        try:
            obs = L.observe_call(rec, construct)
        finally:
            cleanup()
        raised = obs['how'] == 'raise'
        ev = {'ev': 'init', 'first': oi == 0, 'E': E, 'feed': [_dec_feed(x) for x in feed],
              'raised': raised, 'libEint': False, 'libE': [], 'libtot': [], 'form': fname,
              'listdiffers': differs}
        infos.append({'phase': 'form', 'form': form['model'] + ('+extra' if form.get('extra') else '')
                      + ('+dup' if form.get('dup') else ''), 'listdiffers': differs, 'raised': raised})
        if raised:
            infos.append({'phase': 'init', 'exc': obs['exc']})
            events.append(ev)
            continue
        eq = obs['result']
        ok, libE, libtot = _lib_matrix(eq, names, els)
        ev['libEint'], ev['libE'], ev['libtot'] = ok, libE, [to_dec(x) for x in libtot]
        events.append(ev)
        if exp is not None:
            want_tot = [float(v) for v in exp['tot']]
            if libE != exp['E'] or libtot != want_tot:
                mism.append({'what': 'ReplayInit', 'form': form, 'expected': [exp['E'], want_tot],
                             'got': [libE, libtot]})
        if case['kind'] == 'beh':
            for k, step in enumerate(case['steps']):
                sev, info = _solve_event(rec, eq, names, E, fed, gfun, case['T'], case['P'],
                                         key=k + 1, first=False, forced=step == 'failed')
                events.append(sev)
                infos.append(info)
            continue
        Ts = set()
        npts = 0
        for k, (T, P) in enumerate(case['points']):
            g = gfun(T)
            if max(g) - min(g) > 60.0:               # outside the quantifier (G/RT span) at this T
                infos.append({'phase': 'skipped_point'})
                continue
            sev, info = _solve_event(rec, eq, names, E, fed, gform, T, P, key=k + 1,
                                     first=oi == 0, forced=False, types=case.get('types'))
            sev['form'], sev['listdiffers'] = fname, differs
            events.append(sev)
            infos.append(info)
            Ts.add(T)
            npts += 1
            first_pt = first_pt if npts > 1 else (k, T, P)
        if oi == 0 and npts >= 1:
            # the first call once more, after whatever else was asked of this object
            k, T, P = first_pt
            sev, info = _solve_event(rec, eq, names, E, fed, gform, T, P, key=k + 1,
                                     first=False, forced=False, types=case.get('types'), again=True)
            sev['form'], sev['listdiffers'] = fname, differs
            events.append(sev)
            info['again'] = True
            infos.append(info)
            infos.append({'phase': 'history', 'calls': npts + 1, 'temperatures': len(Ts)})
    if exp is not None:
        B, _, _, _ = L.null_basis(E)
        dep, fz = L.degeneracy_certificates(E, [x > 0 for x in feed])
        fzset = sorted(i + 1 for i in range(N)
                       if fz and sum(E[i][j] * fz[j] for j in range(len(els))) > 0)
        # (binding of the harness helpers to the specification: machinery, not a verdict)
        if len(B) != exp['k'] or bool(dep) != bool(exp['dep']):
            raise core.MachineryError('harness null-space helper disagrees with TLC on %r' % (case['cid'],))
        if not set(exp['fz']) <= set(fzset):
            raise core.MachineryError('harness forced-zero helper disagrees with TLC on %r' % (case['cid'],))
    return events, mism, infos


def _safe_execute(case):
    try:
        return execute(case)
    except core.MachineryError as ex:
        return ('MACHINERY', str(ex))


# --------------------------------------------------------------------------
def _beh_cases(behs):
    """One real-object run per distinct outcome sequence; allowed observations per sequence."""
    allowed = {}
    for h in behs:
        outs = tuple(r['out'] for r in h)
        allowed.setdefault(outs, set()).add(tuple((r['how'], bool(r['sig'])) for r in h))
    cases = []
    net = BEH_NETWORK
    rnd = random.Random(7)
    for k, outs in enumerate(sorted(allowed)):
        spec = [{'name': s['name'], 'formula': s['formula'], 'a': L.nasa_coeffs(rnd, s['g'], net['T'])}
                for s in net['species']]
        cases.append({'cid': 'b%d' % k, 'kind': 'beh', 'elements': net['elements'], 'species': spec,
                      'feed': net['feed'], 'T': net['T'], 'P': net['P'], 'steps': list(outs),
                      'allowed': sorted([list(map(list, a)) for a in allowed[outs]])})
    return cases


def _thermdat_cases(rnd, count):
    names_all = list(THERMDAT_FORMULAS)
    cases = []
    full = ['CH3CH2CH3', 'H2O', 'H2', 'CH2CHCH3', 'CH4', 'CHCH', 'CH2CH2', 'CH3CH3', 'CO2', 'CO']
    feed_full = [1.0, 0.7, 0, 0, 0, 0, 0, 0, 0, 0]
    for k in range(count):
        if k == 0:
            names, feed = full, feed_full
        else:
            names = rnd.sample(names_all, rnd.randint(3, 8))
            feed = [rnd.choice([0.0, 0.0, 1.0, 0.5]) for _ in names]
        els = [e for e in ('C', 'H', 'O') if any(THERMDAT_FORMULAS[nm].get(e) for nm in names)]
        for e in els:
            if not any(feed[i] > 0 and THERMDAT_FORMULAS[nm].get(e) for i, nm in enumerate(names)):
                cand = [i for i, nm in enumerate(names) if THERMDAT_FORMULAS[nm].get(e)]
                feed[rnd.choice(cand)] += 1.0
        pts = [[float(rnd.choice([1000, 1100, 1200, 1300, 1400, 1500])), rnd.choice([0.01, 0.1, 1.0, 10.0, 100.0])]
               for _ in range(2)]
        perm = list(range(len(names)))
        rnd.shuffle(perm)
        cases.append({'cid': 't%d' % k, 'kind': 'thermdat', 'elements': els, 'names': list(names),
                      'feed': feed, 'points': pts, 'perm': perm})
    return cases


def _in_quantifier(case):
    """G/RT span <= 60 at the case's temperatures (checked on the species objects)."""
    names, els, E, feed, factory, gfun = _build(case)
    pts = []
    for T, P in case['points']:
        g = gfun(T)
        if max(g) - min(g) <= 60.0:
            pts.append([T, P])
    return pts


REQUIRED_INPUT_CLASSES = (
    ['species_%d' % n for n in range(2, 13)] + ['elements_%d' % n for n in range(1, 5)]
    + ['element_two_letters', 'more_elements_than_species', 'names_plain', 'names_formula', 'names_decorated',
       'feed_mixed', 'feed_onehot', 'feed_all', 'feed_tiny', 'feed_int', 'feed_trace',
       'trace_one_carrier_fed', 'trace_several_carriers_fed', 'trace_element_total_below_1e-8',
       'trace_ratio_1e-06', 'trace_ratio_1e-08', 'trace_ratio_1e-09', 'trace_ratio_1e-10', 'trace_ratio_1e-12',
       'scale_1e-06', 'scale_0.001', 'scale_1', 'scale_1000', 'scale_1e+06',
       'T_int', 'T_np.float64', 'T_np.int64', 'P_int', 'P_np.float64', 'P_np.int64',
       'feedtype_int', 'feedtype_np.float64', 'feedtype_np.int64',
       'T_300', 'T_2500', 'T_next_to_300', 'T_next_to_2500', 'T_at_Tmid', 'T_next_to_Tmid',
       'P_0.01', 'P_100', 'P_next_to_0.01', 'P_next_to_100',
       'span_0', 'span_near_60', 'nasa_distinct_ranges', 'nasa_phase_G', 'nasa_phase_gas', 'nasa_phase_unset',
       'thermo_nasa', 'thermo_nasa9', 'thermo_shomate', 'thermo_statmech',
       'inert_diluent', 'dependent_balances', 'several_temperatures'])


def _input_classes(case):
    """Names of the input classes of the quantifier this case belongs to (vacuity counters)."""
    if case['kind'] in ('beh', 'thermdat'):
        return []
    out = []
    sp = case['species']
    els = case['elements']
    out.append('species_%d' % len(sp))
    out.append('elements_%d' % len(els))
    if any(len(e) == 2 for e in els):
        out.append('element_two_letters')
    if len(els) > len(sp):
        out.append('more_elements_than_species')
    if 'namestyle' in case:
        out.append('names_' + ['plain', 'formula', 'decorated'][case['namestyle']])
        out.append('feed_' + case['feedkind'])
        out.append('scale_%g' % case['scale'])
        if case.get('trace'):
            tr = case['trace']
            out.append('trace_ratio_%g' % tr['ratio'])
            out.append('trace_one_carrier_fed' if tr['carriers_fed'] == 1 else 'trace_several_carriers_fed')
            tot = sum(case['feed'][i] * s_['formula'].get(tr['element'], 0) for i, s_ in enumerate(sp))
            if 0.0 < tot <= 1e-8:
                out.append('trace_element_total_below_1e-8')
        t = case['types']
        for k, pre in (('T', 'T_'), ('P', 'P_'), ('feed', 'feedtype_')):
            if t[k] != 'float':
                out.append(pre + t[k])
        g = None
    for T, P in case['points']:
        for v, nm in ((300.0, '300'), (2500.0, '2500'), (1000.0, 'at_Tmid')):
            if T == v:
                out.append('T_' + nm if nm[0].isdigit() else 'T_' + nm)
        for v, nm in ((300.0, '300'), (2500.0, '2500'), (1000.0, 'Tmid')):
            if T != v and abs(T - v) < 1e-9:
                out.append('T_next_to_' + nm)
        for v, nm in ((0.01, '0.01'), (100.0, '100')):
            if P == v:
                out.append('P_' + nm)
            elif abs(P - v) < 1e-12 * v * 1e3:
                out.append('P_next_to_' + nm)
    if len({T for T, P in case['points']}) > 1:
        out.append('several_temperatures')
    if case['kind'] in ('rand', 'wellcond'):
        T0 = case['points'][0][0]
        gs = [float(o.get_GoRT(T=T0)) for o in L.make_species(sp)] if case.get('_span') is None else None
        span = max(gs) - min(gs)
        if span == 0.0 or span < 1e-9:
            out.append('span_0')
        if 59.0 <= span <= 60.0:
            out.append('span_near_60')
    for s_ in sp:
        cls = s_.get('cls', 'nasa')
        out.append('thermo_' + cls)
        if cls == 'nasa':
            if s_.get('a_low') != s_.get('a_high'):
                out.append('nasa_distinct_ranges')
            out.append('nasa_phase_' + {None: 'unset', 'G': 'G', 'gas': 'gas'}[s_.get('phase')])
    if case['kind'] == 'inert':
        out.append('inert_diluent')
    E = [[int(s_['formula'].get(e, 0)) for e in els] for s_ in sp]
    import numpy as np
    if np.linalg.matrix_rank(np.array(E, dtype=float)) < len(els):
        out.append('dependent_balances')
    return sorted(set(out))


def _atoms_fed(case):
    """Moles of atoms in the feed (all elements)."""
    sp = case.get('species')
    if not sp:
        return sum(case['feed'][i] * sum(THERMDAT_FORMULAS[nm].values()) for i, nm in enumerate(case['names']))
    return sum(case['feed'][i] * sum(s['formula'].values()) for i, s in enumerate(sp))


def _signature(case):
    if case['kind'] == 'thermdat':
        return json.dumps(['t', case['names'], case['feed'], case['points']])
    if case['kind'] == 'beh':
        return json.dumps(['b', case['steps']])
    return json.dumps([[sorted(s['formula'].items()) for s in case['species']], case['feed'],
                       case['points']])


def run(ctx):
    ctx.coverage['rule'] = (
        'a case is one network (species with NASA-7 thermodynamics, integer formulas over 1-4 of '
        'C/H/O/N) with one feed containing every element, solved at 1-2 (T, P) points under the '
        'given order (model as a dict, or from_thermdat) and then through other accepted forms: '
        'model as a list in an order different from the network keys, list in network order, list with '
        'an extra species, network dict in other key orders (atoms are judged against the feed the '
        'user stated, name -> amount); tlc cases are the networks emitted by MC_EqCases.tla, '
        'rand/wellcond cases are random (G/RT span <= 60, 300-2500 K, 0.01-100 atm), thermdat cases '
        'use the repository thermdat file at temperatures where its G/RT span is <= 60, beh cases '
        'are protocol behaviours of Equilibrium.tla; non-trivial = at least one solve converged '
        'and came back with >= 1 independent reaction, or a solve failed; distinct by '
        '(formulas, feed, points)')
    rnd = random.Random(ctx.seed)
    if ctx.replay_case is not None:
        cases = [ctx.replay_case['case']]
    else:
        # (D) design models and (S->C) generators: independent TLC runs, started together
        import concurrent.futures as cf
        with cf.ThreadPoolExecutor(max_workers=7) as ex:
            jobs = {
                'proto': ex.submit(ctx.model, 'MC_Equilibrium', 'MC_Equilibrium', 4),
                'discard': ex.submit(ctx.model, 'MC_Equilibrium', 'MC_Equilibrium_discard', 1, False),
                'cert': ex.submit(ctx.model, 'MC_EqCert', ctx.pick('MC_EqCert', 'MC_EqCert_big')),
                'norank': ex.submit(ctx.model, 'MC_EqCert', 'MC_EqCert_norank', 2, False),
                'cases': ex.submit(core.tlc_cases, 'MC_EqCases', 'MC_EqCases'),
                'beh': ex.submit(core.run_tlc, 'MC_Equilibrium', 'MC_Equilibrium_beh', None, 1, None, 600),
            }
            if not ctx.quick:
                jobs['n4'] = ex.submit(ctx.model, 'MC_EqCert', 'MC_EqCert_n4')
            done = {k: f.result() for k, f in jobs.items()}
        bad = done['discard']
        if bad.ok or bad.violated != 'NoSilentFailure':
            raise core.MachineryError('the Discard variant should be rejected by NoSilentFailure')
        ctx.notes.append('design model rejects the implementation-shaped variant that discards the '
                         'success flag: NoSilentFailure violated')
        ncert = sum(core.parse_tla(p)[1] for p in done['cert'].prints() if core.tagged(p, 'CERTS'))
        if ncert < 500:
            raise core.MachineryError('certificate soundness model is vacuous (%d certificates)' % ncert)
        ctx.coverage['certificates_checked_sound'] = ncert
        bad = done['norank']
        if bad.ok or bad.violated != 'CertSound':
            raise core.MachineryError('the certificate rule without rank witness should be rejected')
        ctx.notes.append('design model rejects the certificate rule without its rank witness: CertSound violated')
        # (S->C) networks and behaviours from TLC
        tcases, r = done['cases']
        ctx.count('states', len(tcases))
        ctx.coverage['tlc_network_cases'] = len(tcases)
        rb = done['beh']
        if not rb.ok:
            raise core.MachineryError('behaviour generation failed:\n' + rb.out[-2000:])
        behs = [core.parse_tla(p)[1] for p in rb.prints() if core.tagged(p, 'BEH')]
        ctx.coverage['tlc_behaviours'] = len(behs)
        tcases = sorted(tcases, key=lambda c: json.dumps(c, sort_keys=True))
        rnd.shuffle(tcases)
        # make sure the special classes are represented in the sample
        special = [c for c in tcases if c['dep'] or c['fz'] or len(c['els']) == 1]
        plain = [c for c in tcases if not (c['dep'] or c['fz'] or len(c['els']) == 1)]
        n_t = ctx.pick(90, len(tcases))
        pick = special[:max(1, n_t // 4)] + plain[:n_t - max(1, n_t // 4)]
        cases = [L.tlc_case(rnd, 'n%d' % k, c, k) for k, c in enumerate(pick)]
        cases += _beh_cases(behs)
        off = 7 * ctx.seed                       # the strata rotate with the seed
        cases += [L.random_case(rnd, 'r%d' % k, k=k + off) for k in range(ctx.pick(110, 1500))]
        cases += [L.random_case(rnd, 'w%d' % k, wellcond=True, k=k + off) for k in range(ctx.pick(48, 500))]
        cases += [L.inert_case(rnd, 'i%d' % k, k) for k in range(ctx.pick(8, 80))]
        cases += [L.classes_case(rnd, 'k%d' % k, k) for k in range(ctx.pick(12, 120))]
        th = _thermdat_cases(rnd, ctx.pick(4, 60))
        for c in th:
            c['points'] = _in_quantifier(c)
        cases += [c for c in th if c['points']]
        for c in cases:
            if c['kind'] != 'beh':
                make_forms(c, rnd, full=not ctx.quick and c['kind'] not in ('rand', 'wellcond'))
                if not ctx.quick and c['kind'] in ('rand', 'wellcond'):
                    extra = make_forms(dict(c), rnd, full=True)['forms'][2:]
                    c['forms'] += [f for f in rnd.sample(extra, 2) if f not in c['forms']][:1]
    import time as _time
    _t0 = _time.time()
    results = core.pmap(_safe_execute, cases)
    ctx.coverage['wall_execute_s'] = round(_time.time() - _t0, 1)
    traces, infos_all, certs = [], [], {}
    for tid, (case, res) in enumerate(zip(cases, results)):
        if res and res[0] == 'MACHINERY':
            raise core.MachineryError(res[1])
        events, mism, infos = res
        infos_all.append(infos)
        ctx.evaluated()
        solved = [i for i in infos if i.get('out')]
        if any((i['out'] == 'converged' and i.get('k', 0) >= 1) or i['out'] == 'failed' for i in solved):
            ctx.nontrivial(_signature(case))
        for key in _input_classes(case):
            ctx.count('in_' + key)
        for i in infos:
            if i.get('phase') == 'history':
                ctx.count('objects_called_again_after_other_calls')
                if i['temperatures'] > 1:
                    ctx.count('objects_called_at_several_temperatures')
            if i.get('phase') == 'form':
                ctx.count('objects_model_' + i['form'])
                if i['form'] == 'thermdat_w' and not i['raised']:
                    ctx.count('objects_from_thermdat_after_the_file_at_that_path_was_rewritten')
                    ctx.count('objects_from_thermdat_same_path_read_again_unchanged')
                if i['listdiffers']:
                    ctx.count('objects_model_list_in_other_order_than_network')
        for i in solved:
            ctx.count('solves')
            ctx.count('solves_' + i['out'])
            if i.get('wellcond'):
                ctx.count('solves_wellconditioned')
            if i.get('small') and i.get('cert'):
                certs.setdefault(json.dumps(i['cert'], sort_keys=True), i['cert'])
        tags = {'kind': case['kind']}
        for m in mism:
            ctx.violation(m['what'], case, tags=tags, detail=m)
        if case['kind'] == 'beh':
            got = [[i['how'], bool(i['sig'])] for i in solved]
            outs = [i['out'] for i in solved]
            if outs == case['steps'] and got not in case['allowed']:
                ctx.violation('ReplayProtocol', case, tags=tags,
                              detail={'outcomes': outs, 'observed': got, 'allowed_by_TLC': case['allowed']})
            elif outs != case['steps']:
                ctx.notes.append('behaviour %s realised as %s' % (case['steps'], outs))
        traces.append((tid, events))
        if tid % 41 == 0:
            ctx.sample({'kind': case['kind'], 'cid': case['cid'], 'feed': case['feed'],
                        'points': case.get('points', [[case.get('T'), case.get('P')]]),
                        'species': [s['formula'] for s in case.get('species', [])] or case.get('names')})
    _t0 = _time.time()
    fails, stats = core.validate_traces('Trace_Equilibrium', 'Trace', traces, shards=ctx.pick(6, 16))
    ctx.coverage['wall_validate_s'] = round(_time.time() - _t0, 1)
    ctx.count('traces_validated_against_impl', len(traces))
    ctx.coverage['trace_lines'] = stats['lines']
    by_case = {}
    for tid, idx, clause in fails:
        by_case.setdefault((tid, clause), []).append(idx)
    for (tid, clause), idxs in sorted(by_case.items()):
        case = cases[tid]
        if clause == 'WITNESS':
            raise core.MachineryError('a harness witness/certificate did not verify: case %s line(s) %s'
                                      % (case['cid'], idxs[:5]))
        ev = traces[tid][1][idxs[0]]
        tags = {'kind': case['kind'], 'phase': ev['ev'], 'form': ev.get('form', ''),
                'feed': 'micro' if _atoms_fed(case) < 1e-3 else 'regular'}
        if ev['ev'] == 'solve':
            tags.update({'status': ev['status'], 'forced': ev['forced'], 'out': ev['out'], 'how': ev['how']})
        detail = {'event_indices': idxs[:10], 'species': len(case.get('species', case.get('names', []))),
                  'elements': case['elements']}
        if ev['ev'] == 'solve':
            detail['T'], detail['P'] = ev['T'], ev['P']
        ctx.violation(clause, case, tags=tags, detail=detail)
    # brute-force check of the certificates the harness proposed for small networks
    if certs and ctx.replay_case is None:
        fd, path = tempfile.mkstemp(prefix='c16nets_', suffix='.ndjson')
        try:
            with os.fdopen(fd, 'w') as f:
                for c in list(certs.values())[:ctx.pick(40, 400)]:
                    f.write(json.dumps(c, separators=(',', ':')) + '\n')
            r = ctx.model('MC_EqCert', 'MC_EqCert_nets', env={'NETS_FILE': path}, workers=1)
            nets = [core.parse_tla(p)[1] for p in r.prints() if core.tagged(p, 'NETS')]
            if not nets or nets[0] < 1 or any(core.tagged(p, 'BADNET') for p in r.prints()):
                raise core.MachineryError('harness certificates failed the brute-force check:\n' + r.out[-2000:])
            ctx.coverage['harness_certificates_brute_forced'] = nets[0]
        finally:
            os.unlink(path)
    if ctx.replay_case is None:
        missing = [k for k in REQUIRED_INPUT_CLASSES if not ctx.coverage.get('in_' + k)]
        missing += [k for k in ('objects_model_list+dup', 'objects_model_list+extra', 'objects_model_thermdat_w',
                                'objects_from_thermdat_after_the_file_at_that_path_was_rewritten',
                                'objects_called_at_several_temperatures', 'objects_called_again_after_other_calls')
                    if not ctx.coverage.get(k)]
        if missing:
            raise core.MachineryError('vacuous run: input classes of the quantifier not exercised: %r' % missing)
        if ctx.coverage.get('objects_model_list_in_other_order_than_network', 0) < 30 \
                or ctx.coverage.get('objects_model_dict', 0) < 30 or ctx.coverage.get('objects_model_thermdat', 0) < 2:
            raise core.MachineryError('vacuous run: construction forms not exercised: %r'
                                      % {k: v for k, v in ctx.coverage.items() if k.startswith('objects_')})
        if ctx.coverage.get('solves_wellconditioned', 0) < 10 or ctx.coverage.get('solves_converged', 0) < 50:
            raise core.MachineryError('vacuous run: too few converged / well-conditioned solves: %r'
                                      % {k: v for k, v in ctx.coverage.items() if k.startswith('solves')})
    ctx.assume('ln(x) values are libm sensors of logged numbers; reciprocals and displaced compositions '
               'are witnesses verified by multiplication/addition in Trace_Equilibrium.tla')
    ctx.assume('global optimality follows from the checked first-order conditions by convexity of the '
               'ideal-gas Gibbs function (argued in the module header, not checked by TLC)')
    ctx.assume('the solver success flag is observed by rebinding pmutt.equilibrium._equilibrium.minimize '
               'in the driver process; a warning whose text is a numpy floating-point notice or scipy\'s '
               'bound-clipping notice is not counted as a failure signal')
    ctx.assume('Dec arithmetic: numeric clauses see 1e-6 relative of the largest term; Stationary is asserted '
               'only when every amount is >= 1e-6 n_tot, NearMinimum (1e-2 n_tot) on every converged run')


if __name__ == '__main__':
    core.main('C16', 'exploration', run)
