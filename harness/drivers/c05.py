"""C05 - thermdat files written by pMuTT read back to the same species.

(D)    spec/Thermdat.tla (over ThermdatFormat.tla / Text.tla) checked exhaustively:
       the specification's writer and reader automaton round-trip every list of the
       adversarial alphabet (MC_Thermdat.cfg); the pinned implementation-shaped
       variants are REJECTED (MC_Thermdat_substring*.cfg, MC_Thermdat_firstblank.cfg),
       the repaired shape is accepted (MC_Thermdat_repaired.cfg).
(S->C) TLC emits every case of the model as JSON (species list, the file text of the
       specification's writer, the list the specification's reader returns).  The real
       write_thermdat + read_thermdat are run on the same lists; what the real reader
       returns must EQUAL what TLC computed, and the number of real files that are
       byte-identical to the specification's text is recorded (binding of the model's
       writer to the code).
(C->S) those runs plus random species lists over the whole quantifier are recorded
       (list given, every line of the real file as character codes, what the real reader
       returned for each output format) and judged line by line by
       spec/Trace_Thermdat.tla: the specification's reader is run over the REAL text.
"""
import concurrent.futures as cf
import json
import os
import random
import shutil
import tempfile
from decimal import Context, Decimal, ROUND_HALF_EVEN

from harness import core
from harness import lib_thermdat_cases as tc
from harness.core import to_dec

KEYWORDS = ('END', 'THERMO')
FORMATS = ('list', 'tuple', 'dict')
DEV = bool(os.environ.get('C05_DEV'))       # development on a shared machine: few TLC workers
_CTX9 = Context(prec=9, rounding=ROUND_HALF_EVEN, Emin=-999999, Emax=999999)


# --------------------------------------------------------------------------
# projections (numbers -> small integers, text -> character codes)
# --------------------------------------------------------------------------
def to_coef(x):
    """IEEE double -> [sign, 9-digit mantissa, exponent] by exact decimal rounding
    (half-even), independent of any format string; zero (either sign) -> [1, 0, 0];
    a non-finite value -> [0, 0, 0], which equals no coefficient of the spec."""
    try:
        x = float(x)
    except Exception:
        return [0, 0, 0]
    if x != x or x in (float('inf'), float('-inf')):
        return [0, 0, 0]
    if x == 0.0:
        return [1, 0, 0]
    d = _CTX9.create_decimal(Decimal(x))
    sign, digits, exp = d.as_tuple()
    m = int(''.join(map(str, digits)))
    n = len(digits)
    m *= 10 ** (9 - n)
    return [-1 if sign else 1, m, exp + n - 1]


def coef_to_float(c):
    sign, m, e = c
    return float('%s%de%d' % ('-' if sign < 0 else '', m, e - 8))


def codes(s):
    return [ord(ch) for ch in s]


def _dec_or_bad(x):
    try:
        return to_dec(x)
    except Exception:
        return [-1, 0]


def _inputs(sp):
    """The values as the library receives them: every accepted Python / NumPy type
    (sp['types']; defaults int counts, float temperatures, float64 arrays)."""
    import numpy as np
    ty = sp.get('types') or {}
    ct = {'int': int, 'int64': np.int64, 'int32': np.int32, 'float': float,
          'float64': np.float64}[ty.get('count', 'int')]
    tt = {'float': float, 'int': int, 'float64': np.float64, 'int64': np.int64,
          'float32': np.float32}[ty.get('T', 'float')]
    cty = ty.get('coef', 'ndarray')

    def coefs(v):
        if cty == 'list':
            return [float(x) for x in v]
        if cty == 'tuple':
            return tuple(float(x) for x in v)
        if cty == 'float32':
            return np.array(v, dtype=np.float32)
        if cty == 'intlist':
            return [int(x) for x in v]
        return np.array(v, dtype=float)
    return {'elements': {s: ct(n) for s, n in sp['elements']}, 'T': [tt(x) for x in sp['T']],
            'a_high': coefs(sp['a_high']), 'a_low': coefs(sp['a_low'])}


def proj_given(sp):
    v = _inputs(sp)
    return {'name': codes(sp['name']),
            'elems': [[codes(s), int(n)] for s, n in v['elements'].items()],
            'phase': ord(sp['phase']),
            'T': [to_dec(float(x)) for x in v['T']],
            'ah': [to_coef(float(x)) for x in v['a_high']],
            'al': [to_coef(float(x)) for x in v['a_low']]}


def proj_read(obj):
    els = []
    for k, v in (obj.elements or {}).items():
        try:
            n = int(v) if float(v) == int(v) else -1
        except Exception:
            n = -1
        els.append([codes(str(k)), n])
    ph = obj.phase
    return {'name': codes(str(obj.name)),
            'elems': els,
            'phase': ord(ph) if isinstance(ph, str) and len(ph) == 1 else -1,
            'T': [_dec_or_bad(obj.T_low), _dec_or_bad(obj.T_high), _dec_or_bad(obj.T_mid)],
            'ah': [to_coef(v) for v in list(obj.a_high)],
            'al': [to_coef(v) for v in list(obj.a_low)]}


# --------------------------------------------------------------------------
# running one case through the real library
# --------------------------------------------------------------------------
def _mk_nasa(sp):
    from pmutt.empirical.nasa import Nasa
    v = _inputs(sp)
    return Nasa(name=sp['name'], T_low=v['T'][0], T_high=v['T'][1], T_mid=v['T'][2],
                a_low=v['a_low'], a_high=v['a_high'], elements=v['elements'], phase=sp['phase'],
                notes=sp.get('notes'))


def _manual_entry(sp):
    """One entry in the layout of the Chemkin manual, formatted WITHOUT the library: name in
    columns 1-18, a six-character date in 19-24, temperatures right-justified with two
    decimals (F10.2, F10.2, F8.2); composition, phase, coefficient fields and record numbers
    as the property states them."""
    v = _inputs(sp)
    els = ''.join('%-2s%3d' % (s_, int(n)) for s_, n in v['elements'].items() if n > 0)
    l1 = '%-18s%-6s%-20s%s%10.2f%10.2f%8.2f' % (sp['name'], '250101', els, sp['phase'],
                                               float(v['T'][0]), float(v['T'][1]), float(v['T'][2]))
    a = [float(x) for x in v['a_high']] + [float(x) for x in v['a_low']]
    f = ['% .8E' % x for x in a]
    return [l1.ljust(79) + '1', ''.join(f[0:5]) + '    2', ''.join(f[5:10]) + '    3',
            ''.join(f[10:14]).ljust(79) + '4']


def _supp_data(case, write_thermdat):
    """supp_data in every shape a user can hand over: bare entries with or without a final
    newline, a whole thermdat file (its own THERMO header and END line), entries separated
    by blank and comment lines under a bare THERMO line, entries of another writer."""
    supp = case['supp']
    mode = case.get('supp_mode') or ('entries' if case.get('supp_nl', True) else 'entries_nonl')
    if mode == 'manual':
        return '\n'.join(ln for sp in supp for ln in _manual_entry(sp)) + '\n'
    st = write_thermdat([_mk_nasa(sp) for sp in supp], write_date=bool(case.get('write_date')))
    lines = st.split('\n')
    body = lines[2:-1]
    if mode == 'entries':
        return '\n'.join(body) + '\n'
    if mode == 'entries_nonl':
        return '\n'.join(body)
    if mode == 'whole':
        return st
    if mode == 'interleaved':
        out = ['THERMO', '   300.000  1000.000  5000.000']
        for k in range(0, len(body), 4):
            out += body[k:k + 4] + ['', '! entry %d ends; THERMO data continue' % (k // 4), '']
        return '\n'.join(out) + '\n'
    raise core.MachineryError('unknown supp_mode %r' % (mode,))


def _is_record(line):
    return len(line) >= 80 and line[79] in '1234' and line[80:].strip() == ''


def case_tags(case, text=None):
    sps = list(case.get('supp') or []) + list(case['species'])
    kw = False
    if text is not None:
        kw = any(_is_record(ln) and any(k in ln for k in KEYWORDS) for ln in text.split('\n'))
    else:
        for sp in sps:
            note = '' if case.get('write_date') else (sp.get('notes') or '')[:8]
            if any(k in sp['name'] or k in note for k in KEYWORDS):
                kw = True
    s2c3 = any(len(s) == 2 and n >= 100 for sp in sps for s, n in sp['elements'])
    fl = any((sp.get('types') or {}).get('count') in ('float', 'float64') for sp in sps)
    return {'kind': case['kind'], 'keyword_in_record': kw, 'sym2_count3': s2c3, 'float_count': fl}


def _container(case, objs):
    inp = case.get('input') or ('dict' if case.get('dict_input') else 'list')
    if inp == 'list':
        return objs
    if inp == 'tuple':
        return tuple(objs)
    if inp == 'dict':
        return {o.name: o for o in objs}
    if inp == 'dict_key':                           # a dict keyed by something else than the name
        return {'k%03d' % k: o for k, o in enumerate(objs)}
    raise core.MachineryError('unknown input container %r' % (inp,))


def _file_events(events, text):
    for ln in text.split('\n'):
        events.append({'ev': 'line', 'c': codes(ln)})
    events.append({'ev': 'eof'})


def _read_event(read_thermdat, path, fmt):
    e = {'ev': 'read', 'fmt': fmt, 'kind': '', 'keys': [], 'sp': [], 'raised': ''}
    objs = None
    try:
        res = read_thermdat(path, format=fmt)
        e['kind'] = type(res).__name__
        if isinstance(res, dict):
            e['keys'] = [codes(str(k)) for k in res.keys()]
            res = list(res.values())
        objs = list(res)
        e['sp'] = [proj_read(o) for o in objs]
    except core.MachineryError:
        raise
    except Exception as ex:
        e['raised'] = '%s: %s' % (type(ex).__name__, ex)
    return e, objs


def execute(case):
    """Returns (events, mismatches, info)."""
    from pmutt.io.thermdat import read_thermdat, write_thermdat
    events, mism, info = [], [], {}
    given = list(case.get('supp') or []) + list(case['species'])
    L = [proj_given(sp) for sp in given]
    d = tempfile.mkdtemp(prefix='c05_')
    try:
        path = os.path.join(d, 'thermdat')
        text = None
        raised = ''
        try:
            objs = [_mk_nasa(sp) for sp in case['species']]
            arg = _container(case, objs)
            kw = {'write_date': bool(case.get('write_date'))}
            if case.get('supp'):
                kw['supp_data'] = _supp_data(case, write_thermdat)
            if case.get('supp_txt'):
                kw['supp_txt'] = case['supp_txt']
            fkw = dict(kw)
            nl = case.get('newline')
            if nl is not None:
                fkw['newline'] = nl
            text = write_thermdat(arg, **kw)
            write_thermdat(arg, filename=path, **fkw)
            with open(path, newline='') as f:
                raw = f.read()
            if raw != text.replace('\n', nl or '\n') and kw['write_date']:   # a date change between the calls
                text = write_thermdat(arg, **kw)
            if raw != text.replace('\n', nl or '\n'):
                mism.append({'kind': 'FileEqualsString', 'string': text[:400], 'file': raw[:400], 'newline': nl})
            with open(path) as f:                  # as a reader sees it (universal newlines)
                text = f.read()
        except core.MachineryError:
            raise
        except Exception as ex:
            raised = '%s: %s' % (type(ex).__name__, ex)
        events.append({'ev': 'write', 'L': L, 'raised': raised})
        if raised:
            return events, mism, info
        info['text'] = text
        _file_events(events, text)
        first = first_objs = None
        for fmt in case.get('formats') or FORMATS:
            e, robjs = _read_event(read_thermdat, path, fmt)
            if first is None and robjs is not None:
                first, first_objs = e['sp'], robjs
            events.append(e)
        # a second generation: what was read is written again and read again (same list expected)
        if case.get('rewrite') and first_objs is not None:
            path2 = os.path.join(d, 'thermdat2')
            raised2 = ''
            try:
                write_thermdat(first_objs, filename=path2, write_date=False)
                with open(path2) as f:
                    text2 = f.read()
            except core.MachineryError:
                raise
            except Exception as ex:
                raised2 = '%s: %s' % (type(ex).__name__, ex)
            events.append({'ev': 'write', 'L': L, 'raised': raised2})
            if not raised2:
                _file_events(events, text2)
                e, _ = _read_event(read_thermdat, path2, 'list')
                events.append(e)
        # (S->C) equality with what TLC computed for this list
        if case.get('expect') is not None:
            info['identical_text'] = (text.split('\n') == case.get('spec_text'))
            exp = case['expect']
            if first is None:
                mism.append({'kind': 'ReplayRead', 'why': 'the real reader returned nothing',
                             'raised': [e['raised'] for e in events if e['ev'] == 'read'][:1]})
            else:
                got = [_discrete(s) for s in first]
                want = [_discrete(s) for s in exp]
                if got != want:
                    mism.append({'kind': 'ReplayRead', 'expected_names': [''.join(map(chr, s['name'])) for s in exp],
                                 'got_names': [''.join(map(chr, s['name'])) for s in first],
                                 'first_difference': _first_diff(got, want)})
    finally:
        shutil.rmtree(d, ignore_errors=True)
    return events, mism, info


def _norm_dec(t):
    m, e = t
    if m == 0:
        return [0, 0]
    while m % 10 == 0:
        m //= 10
        e += 1
    return [m, e]


def _discrete(s):
    """Order-free, representation-free form of a species projection for equality."""
    return {'name': s['name'], 'phase': s['phase'],
            'elems': sorted([list(map(int, e[0])), int(e[1])] for e in s['elems'] if e[1] != 0),
            'T': [_norm_dec(t) for t in s['T']],
            'ah': [list(c) for c in s['ah']], 'al': [list(c) for c in s['al']]}


def _first_diff(got, want):
    if len(got) != len(want):
        return {'count': [len(got), len(want)]}
    for k, (g, w) in enumerate(zip(got, want)):
        for f in ('name', 'phase', 'elems', 'T', 'ah', 'al'):
            if g[f] != w[f]:
                return {'species': k, 'field': f, 'got': g[f], 'expected': w[f]}
    return None


def _safe_execute(case):
    try:
        return execute(case)
    except core.MachineryError:
        raise
    except Exception as ex:                       # a failure of the driver itself
        raise core.MachineryError('driver failed on case %s: %s: %s'
                                  % (case.get('cid'), type(ex).__name__, ex))


# --------------------------------------------------------------------------
# cases
# --------------------------------------------------------------------------
def _tlc_species(s):
    return {'name': ''.join(map(chr, s['name'])),
            'notes': ''.join(map(chr, s['notes'])) or None,
            'elements': [[''.join(map(chr, e[0])), e[1]] for e in s['elems']],
            'phase': chr(s['phase']),
            'T': [float(Decimal(t[0]).scaleb(t[1])) for t in s['T']],
            'a_high': [coef_to_float(c) for c in s['ah']],
            'a_low': [coef_to_float(c) for c in s['al']]}


def _tlc_case(c, cid):
    names = [''.join(map(chr, s['name'])) for s in c['src']]
    uniq = len(set(names)) == len(names)
    if c['err'] != '':
        raise core.MachineryError('the specification reader failed on its own writer: %r' % (c['err'],))
    return {'cid': cid, 'kind': 'tlc', 'species': [_tlc_species(s) for s in c['src']],
            'supp': None, 'supp_txt': None, 'write_date': False, 'dict_input': False,
            'formats': list(FORMATS) if uniq else ['list', 'tuple'],
            'expect': c['out'], 'spec_text': [''.join(map(chr, ln)) for ln in c['text']]}


SYMBOLS = ['H', 'C', 'O', 'N', 'S', 'F', 'P', 'K', 'B', 'I', 'W', 'U', 'V', 'Y',
           'Pt', 'Pd', 'Cu', 'Ni', 'Fe', 'Cl', 'Na', 'Si', 'Al', 'Ag', 'Au', 'Ru', 'Rh', 'Zn', 'He',
           'Ar', 'Br', 'Ca', 'Co', 'In', 'Nb', 'Ne', 'No', 'Os', 'Sn', 'Ti']
PRINTABLE = [chr(c) for c in range(33, 127)]
NAME_PARTS = ['CH3', 'CH2', 'OH', 'CO', 'O2', 'H2O', 'N2', 'NH3', '(S)', '(B)', '(T)', '*', '+', '-', '_',
              'Pt', 'Cu', '(g)', '2', '3', '#', '=', '.', ',', '/', "'"]
ADVERSARIAL_NAMES = ['END', 'THERMO', 'LEGEND', 'THERMOX', 'XENDY', 'BENDER', 'ENDO', 'AMEND', 'THERMOS',
                     'ISOTHERMO', 'THERMOEND', 'END1', '1END', 'End', 'end', 'thermo', 'THERM', 'EN',
                     '100', '1', '4', '1.5', '1E5', '-2', '1A', '2CH3', '3', '1200.0', 'inf', 'nan', 'ALL',
                     'THERMOALL', 'E', '+', '-', '.', 'G', '0']


def _rand_name(rnd, used):
    for _ in range(100):
        r = rnd.random()
        if r < 0.22:
            nm = rnd.choice(ADVERSARIAL_NAMES)
        elif r < 0.34:                              # keyword embedded in a random name
            kw = rnd.choice(KEYWORDS)
            room = 15 - len(kw)
            a = ''.join(rnd.choice(PRINTABLE) for _ in range(rnd.randint(0, room)))
            cut = rnd.randint(0, len(a))
            nm = a[:cut] + kw + a[cut:]
        elif r < 0.62:                              # chemistry-like
            nm = ''
            while len(nm) < rnd.randint(1, 15):
                nm += rnd.choice(NAME_PARTS)
            nm = nm[:15]
        elif r < 0.72:                              # exactly 15 characters
            nm = ''.join(rnd.choice(PRINTABLE) for _ in range(15))
        else:
            nm = ''.join(rnd.choice(PRINTABLE) for _ in range(rnd.randint(1, 15)))
        if nm and nm[0] != '!' and nm not in used:   # '!' in column 1 is a comment (narrow reading)
            used.add(nm)
            return nm
    raise core.MachineryError('could not draw a fresh name')


def _rand_count(rnd):
    r = rnd.random()
    if r < 0.4:
        return rnd.randint(1, 9)
    if r < 0.7:
        return rnd.randint(10, 99)
    if r < 0.9:
        return rnd.randint(100, 999)
    return rnd.choice([1, 9, 10, 99, 100, 999])


def _rand_T(rnd, lo, hi):
    x = rnd.uniform(lo, hi)
    r = rnd.random()
    if r < 0.3:
        x = float(round(x))
    elif r < 0.6:
        x = round(x, 1)
    elif r < 0.75:
        x = round(x, 2)
    return min(max(x, lo), hi)


def _rand_coef(rnd):
    r = rnd.random()
    if r < 0.12:
        return 0.0
    if r < 0.14:
        return -0.0
    if r < 0.22:
        return rnd.choice([1e-30, 1e30, -1e30, -1e-30, 9.999999995e29, 1.0, -1.0, 9.99999999e9,
                           1.000000005, 1.0000000049999, 123456789.5, 5e-1, 2.5e-7, 1.001953125])
    mag = 10.0 ** rnd.uniform(-30, 30)
    v = rnd.choice([-1.0, 1.0]) * mag
    if abs(v) < 1e-30:
        v = 1e-30
    if abs(v) > 1e30:
        v = 1e30
    return float(v)


def _rand_species(rnd, used):
    n_el = rnd.choice([1, 1, 2, 2, 3, 3, 4, 4])
    syms = rnd.sample(tc.PERIODIC, n_el + 2)
    els = [[tc.recase(s, rnd.choice(['XX', 'xx'])) if rnd.random() < 0.12 else s, _rand_count(rnd)] for s in syms[:n_el]]
    for s in syms[n_el:]:
        if rnd.random() < 0.25:                     # zero-count entries are omitted by the writer
            els.insert(rnd.randint(0, len(els)), [s, 0])
    t_lo = _rand_T(rnd, 1.0, 3000.0)
    t_hi = _rand_T(rnd, t_lo + 2.0, 9999.9)
    t_mid = _rand_T(rnd, t_lo + 1.0, t_hi - 1.0) if t_hi - t_lo > 2.5 else (t_lo + t_hi) / 2
    if rnd.random() < 0.08:
        t_lo, t_hi = 1.0, 9999.9
    r = rnd.random()
    if r < 0.35:
        notes = None
    elif r < 0.45:
        notes = ''
    elif r < 0.93:
        notes = rnd.choice(['DFT', 'PBE-D3', 'bulk species', 'TPD 1995', 'see SI', 'x', '20180707', 'note 12 long text'])
    else:
        notes = rnd.choice(['see END', 'LEGEND 1', 'THERMO x', 'a END b c'])
    ph = rnd.choice('GGGSSSLB') if rnd.random() < 0.9 else rnd.choice(PRINTABLE)
    return {'name': _rand_name(rnd, used), 'notes': notes, 'elements': els, 'phase': ph,
            'T': [t_lo, t_hi, t_mid],
            'a_high': [_rand_coef(rnd) for _ in range(7)], 'a_low': [_rand_coef(rnd) for _ in range(7)],
            'types': {'count': rnd.choice(['int', 'int', 'int64', 'int32']),
                      'T': rnd.choice(['float', 'float', 'float64']),
                      'coef': rnd.choice(['ndarray', 'ndarray', 'list', 'tuple'])}}


def _rand_comment(rnd):
    lines = []
    for _ in range(rnd.randint(1, 3)):
        r = rnd.random()
        if r < 0.3:
            body = ' ' + rnd.choice(['generated by pMuTT', 'END of header', 'THERMO data below', '100 200 300'])
        elif r < 0.5:                               # 80 columns ending in a record digit
            body = ''.join(rnd.choice(PRINTABLE + [' ']) for _ in range(78)) + rnd.choice('1234')
        else:
            body = ''.join(rnd.choice(PRINTABLE + [' ', ' ']) for _ in range(rnd.randint(0, 90)))
        lines.append('!' + body)
    txt = '\n'.join(lines)
    return txt + ('\n' if rnd.random() < 0.5 else '')


def _random_case(rnd, cid, nmax):
    r = rnd.random()
    if r < 0.5:
        n = rnd.randint(1, 3)
    elif r < 0.9:
        n = rnd.randint(4, min(12, nmax))
    else:
        n = rnd.randint(min(13, nmax), nmax)
    used = set()
    species = [_rand_species(rnd, used) for _ in range(n)]
    supp = None
    if rnd.random() < 0.25:
        supp = [_rand_species(rnd, used) for _ in range(rnd.randint(1, 3))]
    dup = False
    if n >= 2 and rnd.random() < 0.08:              # a repeated name (list input, no dict output)
        species[-1]['name'] = species[0]['name']
        dup = True
    if dup:
        inp = rnd.choice(['list', 'tuple', 'dict_key'])
    else:
        inp = rnd.choice(['list', 'list', 'tuple', 'dict', 'dict', 'dict_key'])
    return {'cid': cid, 'kind': 'random', 'species': species, 'supp': supp,
            'supp_mode': rnd.choice(['entries', 'entries', 'entries_nonl', 'whole', 'interleaved', 'manual']) if supp else None,
            'supp_txt': _rand_comment(rnd) if rnd.random() < 0.3 else None,
            'write_date': rnd.random() < 0.35,
            'input': inp, 'newline': '\r\n' if rnd.random() < 0.1 else None,
            'rewrite': rnd.random() < 0.2,
            'formats': ['list', 'tuple'] if dup else list(FORMATS)}


def _signature(case):
    return json.dumps([[sp['name'], sp['elements'], sp['phase']] for sp in
                       (case.get('supp') or []) + case['species']] +
                      [case.get('write_date'), case.get('input'), case.get('supp_mode'), case.get('supp_txt'),
                       case.get('newline'), case.get('rewrite')])


# --------------------------------------------------------------------------
# design models
# --------------------------------------------------------------------------
MODELS = [  # cfg, expected to pass, invariants one of which must be the one violated, workers
    ('MC_Thermdat', True, None, 12),
    ('MC_Thermdat_repaired', True, None, 6),
    ('MC_Thermdat_substring', False, ('NoError',), 2),
    ('MC_Thermdat_substring_silent', False, ('PrefixOK', 'NoDrop', 'RoundTrip'), 2),
    ('MC_Thermdat_firstblank', False, ('NoError',), 2),
]


def _design_and_cases(ctx, caseset):
    """Runs the design models and the sharded case generation concurrently."""
    nshard = 2 if DEV else 6

    def model(m):
        return core.run_tlc('MC_Thermdat', m[0], workers=min(m[3], 1) if DEV else m[3], timeout=1500)

    def gen(k):
        d, r = core.tlc_cases('MC_Thermdat_cases', 'MC_Thermdat_cases',
                              env={'SHARD': k, 'NSHARD': nshard, 'CASESET': caseset}, timeout=900)
        return d

    models = [(('MC_Thermdat_repaired_quick', m[1], m[2], 4) if ctx.quick and m[0] == 'MC_Thermdat_repaired' else m)
              for m in MODELS]
    with cf.ThreadPoolExecutor(max_workers=len(models) + nshard) as ex:
        mf = [ex.submit(model, m) for m in models]
        gf = [ex.submit(gen, k) for k in range(nshard)]
        mres = [f.result() for f in mf]
        cases = [c for f in gf for c in f.result()]
    for (cfg, ok, viol, _w), r in zip(models, mres):
        ctx.count('states', r.distinct)
        ctx.count('transitions', r.states)
        ctx.coverage.setdefault('models', []).append(
            {'module': 'MC_Thermdat', 'cfg': cfg, 'distinct_states': r.distinct,
             'states_generated': r.states, 'depth': r.depth, 'ok': r.ok,
             'violated': r.violated, 'expected': 'pass' if ok else 'rejected', 'wall_s': round(r.wall, 1)})
        if ok and not r.ok:
            raise core.MachineryError('design model MC_Thermdat/%s failed:\n%s' % (cfg, r.out[-4000:]))
        if not ok:
            if r.ok or r.violated not in viol:
                raise core.MachineryError('the variant %s should be rejected by the design model (%s):\n%s'
                                          % (cfg, '/'.join(viol), r.out[-3000:]))
            ctx.notes.append('design model rejects %s: invariant %s violated' % (cfg, r.violated))
    return cases


# --------------------------------------------------------------------------
def run(ctx):
    ctx.coverage['rule'] = (
        'a case is one species collection (with its options: list/tuple/dict input, date or notes, '
        'supplementary entries in five shapes, comment block, newline convention) written by the real '
        'write_thermdat (string and file) and read back by the real read_thermdat in every output format, '
        'for some cases written and read a second time; grid cases enumerate the quantifier (full product of '
        'the options, name classes, composition grid, boundary counts/temperatures/coefficients, every '
        'phase character, every accepted argument type, list sizes 1/2/199/200; counted in '
        'coverage.input_classes, a zero is a machinery error); tlc cases are the complete case set '
        'of Thermdat.tla (adversarial names/compositions/notes/coefficients, lists of 1-3) with equality '
        'against the result TLC computed, random cases are drawn from the whole quantifier (1-200 species, '
        'names of 1-15 printable non-blank characters not starting with "!", 1-4 elements with counts '
        '1-999 plus zero-count entries, any phase character, T 1-9999.9 K, coefficients 0 or 1e-30..1e30); '
        'every case is judged line by line by Trace_Thermdat.tla; non-trivial = the writer produced a file '
        'with at least one species; distinct by names, compositions, phases and options')
    if ctx.replay_case is not None:
        cases = [ctx.replay_case['case']]
    else:
        tlc = _design_and_cases(ctx, ctx.pick('small', 'full'))
        ctx.coverage['tlc_cases'] = len(tlc)
        tlc.sort(key=lambda c: json.dumps(c['src'], sort_keys=True))
        cases = [_tlc_case(c, 't%d' % k) for k, c in enumerate(tlc)]
        rnd = random.Random(ctx.seed * 7919 + 5)
        grid = tc.grid_cases(random.Random(ctx.seed * 104729 + 11))
        ctx.coverage['grid_cases'] = len(grid)
        cases += grid
        nrand = ctx.pick(300, 4000)
        for k in range(nrand):
            big = (not ctx.quick) and k % 60 == 0
            cases.append(_random_case(rnd, 'r%d' % k, 200 if big else (40 if k % 25 == 0 else 12)))
    classes = tc.classify(cases)
    ctx.coverage['input_classes'] = classes
    if ctx.replay_case is None:
        missing = [k for k in tc.REQUIRED if not classes.get(k)]
        if missing:
            raise core.MachineryError('vacuous run: input classes of the quantifier never generated: %s' % missing)
    results = core.pmap(_safe_execute, cases)
    traces = []
    evals = {}
    identical = compared = 0
    for tid, (case, (events, mism, info)) in enumerate(zip(cases, results)):
        ctx.evaluated()
        tags = case_tags(case, info.get('text'))
        if 'text' in info:
            ctx.nontrivial(_signature(case))
        if 'identical_text' in info:
            compared += 1
            identical += 1 if info['identical_text'] else 0
        for m in mism:
            ctx.violation(m['kind'], _slim(case), tags=tags, detail=m)
        traces.append((tid, events))
        for e in events:                     # per-clause evaluation counts (vacuity)
            if e['ev'] == 'line':
                ln = ''.join(map(chr, e['c']))
                k = 'record%s_lines' % ln[79] if _is_record(ln) else 'other_lines'
                evals[k] = evals.get(k, 0) + 1
            elif e['ev'] == 'read':
                k = 'reads_raised' if e['raised'] else 'reads_%s' % e['fmt']
                evals[k] = evals.get(k, 0) + 1
                evals['species_read_back'] = evals.get('species_read_back', 0) + len(e['sp'])
        if tid % 353 == 0:
            ctx.sample({'kind': case['kind'], 'names': [s['name'] for s in case['species']][:6],
                        'elements': [s['elements'] for s in case['species']][:3],
                        'options': {k: case.get(k) for k in ('write_date', 'input', 'supp_mode', 'supp_txt', 'newline', 'rewrite')},
                        'n_supp': len(case.get('supp') or [])})
    fails, stats = core.validate_traces('Trace_Thermdat', 'Trace', traces, shards=4 if DEV else None)
    ctx.count('traces_validated_against_impl', len(traces))
    ctx.coverage['trace_lines'] = stats['lines']
    ctx.coverage['clause_evaluations'] = dict(sorted(evals.items()))
    if not ctx.replay_case and min(evals.get(k, 0) for k in
                                   ('record1_lines', 'record2_lines', 'record3_lines', 'record4_lines',
                                    'other_lines', 'reads_list', 'reads_tuple', 'reads_dict')) == 0:
        raise core.MachineryError('vacuous run: %r' % (evals,))
    if compared:
        ctx.coverage['real_files_identical_to_spec_writer'] = '%d of %d' % (identical, compared)
        if identical < compared:
            ctx.notes.append('%d real files differ in free layout from the specification writer (not a '
                             'violation: only the clauses of Trace_Thermdat.tla judge layout)' % (compared - identical))
    by_case = {}
    for tid, idx, clause in fails:
        by_case.setdefault((tid, clause), []).append(idx)
    for (tid, clause), idxs in sorted(by_case.items()):
        case = cases[tid]
        evs = results[tid][0]
        what = []
        for i in idxs[:4]:
            e = evs[i]
            if e['ev'] == 'line':
                what.append({'event': i, 'line': ''.join(map(chr, e['c']))})
            elif e['ev'] == 'read':
                what.append({'event': i, 'fmt': e['fmt'], 'raised': e['raised'],
                             'names_read': [''.join(map(chr, s['name'])) for s in e['sp']][:12]})
            else:
                what.append({'event': i, 'ev': e['ev'], 'raised': e.get('raised', '')})
        ctx.violation(clause, _slim(case), tags=case_tags(case, results[tid][2].get('text')),
                      detail={'where': what, 'names_given': [s['name'] for s in (case.get('supp') or []) + case['species']][:12]})
    ctx.assume('coefficients and temperatures of the given species are projected with Python decimal '
               '(exact value of the double, half-even to 9 digits); the text is judged as character codes')
    ctx.assume('names starting with "!" are outside the quantifier (a "!" in column 1 is a comment by the format)')


def _slim(case):
    return case


if __name__ == '__main__':
    core.main('C05', 'model_checking', run)
