"""X04 - the generic helper layer of pmutt/__init__.py (extra specification module "Helpers").

(D)   spec/Helpers.tla steps the helpers as the code does them (keyword routing through
      _kwargs_allowed / _get_expected_arguments / the collecting loop / the call; the loops of
      _get_specie_kwargs, format_conditions, pmutt_list_to_dict; _apply_numpy_operation,
      _is_iterable, _check_iterable_attr) over finite input spaces and TLC checks that every
      observation is the one REQUIRED by spec/HelpersRule.tla and that the caller's data are never
      changed.  Variant cfgs: the rule as found (co_varnames[:co_argcount]) is REJECTED on
      signatures with keyword-only parameters and accepted on those without; the docstring of
      pmutt_list_to_dict as found (KeyError) is REJECTED; inputs outside the documentation
      (functools.partial, keywords containing 'kwargs') and defective algorithms are REJECTED.
(S->C) MC_Helpers_cases: TLC enumerates signature shapes x keyword sets, species dictionaries,
      condition lists, object lists, arrays and value kinds and computes the required result of
      each; real callables / dictionaries / objects are built from them, the real helper is
      called and the discrete projection compared by equality (Replay* clauses).
(C->S) every call - TLC cases and random draws from the quantifier - is recorded as one NDJSON
      line and judged by spec/Trace_Helpers.tla.
Python builds inputs, calls the library and projects what it saw (which keywords a callable's
body received, dictionary keys as character codes, identities as indices); it takes no verdict.
"""
import functools
import random
import re
import warnings

from harness import core

codes = core.text_codes


def uncodes(c):
    return ''.join(chr(v) for v in c)


_D = type('Default', (), {'__repr__': lambda s: '<default>'})()      # "parameter took its default"
VAL = {'a': 11, 'b': 12, 'c': 13, 'd': 14, 'x': 15}
DOC_KINDS = ('function', 'method', 'class')
HELPER_PARAMS = {'fn', 'obj', 'mode', 'method_name', 'raise_error', 'raise_warning', 'default_value',
                 'specie_name', 'self', 'args', 'kw'}


# --------------------------------------------------------------------------
# callables built from a signature shape
# --------------------------------------------------------------------------
def _params(shape):
    ps = []
    for p in shape['pos']:
        ps.append(p['n'] + ('=_D' if p['d'] else ''))
    if shape['varargs']:
        ps.append('*args')
    elif shape['kwonly']:
        ps.append('*')
    for p in shape['kwonly']:
        ps.append(p['n'] + ('=_D' if p['d'] else ''))
    if shape['varkw']:
        ps.append('**kw')
    return ps


def build(shape, rec):
    """-> (target handed to the helper, class or None, mode object or None, token returned by the body)"""
    named = [p['n'] for p in shape['pos']] + [p['n'] for p in shape['kwonly']]
    for n in named:
        if n in HELPER_PARAMS or not n.isidentifier():
            raise core.MachineryError('parameter name %r not usable' % n)
    see = '_rec.append(({%s}, %s, %s))' % (', '.join("'%s': %s" % (n, n) for n in named),
                                          'len(args)' if shape['varargs'] else '0',
                                          'dict(kw)' if shape['varkw'] else '{}')
    kind = shape['kind']
    tok = object()
    env = {'_rec': rec, '_D': _D, '_tok': tok}
    if kind in ('function', 'partial'):
        src = 'def target(%s):\n    %s\n    return _tok\n' % (', '.join(_params(shape)), see)
    elif kind == 'method':
        src = 'class C:\n    def get_q(%s):\n        %s\n        return _tok\n' % (
            ', '.join(['self'] + _params(shape)), see)
    elif kind == 'class':
        src = 'class C:\n    def __init__(%s):\n        %s\n' % (', '.join(['self'] + _params(shape)), see)
    elif kind == 'object':
        src = 'class C:\n    def __call__(%s):\n        %s\n        return _tok\n' % (
            ', '.join(['self'] + _params(shape)), see)
    elif kind == 'bareclass':
        src = 'class C:\n    pass\n'
    else:
        raise core.MachineryError('unknown kind %r' % (kind,))
    exec(src, env)
    if kind == 'function':
        return env['target'], None, None, tok
    if kind == 'partial':
        return functools.partial(env['target']), None, None, tok
    if kind == 'method':
        m = env['C']()
        return m.get_q, None, m, tok
    if kind == 'object':
        return env['C'](), None, None, tok
    return env['C'], env['C'], None, tok


def _pairs(d):
    return sorted([k, v] for k, v in d.items())


def call_route(shape, fn, sup):
    """one routed call; sup = [[name, value], ...] in the caller's order"""
    import pmutt
    rec = []
    target, cls, mode, tok = build(shape, rec)
    kw = dict((k, v) for k, v in sup)
    raised, ret = '', None
    try:
        if fn == 'pass':
            ret = pmutt._pass_expected_arguments(target, **kw)
        elif fn == 'force':
            ret = pmutt._force_pass_arguments(target, **kw)
        elif fn == 'check_obj':
            ret = pmutt._check_obj(target, **kw)
        elif fn == 'mode_quantity':
            ret = pmutt._get_mode_quantity(mode, 'get_q', **kw)
        else:
            raise core.MachineryError('unknown routed helper %r' % (fn,))
    except core.MachineryError:
        raise
    except Exception as ex:
        raised = type(ex).__name__
    got, nargs, extra = ({}, 0, {})
    if rec:
        seen, nargs, extra = rec[-1]
        got = {k: v for k, v in seen.items() if v is not _D}
    if cls is not None:
        ret_ok = isinstance(ret, cls)
    else:
        ret_ok = ret is tok
    return {'ev': 'route', 'fn': fn, 'sh': shape, 'sup': [list(p) for p in sup],
            'after': [[k, v] for k, v in kw.items()], 'raised': raised, 'got': _pairs(got),
            'extra': _pairs(extra), 'nargs': nargs, 'calls': len(rec), 'ret': bool(ret_ok)}


def call_expected(shape):
    import pmutt
    target = build(shape, [])[0]
    raised, names = '', []
    try:
        names = list(pmutt._get_expected_arguments(target))
    except Exception as ex:
        raised = type(ex).__name__
    return {'ev': 'expected', 'sh': shape, 'raised': raised, 'names': [str(n) for n in names]}


def call_allowed(shape):
    import pmutt
    target = build(shape, [])[0]
    raised, res = '', False
    try:
        res = pmutt._kwargs_allowed(target)
    except Exception as ex:
        raised = type(ex).__name__
    if not isinstance(res, bool):
        raised = raised or 'NotABool'
        res = False
    return {'ev': 'allowed', 'sh': shape, 'raised': raised, 'res': res}


def call_passthrough(shape, sup):
    """_check_obj given an object (not a class): handed back as it is, nothing is called"""
    import pmutt
    rec = []
    target, cls, mode, tok = build(shape, rec)
    if shape['kind'] == 'class':
        obj = object.__new__(cls)              # an instance; __init__ (the recording body) not run
    elif shape['kind'] == 'method':
        obj = mode
    else:
        obj = target
    raised, ret = '', None
    try:
        ret = pmutt._check_obj(obj, **dict((k, v) for k, v in sup))
    except Exception as ex:
        raised = type(ex).__name__
    return {'ev': 'passthrough', 'same': ret is obj, 'calls': len(rec), 'raised': raised, 'kind': shape['kind']}


def call_mode_missing(raise_error, raise_warning, default, sup):
    import pmutt

    class Mode:
        def get_other(self, T):
            return T
    raised, ret, nwarn = '', None, 0
    with warnings.catch_warnings(record=True) as w:
        warnings.simplefilter('always')
        try:
            ret = pmutt._get_mode_quantity(Mode(), 'get_q', raise_error=raise_error,
                                           raise_warning=raise_warning, default_value=default,
                                           **dict((k, v) for k, v in sup))
        except Exception as ex:
            raised = type(ex).__name__
        nwarn = len(w)
    return {'ev': 'mode_missing', 'raise_error': raise_error, 'raise_warning': raise_warning,
            'raised': raised, 'isdefault': (raised == '' and (ret is default or (type(ret) is type(default) and ret == default))),
            'warned': nwarn}


# --------------------------------------------------------------------------
# _get_specie_kwargs
# --------------------------------------------------------------------------
def _entry_to_py(e):
    k = uncodes(e['k'])
    if e['b']:
        return k, dict((uncodes(kk), vv) for kk, vv in e['blk'])
    return k, e['v']


def _project_dict(d):
    out = []
    for k, v in d.items():
        if isinstance(v, dict):
            blk = []
            for kk, vv in v.items():
                if isinstance(vv, bool) or not isinstance(vv, int):
                    blk.append([codes(str(kk)), -987654])          # not an ordinary keyword value
                else:
                    blk.append([codes(str(kk)), vv])
            out.append({'k': codes(str(k)), 'b': True, 'v': 0, 'blk': blk})
        elif isinstance(v, int) and not isinstance(v, bool):
            out.append({'k': codes(str(k)), 'b': False, 'v': v, 'blk': []})
        else:
            out.append({'k': codes(str(k)), 'b': False, 'v': -987654, 'blk': []})
    return out


def call_specie(d, name):
    import pmutt
    before = _project_dict(d)
    raised, out = '', {}
    try:
        out = pmutt._get_specie_kwargs(name, **d)
    except Exception as ex:
        raised = type(ex).__name__
    if not isinstance(out, dict):
        raised, out = raised or 'NotADict', {}
    return {'ev': 'specie', 'name': codes(name), 'kw': before, 'after': _project_dict(d),
            'raised': raised, 'out': _project_dict(out)}


def _norm_exp_pairs(exp):
    s = set()
    for k, v in exp:
        if v[0] == 'i':
            s.add((tuple(k), 'i', v[1]))
        else:
            s.add((tuple(k), 'b', frozenset((tuple(p[0]), p[1]) for p in v[2])))
    return s


def _norm_out_entries(entries):
    s = set()
    for e in entries:
        if e['b']:
            s.add((tuple(e['k']), 'b', frozenset((tuple(p[0]), p[1]) for p in e['blk'])))
        else:
            s.add((tuple(e['k']), 'i', e['v']))
    return s


# --------------------------------------------------------------------------
# the other helpers
# --------------------------------------------------------------------------
def call_format(names, lists, carrier='list'):
    import pmutt
    conv = {'list': list, 'tuple': tuple}[carrier]
    args = dict((n, conv(v)) for n, v in zip(names, lists))
    raised, out = '', []
    try:
        out = pmutt.format_conditions(**args)
    except Exception as ex:
        raised = type(ex).__name__
    proj = []
    if not isinstance(out, list) or not all(isinstance(d, dict) for d in out):
        raised, out = raised or 'NotAListOfDicts', []
    for d in out:
        proj.append([[str(k), int(v)] for k, v in d.items()])
    return {'ev': 'format', 'names': list(names), 'lists': [list(v) for v in lists],
            'after': [list(args[n]) for n in names], 'raised': raised, 'out': proj, 'carrier': carrier}


class _Obj:
    pass


def _documented_raises(fn):
    """sensor: exception class names listed in the Raises section of the docstring"""
    doc = fn.__doc__ or ''
    m = re.search(r'\n\s*Raises\s*\n\s*-+\s*\n(.*)$', doc, re.S)
    if not m:
        return []
    return re.findall(r'^\s*([A-Z]\w*(?:Error|Exception|Warning))\s*$', m.group(1), re.M)


def call_listdict(objs, attr):
    """objs: [{'has': bool, 'key': str}]; attr None = the default key ('name')"""
    import pmutt
    real = []
    for o in objs:
        x = _Obj()
        if o['has']:
            setattr(x, attr or 'name', o['key'])
        x.other = 'zz'
        real.append(x)
    held = list(real)
    raised, out = '', {}
    try:
        out = pmutt.pmutt_list_to_dict(real) if attr is None else pmutt.pmutt_list_to_dict(real, key=attr)
    except Exception as ex:
        raised = type(ex).__name__
    if not isinstance(out, dict):
        raised, out = raised or 'NotADict', {}
    proj = []
    for k, v in out.items():
        idx = [i + 1 for i, x in enumerate(held) if x is v]
        proj.append([str(k), idx[0] if idx else 0])
    intact = len(real) == len(held) and all(a is b for a, b in zip(real, held))
    return {'ev': 'listdict', 'objs': [{'has': bool(o['has']), 'key': str(o['key'])} for o in objs],
            'raised': raised, 'documented': _documented_raises(pmutt.pmutt_list_to_dict), 'out': proj,
            'intact': intact, 'attr': attr or 'default'}


def call_npop(q, op, verbose, carrier):
    import numpy as np
    import pmutt
    if carrier == 'list':
        obj = list(q)
    elif carrier == 'tuple':
        obj = tuple(q)
    elif carrier == 'int_array':
        obj = np.array(q, dtype=int)
    else:
        obj = np.array(q, dtype=float)
    raised, ret = '', None
    try:
        ret = pmutt._apply_numpy_operation(obj, op, verbose=verbose) if verbose is not None \
            else pmutt._apply_numpy_operation(obj, op)
    except Exception as ex:
        raised = type(ex).__name__
    same = ret is obj
    scalar, out = False, []
    if raised == '' and not same:
        try:
            if np.ndim(ret) == 0 and float(ret) == int(ret):
                scalar, out = True, [int(ret)]
            elif np.ndim(ret) == 1 and all(float(v) == int(v) for v in ret):
                out = [int(v) for v in ret]
        except Exception:
            pass
    return {'ev': 'npop', 'q': [int(v) for v in q], 'qafter': [int(v) for v in obj], 'op': op,
            'verbose': bool(verbose), 'raised': raised, 'same': bool(same), 'scalar': scalar, 'out': out,
            'carrier': carrier}


def _value_of_kind(kind):
    import numpy as np

    class IterObj:
        def __iter__(self):
            return iter([1])

    class GetItemObj:
        def __getitem__(self, i):
            if i > 1:
                raise IndexError
            return i
    return {'list': lambda: [1, 2], 'emptylist': lambda: [], 'tuple': lambda: (1, 2), 'set': lambda: {1},
            'dict': lambda: {'a': 1}, 'ndarray': lambda: np.array([1., 2.]), 'range': lambda: range(3),
            'generator': lambda: (x for x in [1]), 'iterobj': IterObj, 'getitemobj': GetItemObj,
            'int': lambda: 3, 'float': lambda: 2.5, 'none': lambda: None, 'object': object,
            'ndarray0': lambda: np.array(3.), 'npfloat': lambda: np.float64(2.), 'bool': lambda: True,
            'str': lambda: 'abc', 'emptystr': lambda: '', 'npstr': lambda: np.str_('ab'),
            'bytes': lambda: b'ab'}[kind]()


def call_iter(kind, f):
    import pmutt
    val = _value_of_kind(kind)
    try:
        if f == 'is_iterable':
            r = pmutt._is_iterable(val)
            res = 'true' if r is True else 'false' if r is False else 'other'
        else:
            r = pmutt._check_iterable_attr(val)
            if r is None:
                res = 'none'
            elif r is val:
                res = 'same'
            elif isinstance(r, list) and len(r) == 1 and r[0] is val:
                res = 'wrapped'
            else:
                res = 'other'
    except Exception as ex:
        res = 'raised ' + type(ex).__name__
    return {'ev': 'iter', 'f': f, 'kind': kind, 'res': res}


# --------------------------------------------------------------------------
# executing one case
# --------------------------------------------------------------------------
def _kwonly_names(shape):
    return set(p['n'] for p in shape['kwonly'])


def _row_equals(r, sup, want):
    """equality of discrete projections: recorded call vs an outcome record computed by TLC"""
    vals = dict(sup)
    return (r['raised'] == want['raised'] and r['calls'] == want['calls']
            and set(p[0] for p in r['got']) == set(want['got'])
            and set(p[0] for p in r['extra']) == set(want['extra'])
            and all(p[1] == vals.get(p[0]) for p in r['got'] + r['extra']))


def execute(case):
    """-> (events, mismatches, info).  events go to the trace specification; the out-of-quantifier
    parts of a case are executed for evidence only (info counters) and not logged."""
    kind = case['kind']
    ev, mism, info = [], [], {}

    def bump(key, n=1):
        info[key] = info.get(key, 0) + n

    if kind == 'route':
        sh = case['sh']
        doc = sh['kind'] in DOC_KINDS
        e = call_expected(sh)
        a = call_allowed(sh)
        if doc:
            ev += [e, a]
            if 'names' in case and (e['raised'] or set(e['names']) - {'self'} != set(case['names'])):
                mism.append({'clause': 'ReplayExpected', 'required': sorted(case['names']), 'got': e['names'],
                             'raised': e['raised'],
                             'asfound': bool(sh['kwonly']) and not e['raised']
                             and set(e['names']) - {'self'} == set(case['asfoundnames'])})
            if 'allowed' in case and (a['raised'] or a['res'] != case['allowed']):
                mism.append({'clause': 'ReplayAllowed', 'required': case['allowed'], 'got': a})
        else:
            bump('wide_shapes')
            if e['raised']:
                bump('wide_expected_raises_' + e['raised'])
        for row in case['rows']:
            fns = [row['fn']] if 'fn' in row else (
                ['pass'] + (['mode_quantity'] if sh['kind'] == 'method' else []) if row['mode'] == 'pass'
                else ['force'] + (['check_obj'] if sh['kind'] in ('class', 'bareclass') else []))
            sup = row['sup'] if row['sup'] and isinstance(row['sup'][0], list) else \
                [[n, VAL[n]] for n in sorted(row['sup'])]
            for fn in fns:
                r = call_route(sh, fn, sup)
                same = _row_equals(r, sup, row) if 'raised' in row else True
                if doc:
                    ev.append(r)
                    bump('route_calls')
                    supn = set(p[0] for p in sup)
                    unnamed = supn - set(p['n'] for p in sh['pos']) - _kwonly_names(sh)
                    if set(p['n'] for p in sh['pos'] + sh['kwonly'] if not p['d']) - supn:
                        bump('route_mandatory_missing')
                    if unnamed and sh['varkw'] and fn in ('force', 'check_obj'):
                        bump('route_unnamed_to_varkw')
                    if supn & _kwonly_names(sh):
                        bump('route_kwonly_supplied')
                    if unnamed:
                        bump('route_unnamed_supplied')
                    if not same:
                        mism.append({'clause': 'ReplayRoute', 'fn': fn, 'sup': sup,
                                     'required': {k: row[k] for k in ('raised', 'got', 'extra', 'calls')},
                                     'got': {k: r[k] for k in ('raised', 'got', 'extra', 'calls')},
                                     'asfound': bool(sh['kwonly']) and _row_equals(r, sup, row['asfound'])})
                else:
                    bump('wide_route_calls')
                    if not same:
                        bump('wide_route_calls_diverging')
                        bump('wide_route_raises_' + (r['raised'] or 'none'))
        if doc and case.get('repeat') and case['rows']:
            row = case['rows'][-1]
            sup = row['sup'] if row['sup'] and isinstance(row['sup'][0], list) else \
                [[n, VAL[n]] for n in sorted(row['sup'])]
            fn = row.get('fn') or ('pass' if row['mode'] == 'pass' else 'force')
            ev.append(call_route(sh, fn, sup))
            ev.append(call_route(sh, fn, sup))
        if doc and case.get('passthrough'):
            ev.append(call_passthrough(sh, [['a', 1], ['zz', 2]]))
            bump('passthrough_calls')
    elif kind == 'mode_missing':
        ev.append(call_mode_missing(case['raise_error'], case['raise_warning'], case['default'], case['sup']))
        bump('mode_missing_calls')
    elif kind == 'specie':
        d = dict(_entry_to_py(e) for e in case['kw'])
        name = uncodes(case['name'])
        e1 = call_specie(d, name)
        if case['doc']:
            ev.append(e1)
            ev.append(call_specie(d, name))          # the same call again on the same dictionary
            own = name + '_kwargs'
            bump('specie_calls')
            if own in d and d[own]:
                bump('specie_own_block')
                if set(d[own]) & set(k for k in d if not k.endswith('_kwargs')):
                    bump('specie_block_overrides')
            if any(k.endswith('_kwargs') and k != own and d[k] for k in d):
                bump('specie_foreign_block')
            if any(k != own and (k.startswith(name) or name in k) and k.endswith('_kwargs') for k in d):
                bump('specie_similar_names')
        else:
            bump('wide_specie_calls')
        if 'exp' in case:
            same = e1['raised'] == '' and _norm_out_entries(e1['out']) == _norm_exp_pairs(case['exp'])
            if case['doc'] and not same:
                mism.append({'clause': 'ReplaySpecie', 'name': name, 'kw': repr(d), 'got': repr(e1['out'])})
            if not case['doc'] and not same:
                bump('wide_specie_calls_diverging')
    elif kind == 'format':
        e1 = call_format(case['names'], case['lists'], case.get('carrier', 'list'))
        if case['doc']:
            ev.append(e1)
            ev.append(call_format(case['names'], case['lists'], case.get('carrier', 'list')))
            bump('format_calls')
            if len(case['names']) >= 2 and case['lists'] and len(case['lists'][0]) >= 2:
                bump('format_multi')
        else:
            bump('ragged_format_calls')
        if 'exp' in case:
            got = [frozenset((k, v) for k, v in run) for run in e1['out']]
            req = [frozenset((k, v) for k, v in run) for run in case['exp']]
            same = e1['raised'] == '' and got == req
            if case['doc'] and not same:
                mism.append({'clause': 'ReplayFormat', 'required': case['exp'], 'got': e1['out'], 'raised': e1['raised']})
            if not case['doc']:
                bump('ragged_format_calls_agreeing_with_model' if same else 'ragged_format_calls_diverging')
    elif kind == 'listdict':
        e1 = call_listdict(case['objs'], case.get('attr'))
        ev.append(e1)
        bump('listdict_calls')
        keys = [o['key'] for o in case['objs'] if o['has']]
        if all(o['has'] for o in case['objs']):
            if len(set(keys)) < len(keys):
                bump('listdict_repeated_key')
        else:
            bump('listdict_missing_attribute')
        if 'order' in case and not case['raises']:
            if e1['raised'] or [p[0] for p in e1['out']] != list(case['order']):
                mism.append({'clause': 'ReplayDict', 'required_order': case['order'], 'got': e1['out'],
                             'raised': e1['raised']})
            bump('listdict_last_wins_agrees_with_model' if [list(p) for p in case['last']] == e1['out']
                 else 'listdict_last_wins_differs_from_model')
    elif kind == 'npop':
        for verbose in case.get('verbose', [False, True, None]):
            e1 = call_npop(case['q'], case['op'], verbose, case.get('carrier', 'list'))
            ev.append(e1)
            bump('npop_calls')
            if verbose:
                bump('npop_verbose')
            if 'exp' in case and not verbose:
                if e1['raised'] or e1['out'] != [case['exp']] or not e1['scalar']:
                    mism.append({'clause': 'ReplayNp', 'required': case['exp'], 'got': e1})
    elif kind == 'iter':
        e1 = call_iter(case['kind_of_value'], 'is_iterable')
        e2 = call_iter(case['kind_of_value'], 'check_attr')
        if case['doc']:
            ev.append(e1)
            bump('iter_calls')
            if e1['res'] != ('true' if case['iterable'] else 'false'):
                mism.append({'clause': 'ReplayIter', 'required': case['iterable'], 'got': e1['res']})
        else:
            bump('wide_iter_kinds')
        if case['attrdoc']:
            ev.append(e2)
            bump('attr_calls')
            if e2['res'] != case['attr']:
                mism.append({'clause': 'ReplayAttr', 'required': case['attr'], 'got': e2['res']})
        else:
            bump('wide_attr_kinds_' + e2['res'].split()[0])
    else:
        raise core.MachineryError('unknown case kind %r' % (kind,))
    return ev, mism, info


def _safe_execute(case):
    try:
        return execute(case)
    except core.MachineryError:
        raise
    except Exception as ex:
        raise core.MachineryError('driver failed on case %r: %s: %s' % (
            {k: case[k] for k in case if k != 'rows'}, type(ex).__name__, ex))


# --------------------------------------------------------------------------
# cases
# --------------------------------------------------------------------------
def _tlc_cases(raw):
    cases = []
    for k, c in enumerate(raw['route']):
        cases.append({'kind': 'route', 'cid': 'tr%d' % k, 'src': 'tlc', 'sh': c['sh'], 'names': c['names'],
                      'asfoundnames': c['asfoundnames'], 'allowed': c['allowed'], 'rows': c['rows'],
                      'passthrough': k % 7 == 0, 'repeat': k % 5 == 0})
    for k, c in enumerate(raw['routewide']):
        cases.append({'kind': 'route', 'cid': 'tw%d' % k, 'src': 'tlc', 'sh': c['sh'], 'names': c['names'],
                      'asfoundnames': c['asfoundnames'], 'allowed': c['allowed'], 'rows': c['rows']})
    for k, c in enumerate(raw['specie']):
        cases.append({'kind': 'specie', 'cid': 'ts%d' % k, 'src': 'tlc', 'kw': c['kw'], 'name': c['name'],
                      'doc': c['doc'], 'exp': c['exp']})
    for k, c in enumerate(raw['format']):
        cases.append({'kind': 'format', 'cid': 'tf%d' % k, 'src': 'tlc', 'names': c['names'], 'lists': c['lists'],
                      'doc': c['doc'], 'exp': c['exp'], 'carrier': ('list', 'tuple')[k % 2]})
    for k, c in enumerate(raw['listdict']):
        cases.append({'kind': 'listdict', 'cid': 'td%d' % k, 'src': 'tlc', 'objs': c['objs'], 'raises': c['raises'],
                      'order': c['order'], 'last': c['last'], 'attr': (None, 'label', 'name')[k % 3]})
    for k, c in enumerate(raw['npop']):
        cases.append({'kind': 'npop', 'cid': 'tn%d' % k, 'src': 'tlc', 'q': c['q'], 'op': c['op'], 'exp': c['exp'],
                      'carrier': ('list', 'int_array', 'float_array', 'tuple')[k % 4]})
    for k, c in enumerate(raw['iter']):
        cases.append({'kind': 'iter', 'cid': 'ti%d' % k, 'src': 'tlc', 'kind_of_value': c['kind'],
                      'iterable': c['iterable'], 'doc': c['doc'], 'attrdoc': c['attrdoc'], 'attr': c['attr']})
    return cases


PARAM_POOL = ('T', 'P', 'V', 'n', 'Ts', 'units', 'x', 'mass', 'model', 'vib_wavenumbers', 'a_low', 'k')
JUNK_POOL = ('junk', 'notes', 'phase', 'T_ref', 'kwargs', 'verbose')
SPECIES_POOL = ('H2', 'H2O', 'H2O2', 'O2', 'CO2', 'CO', 'O', 'OH', 'H', 'kwargs', 'H2_kwargs', 'a', 'ab', 'ba',
                'CH3OH(S)', 'x_kwargs_y', 'kw', 'args')
GLOBAL_POOL = ('T', 'P', 'V', 'n', 'Ts', 'units', 'x', 'raise_error', 'include_ZPE')


def _random_shape(rnd):
    names = rnd.sample(PARAM_POOL, rnd.randint(0, 7))
    npos = rnd.randint(0, min(4, len(names)))
    pos_names, kw_names = names[:npos], names[npos:npos + rnd.randint(0, 3) * (rnd.random() < 0.6)]
    ndef = rnd.randint(0, len(pos_names))
    pos = [{'n': n, 'd': i >= len(pos_names) - ndef} for i, n in enumerate(pos_names)]
    kwonly = [{'n': n, 'd': rnd.random() < 0.6} for n in kw_names]
    return {'kind': rnd.choice(DOC_KINDS), 'pos': pos, 'kwonly': kwonly,
            'varargs': rnd.random() < 0.3, 'varkw': rnd.random() < 0.35}


def _random_route_case(rnd, cid):
    sh = _random_shape(rnd)
    named = [p['n'] for p in sh['pos'] + sh['kwonly']]
    rows = []
    for _ in range(8):
        pool = list(PARAM_POOL) + list(JUNK_POOL)
        r = rnd.random()
        if r < 0.35:                                   # everything the signature names, and more
            keys = named + rnd.sample([p for p in pool if p not in named], rnd.randint(0, 3))
        elif r < 0.5:
            keys = list(named)
        else:
            keys = rnd.sample(pool, rnd.randint(0, 8))
        rnd.shuffle(keys)
        fns = ['pass', 'force']
        if sh['kind'] == 'class':
            fns.append('check_obj')
        if sh['kind'] == 'method':
            fns.append('mode_quantity')
        rows.append({'fn': rnd.choice(fns), 'sup': [[k, rnd.randint(-50, 50)] for k in keys]})
    return {'kind': 'route', 'cid': cid, 'src': 'random', 'sh': sh, 'rows': rows,
            'passthrough': rnd.random() < 0.2, 'repeat': rnd.random() < 0.2}


def _random_specie_case(rnd, cid):
    names = rnd.sample(SPECIES_POOL, rnd.randint(1, 4))
    kw = []
    for g in rnd.sample(GLOBAL_POOL, rnd.randint(0, 4)):
        kw.append({'k': codes(g), 'b': False, 'v': rnd.randint(0, 900), 'blk': []})
    for n in names:
        if rnd.random() < 0.75:
            blk = [[codes(g), rnd.randint(0, 900)] for g in rnd.sample(GLOBAL_POOL, rnd.randint(0, 3))]
            kw.append({'k': codes(n + '_kwargs'), 'b': True, 'v': 0, 'blk': blk})
    rnd.shuffle(kw)
    ask = rnd.choice(names) if rnd.random() < 0.8 else rnd.choice(SPECIES_POOL)
    return {'kind': 'specie', 'cid': cid, 'src': 'random', 'kw': kw, 'name': codes(ask), 'doc': True}


def _random_format_case(rnd, cid):
    names = rnd.sample(GLOBAL_POOL + ('kwargs', 'cond_name'), rnd.randint(0, 5))
    n = rnd.choice([0, 1, 2, 3, 5, 8])
    return {'kind': 'format', 'cid': cid, 'src': 'random', 'names': names, 'doc': True,
            'lists': [[rnd.randint(-5, 2000) for _ in range(n)] for _ in names],
            'carrier': rnd.choice(['list', 'tuple'])}


def _random_listdict_case(rnd, cid):
    pool = rnd.sample(SPECIES_POOL, rnd.randint(1, 6))
    n = rnd.choice([0, 1, 2, 3, 5, 8])
    objs = [{'has': True, 'key': rnd.choice(pool)} for _ in range(n)]
    if n and rnd.random() < 0.12:
        objs[rnd.randrange(n)] = {'has': False, 'key': ''}
    return {'kind': 'listdict', 'cid': cid, 'src': 'random', 'objs': objs, 'attr': rnd.choice([None, None, 'id', 'name'])}


def _random_npop_case(rnd, cid):
    n = rnd.randint(0, 6)
    op = rnd.choice(['sum', 'prod', 'sum', 'prod', 'max', 'min'])
    if op in ('max', 'min'):
        n = max(n, 1)
    return {'kind': 'npop', 'cid': cid, 'src': 'random', 'q': [rnd.randint(-9, 12) for _ in range(n)], 'op': op,
            'carrier': rnd.choice(['list', 'tuple', 'int_array', 'float_array'])}


def _mode_missing_cases():
    out = []
    for re_ in (True, False):
        for rw in (True, False):
            for dv in (0., 2.5, 7):
                for sup in ([], [['T', 300]]):
                    out.append({'kind': 'mode_missing', 'cid': 'mm%d' % len(out), 'src': 'grid', 'raise_error': re_,
                                'raise_warning': rw, 'default': dv, 'sup': sup})
    return out


AS_FOUND_TAG = 'AsFoundArgcountRule'


def _tags(case, evs, asfound=None):
    """tags for the known-finding matchers.  blame=kwonly: every failing observation of this clause in this case
    is exactly what the rule as found does on a signature with keyword-only parameters (decided by TLC: the
    `asfound` rows of MC_Helpers_cases / the AsFoundArgcountRule tag of Trace_Helpers)"""
    t = {'topic': case['kind'], 'src': case.get('src', '')}
    if case['kind'] == 'route':
        t['blame'] = 'kwonly' if asfound else 'other'
    if case['kind'] == 'listdict' and evs:
        t['raised'] = evs[0].get('raised', '')
        t['documented'] = ','.join(evs[0].get('documented', []))
    return t


NEEDED = ('route_calls', 'route_mandatory_missing', 'route_unnamed_to_varkw', 'route_kwonly_supplied',
          'route_unnamed_supplied', 'passthrough_calls', 'mode_missing_calls', 'specie_calls',
          'specie_own_block', 'specie_block_overrides', 'specie_foreign_block', 'specie_similar_names',
          'format_calls', 'format_multi', 'listdict_calls', 'listdict_repeated_key',
          'listdict_missing_attribute', 'npop_calls', 'npop_verbose', 'iter_calls', 'attr_calls')

EXPECT_REJECTED = (('MC_Helpers_argcount', 'the rule as found (co_varnames[:co_argcount]) on keyword-only parameters'),
                   ('MC_Helpers_raisesdoc', 'the docstring of pmutt_list_to_dict as found (KeyError) against the '
                                            'AttributeError that is raised'))
EXPECT_REJECTED_MORE = (('MC_Helpers_wide', 'functools.partial / __call__ objects / classes without __init__ '
                                            '(outside the documented "function or class")'),
                        ('MC_Helpers_specie_wide', "ordinary keywords containing 'kwargs' (outside the quantifier)"),
                        ('MC_Helpers_truncate', 'zip-to-shortest on ragged lists'),
                        ('MC_Helpers_startswith', 'block matched by key.startswith(name)'),
                        ('MC_Helpers_contains', 'block matched by name in key'),
                        ('MC_Helpers_inblock', "caller's block updated in place"),
                        ('MC_Helpers_droplast', 'expected arguments lose their last name'),
                        ('MC_Helpers_nostrtest', '_is_iterable without the string test'))
EXPECT_OK_MORE = ('MC_Helpers_specie_suffix', 'MC_Helpers_ragged', 'MC_Helpers_first')


def _models(ctx):
    import concurrent.futures as cf
    jobs = [('MC_Helpers' if ctx.quick else 'MC_Helpers_thorough', True, ''), ('MC_Helpers_nokwonly', True, '')]
    jobs += [(c, False, why) for c, why in EXPECT_REJECTED]
    if not ctx.quick:
        jobs += [(c, False, why) for c, why in EXPECT_REJECTED_MORE] + [(c, True, '') for c in EXPECT_OK_MORE]
    w = max(2, core.NCPU // min(len(jobs), 4))
    with cf.ThreadPoolExecutor(max_workers=4) as ex:
        res = list(ex.map(lambda j: ctx.model('MC_Helpers', j[0], workers=w, expect_ok=False), jobs))
    for (cfg, ok, why), r in zip(jobs, res):
        if ok and not r.ok:
            raise core.MachineryError('design model MC_Helpers/%s failed:\n%s' % (cfg, r.out[-3000:]))
        if not ok:
            if r.ok or r.violated is None:
                raise core.MachineryError('%s should be rejected by the design model (%s):\n%s'
                                          % (cfg, why, r.out[-2000:]))
            ctx.notes.append('design model rejects %s: %s violated (%s)' % (why, r.violated, cfg))


def run(ctx):
    ctx.coverage['rule'] = (
        'a case is one input of one helper: a signature shape (kind function/bound method/class; 0-4 positional '
        'parameters with/without defaults, 0-3 keyword-only parameters, *args, **kwargs) with a set of supplied '
        'keywords routed through _pass_expected_arguments/_force_pass_arguments/_check_obj/_get_mode_quantity and '
        'seen by _get_expected_arguments/_kwargs_allowed; a dictionary of ordinary keywords and <name>_kwargs blocks '
        'with a species name for _get_specie_kwargs; equal-length condition lists for format_conditions; an object '
        'list for pmutt_list_to_dict; a small integer array with an operation for _apply_numpy_operation; a kind of '
        'value for _is_iterable/_check_iterable_attr.  Cases are the complete TLC case sets of MC_Helpers_cases '
        '(required results computed by TLC) plus seeded random draws from the same quantifier with larger '
        'signatures/dictionaries; distinct by input; non-trivial = at least one keyword supplied / one block / two '
        'runs / two objects / two elements')
    if ctx.replay_case is not None:
        cases = [ctx.replay_case['case']]
    else:
        # (D) the design models do not depend on the tree: they run beside the replay and are joined at the end
        import concurrent.futures as cf
        pool = cf.ThreadPoolExecutor(max_workers=1)
        models = pool.submit(_models, ctx)
        raw, _ = core.tlc_cases('MC_Helpers_cases', 'MC_Helpers_cases' if ctx.quick else 'MC_Helpers_cases_big')
        cases = _tlc_cases(raw)
        ctx.coverage['tlc_cases'] = {k: len(v) for k, v in raw.items()}
        rnd = random.Random(ctx.seed)
        for k in range(ctx.pick(400, 6000)):
            cases.append(_random_route_case(rnd, 'rr%d' % k))
        for k in range(ctx.pick(1200, 20000)):
            cases.append(_random_specie_case(rnd, 'rs%d' % k))
        for k in range(ctx.pick(400, 5000)):
            cases.append(_random_format_case(rnd, 'rf%d' % k))
        for k in range(ctx.pick(400, 5000)):
            cases.append(_random_listdict_case(rnd, 'rd%d' % k))
        for k in range(ctx.pick(300, 4000)):
            cases.append(_random_npop_case(rnd, 'rn%d' % k))
        cases += _mode_missing_cases()
    results = core.pmap(_safe_execute, cases)
    traces, totals = [], {}
    for tid, (case, (events, mism, info)) in enumerate(zip(cases, results)):
        ctx.evaluated()
        if _nontrivial(case):
            ctx.nontrivial(_signature(case))
        for m in mism:
            ctx.violation(m['clause'], case, tags=_tags(case, events, m.get('asfound')), detail=m)
        for key, val in info.items():
            totals[key] = totals.get(key, 0) + val
        traces.append((tid, events))
        if (case.get('src') == 'tlc' and tid % 997 == 0) or (case.get('src') == 'random' and tid % 499 == 0):
            ctx.sample({k: v for k, v in case.items() if k != 'rows'}, cap=8)
    ctx.coverage['exercised'] = totals
    fails, stats = core.validate_traces('Trace_Helpers', 'Trace', traces)
    ctx.count('traces_validated_against_impl', len([t for t in traces if t[1]]))
    ctx.coverage['trace_lines'] = stats['lines']
    explained = set((tid, idx) for tid, idx, clause in fails if clause == AS_FOUND_TAG)
    by_case = {}
    for tid, idx, clause in fails:
        if clause != AS_FOUND_TAG:
            by_case.setdefault((tid, clause), []).append(idx)
    for (tid, clause), idxs in sorted(by_case.items()):
        evs = [results[tid][0][i] for i in idxs]
        ctx.violation(clause, cases[tid],
                      tags=_tags(cases[tid], evs, all((tid, i) in explained for i in idxs)),
                      detail={'event_indices': idxs[:10], 'first_event': evs[0]})
    if ctx.replay_case is None:
        models.result()                      # raises MachineryError if a design model misbehaved
        pool.shutdown()
        missing = [k for k in NEEDED if not totals.get(k)]
        if missing:
            raise core.MachineryError('vacuity guard: never exercised: %s' % ', '.join(missing))
    ctx.assume('callables are plain Python functions, bound methods and classes with a Python __init__ (the documented '
               '"function or class" and what _get_mode_quantity hands over); functools.partial objects, instances with '
               '__call__, decorated wrappers, classes without __init__ and positional-only parameters are outside the '
               'documentation (replayed as evidence, not judged); supplied keywords do not use the helpers\' own '
               'parameter names (fn, obj, mode, method_name, raise_error, raise_warning, default_value, specie_name)')
    ctx.assume('_get_specie_kwargs: block keys are exactly "<name>_kwargs" holding dictionaries of ordinary keywords; '
               'ordinary keywords do not contain "kwargs" (the code drops any key containing it); the block of the '
               'species overrides the ordinary keywords')
    ctx.assume('format_conditions is judged on lists of one length ("each index corresponds to a run"); '
               'pmutt_list_to_dict keeps the list order of first occurrences and, for a repeated key, some object '
               'carrying that key (which one is not documented); a missing attribute raises what the docstring lists')
    ctx.assume('_apply_numpy_operation with sum/prod/max/min on integer-valued arrays (exact); _check_iterable_attr on '
               'the documented "list or non-iterable object" (None, lists, scalars, strings, plain objects)')


def _nontrivial(case):
    k = case['kind']
    if k == 'route':
        return any(r['sup'] for r in case['rows'])
    if k == 'specie':
        return any(e['b'] for e in case['kw'])
    if k == 'format':
        return len(case['names']) >= 1 and len(case['lists'][0]) >= 2
    if k == 'listdict':
        return len(case['objs']) >= 2
    if k == 'npop':
        return len(case['q']) >= 2
    return True


def _signature(case):
    return {k: v for k, v in case.items() if k not in ('cid', 'src')}


if __name__ == '__main__':
    core.main('X04', 'model_checking', run)
