"""X09 - Observers: evaluation calls of pMuTT objects are pure observers (extra specification module).

(D)    spec/Observers.tla: one model object as a state machine (content, the CALLER's argument store, a
       private cache / memo, ghost `seen`) with Mutate / Eval / CallerWrite; the property as action
       properties (ArgsUntouched, StateUntouched, Repeatable, NoHiddenState, FreshAfterMutation,
       ArrayIsMapOfScalar, IntEqualsFloat).  Shapes "pure" and "cache with every field keyed" are accepted;
       six implementation-shaped deviations are REJECTED, each by its own cfg and by the clause it breaks.
(S->C) every behaviour of MC_Observers_beh.cfg (+ -simulate behaviours) is stepped through the real
       classes of harness/lib_x09.py: abstract fields -> documented attributes / edits, methods -> documented
       evaluations, temperature ids -> whole-number temperatures in the dtype kind TLC chose.  Per step the
       equality classes TLC computed (result same as a fresh object's / arguments same / state same) must
       EQUAL what the real object shows.  Classes that fail this are replayed against the behaviours of the
       stale-cache shape (MC_Observers_stale*_beh.cfg) and must then match THAT shape exactly.
(C->S) the same runs plus seeded random call histories (random mutators, evaluations in every dtype kind,
       repeated and re-used caller objects, caller writes) are recorded as NDJSON and judged line by line
       by spec/Trace_Observers.tla.
"""
import copy
import json
import os
import random

from harness import core
from harness import lib_x09 as L

SHARDS = int(os.environ.get('VERIF_X09_SHARDS', '0') or 0) or None
WORKERS = int(os.environ.get('VERIF_X09_WORKERS', '0') or 0) or core.NCPU
PAR = int(os.environ.get('VERIF_X09_PAR', '0') or 0) or 4                 # TLC runs at a time
MODEL_WORKERS = min(4, WORKERS)
ONLY = [c for c in os.environ.get('VERIF_X09_CLASSES', '').split(',') if c]   # development aid
REJECTED = [('stalefield', 'FreshAfterMutation'), ('lastcall', 'Repeatable'), ('memoid', 'Repeatable'),
            ('inplace', 'ArgsUntouched'), ('intbuffer', 'IntEqualsFloat'), ('scratch', 'StateUntouched')]


# ----------------------------------------------------------------------------------------------------
# (S->C) replay of one TLC behaviour into one class
# ----------------------------------------------------------------------------------------------------
def _slot_ops(b, sess, slot, v):
    """Abstract assignment field := v  ->  list of (opname, args) on the real object."""
    cn = sess.content
    if b.name == 'PiecewiseCovEffect':
        mv = b.model_values
        x, s = mv['EXTRA']
        has = x in cn['intervals']
        if slot == '#structure':
            if v == 2:
                return ([('pop', (cn['intervals'].index(x),))] if has else []) + [('insert', (x, s))]
            return ([] if has else [('insert', (x, s))]) + [('pop', (len(cn['intervals']) if not has
                                                                     else cn['intervals'].index(x),))]
        if slot == 'slopes':
            return [('set:slopes', (list(mv['SL'][v - 1]) + ([s] if has else []),))]
        return [('set:intervals', (list(mv['IV'][v - 1]) + ([x] if has else []),))]
    if b.name == 'References':
        if slot == '#fit':
            return [('fit', ())]
        return [('append', (('CH4', 'CO2')[v - 1],))]
    vals = b.attrs[slot]
    return [('set:' + slot, (copy.deepcopy(vals[(v - 1) % len(vals)]),))]


def _model_value(ev, kind, t):
    pool = ev.pool_int
    if ev.argname == 'x':                                    # coverage: whole numbers only for integer kinds
        return 1 if kind in L.INT_KINDS else ev.pool_flt[(t - 1) % 3]
    return pool[(t - 1) % len(pool)]


NO_LIST = ('get_H', 'get_G', 'get_U', 'get_F')    # value * T: documented for float / ndarray only


def _kind_for(ev, kind):
    if ev.argname is None:
        return 'none'
    if kind == 'list' and ev.method in NO_LIST:
        kind = 'farr'
    if ev.array_only:
        return {'sflt': 'farr', 'sint': 'iarr'}.get(kind, kind)
    if not ev.array:
        return {'farr': 'sflt', 'list': 'sflt', 'iarr': 'sint'}.get(kind, kind)
    return kind


def replay(case):
    R = L.registry()
    b = R[case['cls']]
    beh = case['beh']
    idx = case['idx']
    shape = case['shape']
    sess = L.Session(b)
    slots = b.slots
    nf = case['nf']
    first = beh[0]
    # initial content: the abstract values of the fields, applied to the content before construction
    if slots:
        for i in range(1, nf + 1):
            slot = slots[(i - 1) % len(slots)]
            if slot.startswith('#'):
                continue
            for op, args in _slot_ops(b, sess, slot, first['content'][i - 1]):
                sess.model_only(op, args)
    sess.construct()
    if slots:
        for i in range(1, nf + 1):
            slot = slots[(i - 1) % len(slots)]
            if slot == '#structure' and first['content'][i - 1] == 2:      # structural part of the content
                for op, args in _slot_ops(b, sess, slot, 2):
                    sess.mutate(op, args)
    if b.stale and shape == 'stale':
        evs = [e for e in b.evals if e.tag in b.stale['methods'] or e.method in b.stale['methods']]
    else:
        evs = b.evals
    pick = {m: evs[(idx * 2 + m) % len(evs)] for m in (1, 2)}
    abstract = {}                                            # ref -> (val, kind)
    for r, a in first['store'].items():
        abstract[r] = (list(a['val']), a['kind'])
    mism, infos = [], {}

    def bind(r, ev):
        """(Re)create the caller's object behind ref r for the argument pool of this evaluation."""
        val, kind = abstract[r]
        k2 = _kind_for(ev, kind)
        ts = [_model_value(ev, k2, t) for t in val]
        if k2 not in L.ARRAY_KINDS:
            ts = ts[:1]
        tagk = (ev.argname, k2, tuple(ts))
        if sess.store.get(('tag', r)) != tagk:
            new = L.make_arg(k2, ts, idx) if k2 != 'none' else None
            old = sess.store.get(r)
            if hasattr(old, 'shape') and hasattr(new, 'shape') and old.shape == new.shape and old.dtype == new.dtype \
                    and old.ndim:
                old[...] = new                               # the caller rewrites ITS object: same identity
            else:
                sess.store[r] = new
            sess.store[('tag', r)] = tagk
        return k2

    for step, rec in enumerate(beh[1:], start=1):
        act = rec['act']
        if act == 'mutate':
            if not slots:
                continue
            slot = slots[(rec['i'] - 1) % len(slots)]
            for op, args in _slot_ops(b, sess, slot, rec['v']):
                sess.mutate(op, args)
        elif act == 'write':
            abstract[rec['r']] = (list(rec['arg']['val']), rec['arg']['kind'])
            sess.store.pop(('tag', rec['r']), None)
            sess.events.append({'ev': 'write', 'cls': b.name})
        elif act == 'eval':
            ev = pick[rec['m']]
            k2 = bind(rec['r'], ev)
            e, info, flags = sess.evaluate(ev, k2, ref=rec['r'] if k2 != 'none' else None, flavour=idx)
            infos[len(sess.events) - 1] = info
            want = {'same': rec['same'], 'argsame': rec['argsame'], 'statesame': rec['statesame']}
            got = {k: flags[k] for k in want}
            if flags['raised'] or got != want:
                mism.append({'step': step, 'event': len(sess.events) - 1, 'want': want, 'got': got,
                             'raised': info.get('raised'), 'info': info})
        else:
            raise core.MachineryError('unknown step %r' % (rec,))
    return sess.events, mism, infos


# ----------------------------------------------------------------------------------------------------
# (C->S) seeded random call histories
# ----------------------------------------------------------------------------------------------------
def _pick_temps(rnd, ev, kind):
    if kind in L.INT_KINDS:
        pool = ev.pool_int
    else:
        pool = ev.pool_flt + ev.pool_int if rnd.random() < 0.6 else ev.pool_int
    n = rnd.choice([1, 2, 2, 3, 4]) if kind in L.ARRAY_KINDS else 1
    return [rnd.choice(pool) for _ in range(n)]


def _kinds(ev):
    if ev.argname is None:
        return ['none']
    if ev.array_only:
        return list(L.ARRAY_KINDS)
    if ev.array and ev.method in NO_LIST:
        return [k for k in L.KINDS if k != 'list']
    return list(L.KINDS) if ev.array else ['sint', 'sflt']


def random_history(case):
    R = L.registry()
    b = R[case['cls']]
    rnd = random.Random(case['seed'])
    sess = L.Session(b)
    # a random initial content reached through the model side only
    for attr, vals in b.attrs.items():
        if rnd.random() < 0.5:
            sess.model_only('set:' + attr if 'set:' + attr not in b.ops else 'set:' + attr,
                            (copy.deepcopy(rnd.choice(vals)),))
    sess.construct()
    infos = {}
    past = []                                                # (ev, kind, temps, flavour) evaluated before
    refs = {}                                                # ref -> (ev.argname, kind, temps)
    mutators = ['set:' + a for a in b.attrs if 'set:' + a not in b.ops] + list(b.ops)
    for _ in range(case['steps']):
        r = rnd.random()
        if r < 0.26 and mutators:
            op = rnd.choice(mutators)
            if op in b.ops:
                args = b.ops[op][0](rnd, sess.content)
            else:
                vals = b.attrs[op[4:]]
                args = (copy.deepcopy(rnd.choice(vals)),)
            sess.mutate(op, args)
        elif r < 0.34 and refs:
            ref = rnd.choice(sorted(refs))
            an, kind, temps = refs[ref]
            ev = next(e for e in b.evals if e.argname == an)
            temps = _pick_temps(rnd, ev, kind) if rnd.random() < 0.5 else \
                [rnd.choice(ev.pool_int) for _ in temps]
            sess.write(ref, kind, temps, flavour=case['seed'])
            refs[ref] = (an, kind, temps)
        else:
            mode = rnd.random()
            if mode < 0.35 and past:                         # the same call again
                ev, kind, temps, fl = rnd.choice(past)
                e, info, _ = sess.evaluate(ev, kind, temps, flavour=fl)
            elif mode < 0.55 and refs:                       # a caller-owned object passed again
                ref = rnd.choice(sorted(refs))
                an, kind, temps = refs[ref]
                cands = [e for e in b.evals if e.argname == an and kind in _kinds(e)
                         and set(temps) <= set(e.pool_int + e.pool_flt)]
                if not cands:
                    continue
                ev = rnd.choice(cands)
                e, info, _ = sess.evaluate(ev, kind, ref=ref)
                if e['aa'] != e['ab']:                       # keep our own picture of the object honest
                    refs.pop(ref)
            else:
                ev = rnd.choice(b.evals)
                kind = rnd.choice(_kinds(ev))
                temps = _pick_temps(rnd, ev, kind) if kind != 'none' else []
                fl = rnd.randrange(4)
                if kind != 'none' and rnd.random() < 0.3:
                    ref = 'r%d' % len(refs)
                    sess.store[ref] = L.make_arg(kind, temps, fl)
                    refs[ref] = (ev.argname, kind, temps)
                    e, info, _ = sess.evaluate(ev, kind, ref=ref)
                else:
                    e, info, _ = sess.evaluate(ev, kind, temps, flavour=fl)
                    past.append((ev, kind, temps, fl))
            infos[len(sess.events) - 1] = info
    return sess.events, [], infos


def execute(case):
    try:
        if case['kind'] == 'replay':
            return replay(case)
        return random_history(case)
    except core.MachineryError:
        raise
    except Exception as ex:                                   # a failure of the driver itself
        import traceback
        return None, traceback.format_exc()[-1500:], {}


# ----------------------------------------------------------------------------------------------------
def _split(r, cfg, strict=False):
    if strict and r.rc != 0:
        raise core.MachineryError('behaviour generation failed (%s):\n%s' % (cfg, r.out[-2000:]))
    chunks = r.out.split('<< "BEH"')[1:]
    if not chunks:
        raise core.MachineryError('no behaviours printed by %s:\n%s' % (cfg, r.out[-2000:]))
    return ['<< "BEH"' + ch for ch in chunks]


def _parse(chunk):
    return core.parse_tla(chunk)[1]


def _tags(case, info):
    t = {'cls': case['cls'], 'case': case['kind']}
    if info:
        t.update({'method': info['method'], 'kind': info['kind'], 'dtype': info['dtype'], 'unref': info['unref']})
    return t


def run(ctx):
    ctx.coverage['rule'] = (
        'a case is one call history on one class of harness/lib_x09.py: either a TLC behaviour of '
        'Observers.tla (exhaustive small graph / -simulate) mapped to documented attributes, evaluations and '
        'dtype kinds, or a seeded random history (mutators, evaluations in the five argument kinds, repeated '
        'calls, re-used and rewritten caller objects); non-trivial = contains at least one evaluation after a '
        'mutator or a repeated key; distinct by (class, kind of case, behaviour / seed)')
    R = L.registry()
    classes = sorted(c for c in R if not ONLY or c in ONLY)
    rnd = random.Random(ctx.seed)
    cases = []
    if ctx.replay_case is not None:
        cases = [ctx.replay_case['case']]
    else:
        # ---- (D) design model and (S->C) behaviour generation: independent TLC runs, a few at a time
        nsim = ctx.pick(400, 6000)
        sim_extra = lambda num, seed: ['-simulate', 'num=%d' % num, '-depth', '10', '-seed', str(seed)]
        accepted = ['MC_Observers', 'MC_Observers_cache_ok'] if ctx.quick else \
            ['MC_Observers_thorough', 'MC_Observers_cache_ok_thorough']
        jobs = [('model', cfg, MODEL_WORKERS, ()) for cfg in accepted]
        jobs += [('model', 'MC_Observers_' + name, 1, ()) for name, _ in REJECTED]
        jobs += [('beh', 'MC_Observers_beh', 1, ()), ('beh', 'MC_Observers_stale_beh', 1, ()),
                 ('beh', 'MC_Observers_stale2_beh', 1, ()),
                 ('beh', 'MC_Observers_sim', 1, sim_extra(nsim, ctx.seed + 1)),
                 ('beh', 'MC_Observers_stale_sim', 1, sim_extra(nsim // 4, ctx.seed + 2))]
        import concurrent.futures as cf
        with cf.ThreadPoolExecutor(max_workers=PAR) as ex:
            outs = list(ex.map(lambda jb: core.run_tlc('MC_Observers', jb[1], workers=jb[2], timeout=1700,
                                                       extra=list(jb[3])), jobs))
        tlc = {}
        for (kind, cfg, _, extra), r in zip(jobs, outs):
            tlc[cfg] = r
            if kind == 'model':
                ctx.count('states', r.distinct)
                ctx.count('transitions', r.states)
                ctx.coverage.setdefault('models', []).append(
                    {'module': 'MC_Observers', 'cfg': cfg, 'distinct_states': r.distinct,
                     'states_generated': r.states, 'depth': r.depth, 'ok': r.ok, 'violated': r.violated,
                     'wall_s': round(r.wall, 1)})
        for cfg in accepted:
            if not tlc[cfg].ok:
                raise core.MachineryError('design model %s failed:\n%s' % (cfg, tlc[cfg].out[-3000:]))
        for name, clause in REJECTED:
            bad = tlc['MC_Observers_' + name]
            if bad.ok or bad.violated != clause:
                raise core.MachineryError('the %s shape should be rejected by %s (got ok=%s, violated=%s)'
                                          % (name, clause, bad.ok, bad.violated))
            ctx.notes.append('design model rejects the "%s" shape: %s violated' % (name, clause))
        pure = _split(tlc['MC_Observers_beh'], 'MC_Observers_beh', strict=True)
        stale3 = _split(tlc['MC_Observers_stale_beh'], 'MC_Observers_stale_beh', strict=True)
        stale2 = _split(tlc['MC_Observers_stale2_beh'], 'MC_Observers_stale2_beh', strict=True)
        sim = _split(tlc['MC_Observers_sim'], 'MC_Observers_sim')
        ssim3 = _split(tlc['MC_Observers_stale_sim'], 'MC_Observers_stale_sim')
        ctx.coverage['tlc_behaviours'] = {'pure': len(pure), 'stale_nf3': len(stale3), 'stale_nf2': len(stale2)}
        ctx.coverage['tlc_simulated_behaviours'] = {'pure': len(sim), 'stale_nf3': len(ssim3)}
        for lst in (pure, stale3, stale2):
            rnd.shuffle(lst)
        npure = ctx.pick(3600, len(pure))
        nstale = ctx.pick(500, 6000)
        k = 0
        for chunk in pure[:npure] + sim:
            cls = classes[k % len(classes)]
            cases.append({'kind': 'replay', 'shape': 'pure', 'cls': cls, 'idx': k, 'nf': 3, 'beh': chunk})
            k += 1
        stale_classes = [c for c in classes if R[c].stale]
        for cls in stale_classes:
            nf = len(R[cls].slots)
            src = (stale2 if nf == 2 else stale3 + ssim3)[:nstale]
            for chunk in src:
                cases.append({'kind': 'replay', 'shape': 'stale', 'cls': cls, 'idx': k, 'nf': nf, 'beh': chunk})
                k += 1
            for chunk in (pure[npure:npure + nstale // 2] if nf == 3 else []):   # make sure they see pure ones
                cases.append({'kind': 'replay', 'shape': 'pure', 'cls': cls, 'idx': k, 'nf': 3, 'beh': chunk})
                k += 1
        # ---- (C->S) random histories
        per = ctx.pick(22, 260)
        for cls in classes:
            for j in range(per):
                cases.append({'kind': 'random', 'cls': cls, 'seed': rnd.randrange(1 << 30),
                              'steps': rnd.choice([8, 14, 20, 30])})
    for cs in cases:
        if cs['kind'] == 'replay' and isinstance(cs['beh'], str):
            cs['beh'] = _parse(cs['beh'])
    results = core.pmap(execute, cases, workers=WORKERS)
    traces = []
    counters = {}
    pure_bad = set()
    stale_mism = []
    for tid, (case, (events, mism, infos)) in enumerate(zip(cases, results)):
        if events is None:
            raise core.MachineryError('driver failure on case %s:\n%s' % (json.dumps(case)[:300], mism))
        ctx.evaluated()
        cls = case['cls']
        cnt = counters.setdefault(cls, {'evals': 0, 'repeat_hits': 0, 'after_mutation': 0, 'kinds': {},
                                        'dtypes': {}})
        nontriv = False
        for i, e in enumerate(events):
            if e['ev'] != 'eval':
                continue
            info = infos.get(i, {})
            cnt['evals'] += 1
            cnt['kinds'][e['kind']] = cnt['kinds'].get(e['kind'], 0) + 1
            dt = info.get('dtype', '?')
            cnt['dtypes'][dt] = cnt['dtypes'].get(dt, 0) + 1
            if info.get('hit'):
                cnt['repeat_hits'] += 1
                nontriv = True
            if e['epoch'] > 0:
                cnt['after_mutation'] += 1
                nontriv = True
        if nontriv:
            ctx.nontrivial([cls, case['kind'], case.get('idx', case.get('seed')), case.get('shape')])
        if case['kind'] == 'replay':
            if case['shape'] == 'pure':
                for m in mism:
                    pure_bad.add(cls)
                    clause = 'ReplayRaises' if m['raised'] else 'ReplayFlags'
                    ctx.violation(clause, case, tags=_tags(case, m['info']),
                                  detail={k: m[k] for k in ('step', 'want', 'got', 'raised')})
            else:
                stale_mism.extend((cls, case, m) for m in mism)
        traces.append((tid, events))
        if tid % 1201 == 0:
            ctx.sample({'cls': cls, 'kind': case['kind'], 'shape': case.get('shape'),
                        'calls': [e.get('m', e.get('op', e['ev'])) for e in events][:8]})
    # classes that fail the pure replay must be exactly the stale-cache shape; classes that pass it are not
    # judged against that shape (a repaired class stops following it)
    for cls, case, m in stale_mism:
        if cls in pure_bad:
            ctx.violation('StaleShapeMismatch', case, tags=_tags(case, m['info']),
                          detail={k: m[k] for k in ('step', 'want', 'got', 'raised')})
    ctx.coverage['stale_shape'] = {c: ('follows the stale-cache shape' if c in pure_bad else
                                       'passes the pure replay: stale-shape replay not judged')
                                   for c in sorted(c for c in classes if R[c].stale)}
    fails, stats = core.validate_traces('Trace_Observers', 'Trace', traces, shards=SHARDS)
    ctx.count('traces_validated_against_impl', len(traces))
    ctx.coverage['trace_lines'] = stats['lines']
    ctx.coverage['per_class'] = counters
    for tid, idx, clause in fails:
        case = cases[tid]
        info = results[tid][2].get(idx, {})
        ev = results[tid][0][idx]
        ctx.violation(clause, case, tags=_tags(case, info),
                      detail={'event_index': idx, 'm': ev.get('m'), 'op': ev.get('op'), 'err': ev.get('err'),
                              'info': info})
    # ---- vacuity: every class must have been exercised in every argument kind it documents
    if ctx.replay_case is None:
        for cls in classes:
            b = R[cls]
            need = set()
            for ev in b.evals:
                need |= set(k for k in _kinds(ev) if k != 'none')
            cnt = counters.get(cls, {'kinds': {}, 'repeat_hits': 0, 'after_mutation': 0})
            missing = sorted(k for k in need if not cnt['kinds'].get(k))
            if missing or not cnt['repeat_hits'] or ((b.attrs or b.ops) and not cnt['after_mutation']):
                raise core.MachineryError('vacuous coverage for %s: missing kinds %s, repeat hits %d, evaluations '
                                          'after a mutator %d' % (cls, missing, cnt['repeat_hits'],
                                                                  cnt['after_mutation']))
    ctx.assume('a fresh object is built by the class constructor from the content the driver tracks on the model '
               'side (never read back from the live object); equal inputs on the same code path are compared '
               'digit for digit (17 digits)')
    ctx.assume('array = map of scalar and integer = float are read as agreement to 1e-13 of the largest term '
               '(polynomial classes: largest |a_k basis_k(T)|; otherwise the value itself)')
    ctx.assume('arguments and object state are projected to digests of a canonical value+dtype picture '
               '(harness/lib_x09.snap); equality of digests is judged by the trace specification')


if __name__ == '__main__':
    core.main('X09', 'model_checking', run)
