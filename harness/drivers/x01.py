"""X01 - Session: NASA-7 / NASA-9 / Shomate species keep their content along ANY chain of
library round trips (JSON, to_dict/from_dict, copy.deepcopy, thermdat files).

(D)    spec/Session.tla checked exhaustively (MC_Session.cfg; five variants that get it wrong
       must be rejected).
(S->C) TLC behaviours (every behaviour of MC_Session_beh2.cfg / _beh.cfg, -simulate behaviours of
       MC_Session_sim*.cfg) are stepped through the real library.  In `grid` cases the model
       numbers stand for chosen doubles (VALUE below) and after EVERY call every live object
       must EQUAL what TLC computed (family, GasPressureAdj count, coverage-model count, flag,
       every coefficient and temperature bitwise, name = the origin's: order kept).
(C->S) the same behaviours, and the same op sequences on random real-valued species (`real`
       cases), are recorded as NDJSON: after EVERY call one `obs` line per live object, which
       spec/Trace_Session.tla compares with the object's ORIGIN at the precision class the
       specification computes from the calls.
"""
import json
import os
import random
import shutil
import tempfile
import time

from harness import core
from harness.core import to_dec2, text_codes

# ---- the doubles the model coefficients stand for (sign by symmetry).  x -> RoundC(x) in
# Session.tla corresponds to float('%.8E' % VALUE[x]) == VALUE[RoundC(x)] (checked at start-up
# with Python's own formatting, independent of the library).
VALUE = {0: 0.0, 7: 7.0, 12: 1.2e4, 34: 3.4e-5,
         125: 1.001953125, 120: 1.00195312,            # exact tie, half-even: down
         135: 1.005859375, 140: 1.00585938,            # exact tie, half-even: up
         995: 9.9999999951e29, 1000: 1.0e30,           # carry into the next decade
         1249: 1.2345678949e-3, 1200: 1.23456789e-3,   # down
         1251: 1.2345678951e-3, 1300: 1.23456790e-3}   # up
MODEL_ROUND = {0: 0, 7: 7, 12: 12, 34: 34, 125: 120, 120: 120, 135: 140, 140: 140, 995: 1000,
               1000: 1000, 1249: 1200, 1200: 1200, 1251: 1300, 1300: 1300}
CLASSNAME = {'nasa7': 'Nasa', 'nasa9': 'Nasa9', 'shomate': 'Shomate'}

GRID_NAMES = ['H2O', 'CO(S)', 'END', 'THERMO2', 'CH3OH*', 'N2', 'LEGEND']
GRID_ELEMENTS = [{'H': 2, 'O': 1}, {'C': 1, 'O': 1, 'Pt': 123}, {'Ni': 12}, {'C': 2, 'H': 6, 'O': 1, 'Na': 100},
                 {'C': 1, 'H': 4, 'O': 1}, {'N': 2}, {'Cl': 999, 'H': 1}]
NAME_POOL = ['H2O', 'CO2', 'CH3OH(S)', 'N2', 'END', 'THERMO', 'LEGEND', 'Pt(B)', 'O2*', 'HCOOH_ts', 'NH3(S)',
             'C2H4', 'ENDO', 'X1', 'OH-', 'THERMOX', 'CH3CH2OH(S)', '1A', 'Ru(0001)', 'a']
SYMBOLS = ['H', 'C', 'O', 'N', 'Pt', 'Ni', 'Cl', 'Na', 'Ru', 'S', 'Cu', 'Ar']


def val(x):
    return -VALUE[-x] if x < 0 else VALUE[x]


def temp(t):
    return float('%d.%02d' % divmod(t, 100))


def _check_table():
    for x, y in MODEL_ROUND.items():
        if float('%.8E' % VALUE[x]) != VALUE[y] or float('%.8E' % -VALUE[x]) != -VALUE[y]:
            raise core.MachineryError('VALUE table inconsistent at %r' % x)


# --------------------------------------------------------------------------
# building real species from an origin record
# --------------------------------------------------------------------------
def coef_rows(fam, cs, nT):
    """Model coefficients -> rows of model coefficients in the layout of the family."""
    n = len(cs)
    if fam == 'nasa7':
        return [[cs[j % n] for j in range(7)], [cs[(j + 3) % n] for j in range(7)]]
    if fam == 'nasa9':
        return [[cs[(j + i) % n] for j in range(9)] for i in range(nT // 2)]
    return [[cs[j % n] for j in range(8)]]


def build(fam, gas, flag, cov, name, elements, T, rows, units='J/mol/K'):
    import numpy as np
    from pmutt.empirical.nasa import Nasa, Nasa9, SingleNasa9
    from pmutt.empirical.shomate import Shomate
    from pmutt.mixture.cov import PiecewiseCovEffect
    kw = {'name': name, 'phase': 'G' if gas else 'S', 'elements': dict(elements)}
    if cov:
        kw['misc_models'] = [PiecewiseCovEffect(name_i=name, name_j='B', intervals=[0., 0.5],
                                                slopes=[1., 2.], name='cov')]
    if not flag:
        kw['add_gas_P_adj'] = False
    if fam == 'nasa7':
        return Nasa(T_low=T[0], T_mid=T[1], T_high=T[2], a_low=np.array(rows[0]),
                    a_high=np.array(rows[1]), **kw)
    if fam == 'nasa9':
        nasas = [SingleNasa9(T_low=T[2 * i], T_high=T[2 * i + 1], a=np.array(rows[i]))
                 for i in range(len(rows))]
        return Nasa9(nasas=nasas, **kw)
    return Shomate(T_low=T[0], T_high=T[1], a=np.array(rows[0]), units=units, **kw)


def temps_of(obj):
    n = type(obj).__name__
    if n == 'Nasa':
        return [obj.T_low, obj.T_mid, obj.T_high]
    if n == 'Nasa9':
        out = []
        for s in obj.nasas:
            out += [s.T_low, s.T_high]
        return out
    return [obj.T_low, obj.T_high]


def rows_of(obj):
    n = type(obj).__name__
    if n == 'Nasa':
        return [obj.a_low, obj.a_high]
    if n == 'Nasa9':
        return [s.a for s in obj.nasas]
    return [obj.a]


def kinds_of(obj):
    if obj.misc_models is None:
        return []
    return ['dict' if isinstance(m, dict) else type(m).__name__ for m in obj.misc_models]


def content(obj):
    """Projection of one species (numbers as 17-digit decimals)."""
    import numpy as np
    rows = rows_of(obj)
    el = obj.elements or {}
    return {'name': text_codes(str(obj.name)), 'phase': text_codes(str(obj.phase)),
            'el': sorted([text_codes(str(k)), int(v) if float(v) == int(v) else -1] for k, v in el.items()),
            'fam': type(obj).__name__,
            'T': [to_dec2(t) for t in temps_of(obj)],
            'a': [[to_dec2(v) for v in list(r)] for r in rows],
            'misc': kinds_of(obj),
            'flag': bool(getattr(obj, 'add_gas_P_adj', True)),
            'arr': all(isinstance(r, np.ndarray) for r in rows),
            'units': str(getattr(obj, 'units', ''))}


# --------------------------------------------------------------------------
# the round trips
# --------------------------------------------------------------------------
def round_trip(act, objs, rnd, tmpdir):
    import copy
    from pmutt.io.json import pmuttEncoder, json_to_pmutt
    from pmutt.io.thermdat import write_thermdat, read_thermdat
    if act == 'json':
        return [json.loads(json.dumps(objs[0], cls=pmuttEncoder), object_hook=json_to_pmutt)]
    if act == 'dict':
        return [type(objs[0]).from_dict(objs[0].to_dict())]
    if act == 'deepcopy':
        return [copy.deepcopy(objs[0])]
    if act == 'thermdat':
        path = os.path.join(tmpdir, 'thermdat_%d' % rnd.randrange(1 << 30))
        wd = rnd.random() < 0.5
        if rnd.random() < 0.5:
            write_thermdat(list(objs), filename=path, write_date=wd)
        else:
            with open(path, 'w') as f:
                f.write(write_thermdat(list(objs), write_date=wd))
        fmt = rnd.choice(['list', 'tuple'])
        out = read_thermdat(path, format=fmt)
        os.unlink(path)
        return list(out)
    raise core.MachineryError('unknown round trip %r' % act)


# --------------------------------------------------------------------------
# one case = origins + op sequence
# --------------------------------------------------------------------------
def origin_content(case, k, g, rnd):
    """name, elements, temperatures, coefficient rows (doubles) of origin k."""
    nT = len(g['ts'])
    if case['kind'] == 'grid':
        rows = [[val(x) for x in r] for r in coef_rows(g['fam'], g['cs'], nT)]
        return (GRID_NAMES[k % len(GRID_NAMES)], GRID_ELEMENTS[k % len(GRID_ELEMENTS)],
                [temp(t) for t in g['ts']], rows, 'J/mol/K')
    name = case['names'][k]
    syms = rnd.sample(SYMBOLS, rnd.randint(1, 4))
    el = {s: rnd.choice([1, 2, 3, 7, 12, 40, 100, 123, 999]) for s in syms}
    # temperatures: ascending, 1 .. 9999.9, with 0 / 1 / 2 / many decimals
    def rt(lo, hi):
        v = rnd.uniform(lo, hi)
        return rnd.choice([float(int(v)) if int(v) >= 1 else v, round(v, 1), round(v, 2), v,
                           int(v) + 0.25, int(v) + 0.75])
    npts = {'nasa7': 3, 'shomate': 2}.get(g['fam'], nT // 2 + 1)
    cuts = sorted(rnd.uniform(1.0, 9990.0) for _ in range(npts))
    pts = []
    for i, c in enumerate(cuts):
        lo = pts[-1] + 1.0 if pts else 1.0
        pts.append(min(max(rt(c, c + 5.0), lo), 9999.9))
    if g['fam'] == 'nasa7':
        T = [pts[0], pts[1], pts[2]]
    elif g['fam'] == 'shomate':
        T = [pts[0], pts[1]]
    else:
        T = []
        for i in range(nT // 2):
            T += [pts[i], pts[i + 1]]
    def rc():
        r = rnd.random()
        if r < 0.08:
            return rnd.choice([0.0, -0.0])
        if r < 0.2:
            return rnd.choice([1, -1]) * rnd.choice([9.999999995e29, 1.000000005, 1.001953125, 1.005859375,
                                                    1e30, 1e-30, 9.99999999e-30, 1.2345678949999999e-7,
                                                    0.1, 1.0 / 3.0, 2.0 ** -40, 123456789.5])
        m = rnd.uniform(1.0, 10.0)
        if rnd.random() < 0.3:
            m = round(m, rnd.choice([0, 2, 8]))
        return rnd.choice([1, -1]) * m * 10.0 ** rnd.randint(-30, 29)
    nrow, ncol = {'nasa7': (2, 7), 'shomate': (1, 8)}.get(g['fam'], (nT // 2, 9))
    rows = [[rc() for _ in range(ncol)] for _ in range(nrow)]
    units = rnd.choice(['J/mol/K', 'cal/mol/K', 'eV/K']) if g['fam'] == 'shomate' else 'J/mol/K'
    return name, el, T, rows, units


def expected_mismatch(obj, exp, origins, names):
    """S->C: the real object against the abstract object TLC computed (grid cases)."""
    import numpy as np
    g = origins[exp['origin'] - 1]
    bad = []
    if type(obj).__name__ != CLASSNAME[exp['fam']]:
        bad.append('class %s' % type(obj).__name__)
    if obj.name != names[exp['origin'] - 1]:
        bad.append('name %r' % (obj.name,))
    k = kinds_of(obj)
    if k.count('GasPressureAdj') != exp['padj']:
        bad.append('padj %r' % (k,))
    if k.count('PiecewiseCovEffect') != exp['cov']:
        bad.append('cov %r' % (k,))
    if bool(getattr(obj, 'add_gas_P_adj', True)) != exp['flag']:
        bad.append('flag')
    want_rows = [[val(x) for x in r] for r in coef_rows(g['fam'], exp['cs'], len(exp['ts']))]
    got_rows = [[float(v) for v in list(r)] for r in rows_of(obj)]
    if got_rows != want_rows:
        bad.append('coefficients %r != %r' % (got_rows, want_rows))
    want_T = [temp(t) for t in exp['ts']]
    got_T = [float(t) for t in temps_of(obj)]
    if got_T != want_T:
        bad.append('temperatures %r != %r' % (got_T, want_T))
    return bad


def execute(case):
    """Returns (events, meta, mismatches, stats)."""
    rnd = random.Random(case.get('seed', 0))
    grid = case['kind'] == 'grid'
    origins = case['orig']
    events, meta, mism = [], [], []
    stats = {'ops': {}, 'obs_exact': 0, 'obs_nine': 0, 'obs_second_trip': 0, 'maxchain': 0}
    objs, chain, famof, wsids, names = {}, {}, {}, [], []
    tmpdir = tempfile.mkdtemp(prefix='x01_')
    try:
        for k, g in enumerate(origins):
            name, el, T, rows, units = origin_content(case, k, g, rnd)
            names.append(name)
            o = build(g['fam'], g['gas'], g['flag'], g['cov'], name, el, T, rows, units)
            oid = k + 1
            objs[oid], chain[oid], famof[oid] = o, [], g['fam']
            wsids.append(oid)
            events.append({'ev': 'construct', 'id': oid, 'fam': g['fam'], 'gas': g['gas'], 'flag': g['flag'],
                           'cov': g['cov'], 'c': content(o)})
            meta.append({'fam': g['fam'], 'last': 'construct', 'chain': ''})
        nid = len(origins)
        for step, op in enumerate(case['ops']):
            act, keep = op['act'], op['keep']
            src_ids = [wsids[p - 1] for p in op['src']]
            stats['ops'][act] = stats['ops'].get(act, 0) + 1
            ev = {'ev': 'op', 'act': act, 'src': src_ids, 'dst': [], 'keep': keep, 'raised': False, 'nout': 0}
            opmeta = {'fam': famof[src_ids[0]], 'last': act, 'chain': '>'.join(chain[src_ids[0]] + [act])}
            try:
                outs = round_trip(act, [objs[i] for i in src_ids], rnd, tmpdir)
            except core.MachineryError:
                raise
            except Exception as ex:
                ev['raised'] = True
                events.append(ev)
                meta.append(dict(opmeta, raised='%s: %s' % (type(ex).__name__, ex)))
                break
            ev['nout'] = len(outs)
            if len(outs) != len(src_ids):
                events.append(ev)
                meta.append(opmeta)
                break
            dst_ids = []
            for i, o in zip(src_ids, outs):
                nid += 1
                dst_ids.append(nid)
                objs[nid] = o
                chain[nid] = chain[i] + [act]
                famof[nid] = 'nasa7' if act == 'thermdat' else famof[i]
            ev['dst'] = dst_ids
            events.append(ev)
            meta.append(opmeta)
            if keep:
                wsids += dst_ids
            else:
                for p, d in zip(op['src'], dst_ids):
                    del objs[wsids[p - 1]]
                    wsids[p - 1] = d
            for p, oid in enumerate(wsids):
                try:
                    c = content(objs[oid])
                except Exception as ex:
                    mism.append({'step': step, 'clause': 'Unprojectable', 'id': oid,
                                 'detail': '%s: %s' % (type(ex).__name__, ex),
                                 'fam': famof[oid], 'chain': '>'.join(chain[oid])})
                    continue
                events.append({'ev': 'obs', 'id': oid, 'c': c})
                meta.append({'fam': famof[oid], 'last': (chain[oid] or ['construct'])[-1],
                             'chain': '>'.join(chain[oid])})
                nth = chain[oid].count('thermdat')
                stats['obs_nine' if nth else 'obs_exact'] += 1
                if nth >= 2:
                    stats['obs_second_trip'] += 1
                stats['maxchain'] = max(stats['maxchain'], len(chain[oid]))
                if grid and 'ws' in op:
                    if len(op['ws']) != len(wsids):
                        raise core.MachineryError('workspace size differs from the model')
                    bad = expected_mismatch(objs[oid], op['ws'][p], origins, names)
                    if bad:
                        mism.append({'step': step, 'clause': 'ReplayState', 'pos': p + 1, 'detail': bad,
                                     'fam': famof[oid], 'chain': '>'.join(chain[oid])})
        else:
            events.append({'ev': 'end'})
            meta.append({'fam': '?', 'last': 'end', 'chain': ''})
    finally:
        shutil.rmtree(tmpdir, ignore_errors=True)
    return events, meta, mism, stats


def _tags(case, fam, chain_str):
    acts = [a for a in (chain_str or '').split('>') if a]
    return {'kind': case['kind'], 'fam': fam, 'last': acts[-1] if acts else 'construct',
            'reloaded': any(a in ('json', 'dict') for a in acts), 'filed': 'thermdat' in acts}


def _safe_execute(case):
    try:
        return execute(case)
    except core.MachineryError:
        raise
    except Exception as ex:          # the library raised while the species were being built
        return [], [], [{'step': -1, 'clause': 'Raises', 'detail': '%s: %s' % (type(ex).__name__, ex),
                         'fam': '?', 'chain': ''}], \
               {'ops': {}, 'obs_exact': 0, 'obs_nine': 0, 'obs_second_trip': 0, 'maxchain': 0}


# --------------------------------------------------------------------------
def _beh_to_case(beh, kind, cid, rnd):
    orig, h = beh[1], beh[2]
    ops = []
    for r in h:
        if r['act'] == 'end':
            continue
        op = {'act': r['act'], 'src': r['src'], 'dst': r['dst'], 'keep': r['keep']}
        if kind == 'grid':
            op['ws'] = r['ws']
        ops.append(op)
    case = {'cid': cid, 'kind': kind, 'orig': orig, 'ops': ops, 'seed': rnd.randrange(1 << 30)}
    if kind == 'real':
        case['names'] = rnd.sample(NAME_POOL, len(orig))
    return case


def _behaviours(cfg, extra=(), timeout=900):
    r = core.run_tlc('MC_Session', cfg, workers=1, timeout=timeout, extra=list(extra))
    behs = [core.parse_tla(p) for p in r.prints() if core.tagged(p, 'BEH')]
    if not behs or (not extra and not r.ok):
        raise core.MachineryError('behaviour generation %s failed:\n%s' % (cfg, r.out[-2000:]))
    return behs


REJECTED = {'MC_Session_truncate': 'NineDigits', 'MC_Session_forgetclass': 'ClassSound',
            'MC_Session_loseflag': 'PAdjCount', 'MC_Session_anythermdat': 'PAdjCount',
            'MC_Session_reversed': 'ResultOrigin'}


def run(ctx):
    ctx.coverage['rule'] = (
        'a case is a workspace of 1-5 species (NASA-7 / NASA-9 / Shomate; gas or surface; pressure '
        'adjustment enabled or disabled; with or without a coverage model) and a chain of 3-12 round trips '
        '(json / dict / deepcopy on one object, thermdat on a set of NASA-7 objects; result kept beside or '
        'replacing its source) that is a behaviour of Session.tla produced by TLC; grid cases use the chosen '
        'doubles of VALUE and are compared with the TLC-computed workspace after every call, real cases use '
        'random content; every case is judged line by line by Trace_Session.tla (every live object against its '
        'origin after every call); non-trivial = at least two round trips of different kinds; distinct by '
        '(origins, op sequence, kind)')
    _check_table()
    t0 = time.time()
    phases = ctx.coverage.setdefault('phase_wall_s', {})
    if ctx.replay_case is not None:
        cases = [ctx.replay_case['case']]
    else:
        ctx.model('MC_Session', 'MC_Session' if ctx.quick else 'MC_Session_thorough')
        import concurrent.futures as cf
        with cf.ThreadPoolExecutor(max_workers=8) as ex:
            rej = {cfg: ex.submit(ctx.model, 'MC_Session', cfg, 2, False) for cfg in REJECTED}
            f_beh = ex.submit(_behaviours, ctx.pick('MC_Session_beh2', 'MC_Session_beh'), (), 3000)
            f_s6 = ex.submit(_behaviours, 'MC_Session_sim',
                             ['-simulate', 'num=%d' % ctx.pick(400, 6000), '-depth', '9', '-seed', str(ctx.seed + 1)])
            f_s12 = ex.submit(_behaviours, 'MC_Session_sim12',
                              ['-simulate', 'num=%d' % ctx.pick(110, 2400), '-depth', '15', '-seed', str(ctx.seed + 2)])
            for cfg, inv in REJECTED.items():
                bad = rej[cfg].result()
                if bad.ok or bad.violated != inv:
                    raise core.MachineryError('%s should be rejected on %s (got %r)' % (cfg, inv, bad.violated))
                ctx.notes.append('design model rejects %s: %s violated' % (cfg, bad.violated))
            behs, sim6, sim12 = f_beh.result(), f_s6.result(), f_s12.result()
        phases['design_models_and_behaviours'] = round(time.time() - t0, 1)
        t0 = time.time()
        rnd = random.Random(ctx.seed)
        ctx.coverage['tlc_behaviours_exhaustive'] = len(behs)
        ctx.coverage['tlc_simulated_behaviours'] = len(sim6) + len(sim12)
        for lst in (behs, sim6, sim12):
            rnd.shuffle(lst)
        cases = []
        plan = [(behs, 'grid', ctx.pick(450, 12000)), (behs[::-1], 'real', ctx.pick(200, 5000)),
                (sim6, 'grid', ctx.pick(200, 3000)), (sim6[::-1], 'real', ctx.pick(200, 3000)),
                (sim12, 'grid', ctx.pick(50, 1200)), (sim12[::-1], 'real', ctx.pick(60, 1200))]
        for lst, kind, n in plan:
            for b in lst[:n]:
                cases.append(_beh_to_case(b, kind, '%s%d' % (kind[0], len(cases)), rnd))
    t0 = time.time()
    results = core.pmap(_safe_execute, cases)
    phases['library_runs'] = round(time.time() - t0, 1)
    t0 = time.time()
    traces, metas = [], []
    tot = {'ops': {}, 'obs_exact': 0, 'obs_nine': 0, 'obs_second_trip': 0, 'maxchain': 0}
    for tid, (case, (events, meta, mism, stats)) in enumerate(zip(cases, results)):
        ctx.evaluated()
        acts = [o['act'] for o in case['ops']]
        if len(set(acts)) >= 2:
            ctx.nontrivial(json.dumps([case['kind'], [[g['fam'], g['gas'], g['flag'], g['cov']] for g in case['orig']],
                                       [[o['act'], o['src'], o['keep']] for o in case['ops']]]))
        for m in mism:
            ctx.violation(m['clause'], case, tags=_tags(case, m.get('fam'), m.get('chain')), detail=m)
        traces.append((tid, events))
        metas.append(meta)
        for k, v in stats['ops'].items():
            tot['ops'][k] = tot['ops'].get(k, 0) + v
        for k in ('obs_exact', 'obs_nine', 'obs_second_trip'):
            tot[k] += stats[k]
        tot['maxchain'] = max(tot['maxchain'], stats['maxchain'])
        if tid % 211 == 0:
            ctx.sample({'kind': case['kind'], 'origins': [[g['fam'], g['gas'], g['flag'], g['cov']] for g in case['orig']],
                        'ops': [[o['act'], o['src'], o['keep']] for o in case['ops']]})
    fails, tstats = core.validate_traces('Trace_Session', 'Trace', traces)
    phases['trace_validation'] = round(time.time() - t0, 1)
    ctx.count('traces_validated_against_impl', len(traces))
    ctx.coverage['trace_lines'] = tstats['lines']
    ctx.coverage['clause_evaluations'] = tot
    if ctx.replay_case is None:
        if min(tot['obs_exact'], tot['obs_nine'], tot['obs_second_trip']) == 0 or \
                any(tot['ops'].get(a, 0) == 0 for a in ('json', 'dict', 'deepcopy', 'thermdat')):
            raise core.MachineryError('vacuous run: %r' % (tot,))
    by_case = {}
    for tid, idx, clause in fails:
        m = metas[tid][idx]
        key = (tid, clause, m['fam'], m['chain'])
        by_case.setdefault(key, []).append((idx, m.get('chain'), m.get('raised')))
    for (tid, clause, fam, ch), lst in sorted(by_case.items(), key=lambda kv: (kv[0][0], kv[0][1], str(kv[0][2:]))):
        ctx.violation(clause, cases[tid], tags=_tags(cases[tid], fam, ch),
                      detail={'event_indices': [i for i, _, _ in lst][:10], 'chains': sorted({c for _, c, _ in lst if c})[:5],
                              'raised': [r for _, _, r in lst if r][:2]})
    ctx.assume('thermdat is applied only to NASA-7 species the Chemkin format can carry: pressure adjustment not '
               'disabled, no user-attached mixture model, one-character phase, <= 4 elements with integer counts '
               '1..999, names without blanks, |coefficients| in 1e-30..1e30 or zero, temperatures 1..9999.9 K')
    ctx.assume('notes, smiles, cat_site, n_sites and the statistical-mechanical model are not part of the content compared')
    ctx.assume('exact class = equality of the 17-significant-digit decimals (unique per IEEE double); nine class = '
               '1e-15 relative to the 9-digit rounding of the origin, temperatures within 0.05002 K')


if __name__ == '__main__':
    core.main('X01', 'model_checking', run)
