"""X08 - pmutt.empirical.zacros.Zacros and the EmpiricalBase comparison helpers (extra module).

The class is a thin stub: a constructor that derives partition-function quantities at T0 from
its inputs, to_dict and from_dict; everything else (get_q, get_CpoR, ... get_G, compare_*) is
inherited from _ModelBase / EmpiricalBase.  The library has NO writer for Zacros input files,
so there is no text face.

(D)    spec/Zacros.tla: dimensions of every reported partition function (constant level) and the
       object life cycle Construct / ToDict / FromDict on exact toy numbers (inputs scaled by
       powers of two), with the scaling laws as action properties; implementation-shaped
       deviations (max moment instead of the product, to_dict that returns nothing / lacks the
       wavenumbers) are separate cfgs that TLC must reject.
(S->C) TLC behaviours are replayed on real Zacros objects: defined quantities, power-of-two
       exponent of q_rot and q_trans2D relative to the base species (exact IEEE equality),
       per-mode vibrational temperatures, dictionary keys, reloaded object.
(C->S) spec/Trace_Zacros.tla judges random species (textbook definitions from verified witnesses
       and libm sensors), the inherited defaults, dict / JSON round trips, and compare_CpoR /
       HoRT / SoR / GoRT of Nasa / Shomate species carrying a StatMech model.
"""
import contextlib
import json
import math
import random
import re
import threading

from harness import core
from harness.core import to_dec, to_dec2

T0 = 298.15
# constants of the harness sensors (CODATA 2014)
H_JS = 6.62607004e-34
KB_J = 1.38064852e-23
C_CMS = 2.99792458e10

ATTRS = ('A_st', 'geometry', 'symmetrynumber', 'inertia', 'etotal', 'vib_energies', 'theta', 'zpe', 'q_rot',
         'q_vib', 'I3', 'T_I', 'MW', 'q_trans2D')
CTOR_KEYS = ('class', 'name', 'phase', 'elements', 'model', 'misc_models', 'A_st', 'geometry', 'symmetrynumber',
             'inertia', 'vib_wavenumbers', 'potentialenergy')
MODES = {0: 0.0, 1: 450.0, 2: 1700.0, 3: 3200.0}
# equal base moments: the known max-moment deviation (X08-F2) then is an exact power of two too and TLC names it
BASE_MOM = {'linear': [1.7e-46], 'nonlinear': [2.3e-46, 2.3e-46, 2.3e-46]}
A0 = 1.3e-19
ELEMENTS = ('H', 'C', 'N', 'O', 'Pt', 'Cu', 'Ni', 'S')
DERIVED_CMP = ('CpoR', 'HoRT', 'SoR', 'GoRT')


def _err(ex):
    return '%s: %s' % (type(ex).__name__, str(ex)[:160])


def errkind(ex):
    """discrete kind of an exception, used by the specification to recognise the known deviations exactly"""
    m = str(ex)
    if isinstance(ex, AttributeError) and "module 'numpy' has no attribute 'product'" in m:
        return 'np.product'
    mm = re.search(r"object has no attribute '(\w+)'", m)
    if isinstance(ex, AttributeError) and mm:
        return 'AttributeError:' + mm.group(1)
    if isinstance(ex, TypeError) and "'NoneType' object is not iterable" in m:
        return 'TypeError:NoneIterable'
    return type(ex).__name__


class shim_np_product:
    """Known finding X08-F1 blocks the construction of every species with a real vibration on NumPy >= 2.  After the
    finding has been RECORDED for a case, the case is continued with `numpy.product = numpy.prod` provided inside this
    driver process only (never in the library), so that the remaining clauses are still exercised.  Every event and
    the evidence (`shim_np_product`) say when the shim was active."""

    def __enter__(self):
        import numpy as np
        self.np = np
        self.active = not hasattr(np, 'product')
        if self.active:
            np.product = np.prod
        return self

    def __exit__(self, *a):
        if self.active:
            del self.np.product
        return False


def _aslist(x):
    import numpy as np
    return [float(v) for v in np.atleast_1d(x)]


# --------------------------------------------------------------------------
# (S->C) behaviours of Zacros.tla on real objects
# --------------------------------------------------------------------------
def beh_kwargs(inp):
    kw = {'name': 'sp', 'phase': inp['phase'], 'elements': {'C': 1, 'O': 1},
          'vib_wavenumbers': [MODES[m] for m in inp['modes']], 'potentialenergy': -1.5}
    if inp['ast'] != -1:
        kw['A_st'] = A0 * 2.0 ** inp['ast']
    if inp['phase'] == 'G':
        base = BASE_MOM[inp['geom']]
        kw.update(symmetrynumber=2 ** inp['sig'], geometry=inp['geom'],
                  inertia=[base[k] * 4.0 ** b for k, b in enumerate(inp['mom'])])
    return kw


def _pow2(q, qbase):
    """k with q == ldexp(qbase, k) exactly, else 'inexact'"""
    if q == 0 or qbase == 0 or not core.finite(q) or not core.finite(qbase):
        return 'inexact'
    k = int(round(math.log2(abs(q / qbase))))
    return k if math.ldexp(qbase, k) == q else 'inexact'


def beh_project(z, inp, single_theta):
    """discrete projection of a real object, in the vocabulary of Zacros.tla's `obj`"""
    from pmutt.empirical.zacros import Zacros
    out = {'ok': True, 'attrs': sorted(a for a in ATTRS if hasattr(z, a)), 'rotZero': float(z.q_rot) == 0.0,
           'qrotE': 0, 'qtransE': 0}
    if inp['phase'] == 'G':
        b = dict(inp, sig=0, mom=[0] * len(inp['mom']), modes=[0], ast=-1)
        out['qrotE'] = _pow2(float(z.q_rot), float(Zacros(**beh_kwargs(b)).q_rot))
    if inp['ast'] != -1:
        b = dict(inp, ast=0, modes=[0])
        out['qtransE'] = _pow2(float(getattr(z, 'q_trans2D', float('nan'))),
                               float(Zacros(**beh_kwargs(b)).q_trans2D))
    th = _aslist(z.theta)
    out['modes'] = [next((m for m, t in single_theta.items() if t == x), 'other') for x in th]
    return out


_SINGLE = {}


def single_thetas():
    """vibrational temperature the real class reports for each mode id alone (theta does not need q_vib)"""
    if not _SINGLE:
        from pmutt import constants as c
        import numpy as np
        for m, nu in MODES.items():
            # the same elementwise expression on a one-element array: bitwise equal to the element of a longer array
            _SINGLE[m] = float((c.wavenumber_to_energy(np.array([nu])) / c.kb('J/K'))[0])
    return _SINGLE


def exec_beh(case):
    import warnings
    warnings.simplefilter('ignore')
    from pmutt.empirical.zacros import Zacros
    from pmutt.io.json import pmuttEncoder, json_to_pmutt
    mism = []
    obj, d = None, None
    info = {'mism': mism, 'shim': False}

    def expect(step):
        o = step['obj']
        return {'ok': o['ok'], 'attrs': sorted(o['attrs']), 'rotZero': o['rotZero'], 'qrotE': o['qrotE'],
                'qtransE': o['qtransE'], 'modes': list(o['modes'])}

    def report(k, step, field, got, want, clause='ReplayState', err=None):
        mism.append({'clause': clause, 'step': k, 'act': step['act'], 'field': field, 'got': got, 'want': want,
                     'err': err, 'inp': step['inp'], 'shim': info['shim']})

    def compare(k, step, got):
        want = expect(step)
        if not want['ok']:
            want = {'ok': False}
        for f in [x for x in ('ok', 'attrs', 'rotZero', 'qrotE', 'qtransE', 'modes') if x in want]:
            if got.get(f) != want[f]:
                clause = 'ReplayState'
                # known finding X08-F2: exactly the value TLC computes for the max-moment rule
                if (f == 'qrotE' and step['inp']['geom'] == 'nonlinear' and got.get(f) == step['obj']['qrotEMax']):
                    clause = 'ReplayState_KnownMaxMoment'
                report(k, step, f, got.get(f), want[f], clause, got.get('err'))
                if clause == 'ReplayState':
                    break

    with contextlib.ExitStack() as stack:
        for k, step in enumerate(case['steps']):
            inp = step['inp']
            try:
                if step['act'] == 'construct':
                    d = None
                    obj = None
                    try:
                        obj = Zacros(**beh_kwargs(inp))
                    except AttributeError as ex:
                        if errkind(ex) != 'np.product' or inp['modes'] == [0] or info['shim']:
                            raise
                        # known finding X08-F1: recorded, then the case continues under the shim
                        report(k, step, 'ok', False, True, 'ReplayState_KnownNumpyProduct', _err(ex))
                        info['shim'] = stack.enter_context(shim_np_product()).active
                        obj = Zacros(**beh_kwargs(inp))
                elif step['act'] == 'to_dict':
                    try:
                        d = obj.to_dict() if obj is not None else None
                    except Exception as ex:
                        kind = errkind(ex)
                        known = kind in ('TypeError:NoneIterable', 'AttributeError:q_vib', 'AttributeError:I3',
                                         'AttributeError:MW')
                        report(k, step, 'isdict', kind, True,
                               'ReplayState_KnownToDict' if known else 'ReplayState', _err(ex))
                        d = None
                        continue
                    isdict = isinstance(d, dict)
                    keys = sorted(set(d) & set(CTOR_KEYS)) if isdict else []
                    if isdict != step['isdict'] or keys != sorted(step['keys']):
                        report(k, step, 'keys' if isdict else 'isdict', keys if isdict else repr(d)[:60],
                               sorted(step['keys']),
                               'ReplayState_KnownToDict' if (d is None and obj is not None) else 'ReplayState')
                    if not isdict:
                        d = None
                    continue
                else:
                    if d is None:
                        continue                               # already reported at to_dict
                    if case['via'] == 'json':
                        obj = json.loads(json.dumps(d, cls=pmuttEncoder), object_hook=json_to_pmutt)
                    else:
                        obj = Zacros.from_dict(d)
                compare(k, step, beh_project(obj, inp, single_thetas()))
            except core.MachineryError:
                raise
            except Exception as ex:
                compare(k, step, {'ok': False, 'err': _err(ex)})
                if step['act'] != 'construct':
                    obj = None
    return [], info


# --------------------------------------------------------------------------
# (C->S) random species
# --------------------------------------------------------------------------
def draw_species(rnd):
    from pmutt import constants as c
    phase = rnd.choice(['G', 'G', 'S'])
    n = rnd.randint(1, 8)
    if rnd.random() < 0.1:
        wn = [0.0] * rnd.randint(1, 3)
    else:
        wn = [10 ** rnd.uniform(1, math.log10(4500)) for _ in range(n)]
    els = {}
    for s in rnd.sample(ELEMENTS, rnd.randint(1, 3)):
        els[s] = rnd.randint(1, 6)
    sp = {'name': 'sp%d' % rnd.randrange(1000), 'phase': phase, 'els': els, 'wn': wn,
          'E': rnd.choice([0.0, rnd.uniform(-60, 5)]),
          'A': None if rnd.random() < 0.25 else 10 ** rnd.uniform(-20, -18),
          'geom': None, 'sigma': None, 'inertia': None, 'mol': None, 'model': rnd.random() < 0.15,
          'weights': {s: float(c.atomic_weight[s]) for s in els}}
    if phase == 'G':
        sp['sigma'] = rnd.choice([1, 1, 2, 3, 4, 6, 12])
        k = rnd.random()
        if k < 0.2:
            sp['mol'] = rnd.choice(['H2O', 'CO2', 'CH4', 'NH3', 'C2H2', 'CO', 'H2', 'C2H4', 'CH3OH', 'HCN', 'N2O', 'SO2'])
        elif k < 0.55:
            sp['geom'] = 'linear'
            sp['inertia'] = [10 ** rnd.uniform(-48, -44)]
        elif k < 0.95:
            sp['geom'] = 'nonlinear'
            sp['inertia'] = [10 ** rnd.uniform(-48, -44) for _ in range(3)]
        else:
            sp['geom'] = 'monatomic'
            sp['inertia'] = [0.0]
            sp['sigma'] = 1
    return sp


def species_kwargs(sp):
    kw = {'name': sp['name'], 'phase': sp['phase'], 'elements': dict(sp['els']), 'vib_wavenumbers': list(sp['wn']),
          'potentialenergy': sp['E'], 'A_st': sp['A']}
    amom = []
    if sp.get('model'):
        # a species may carry the statistical-mechanical model it was derived from
        from pmutt.statmech import StatMech, presets
        kw['model'] = StatMech(name=sp['name'], molecular_weight=28.01, vib_wavenumbers=[2170.], potentialenergy=sp['E'],
                               spin=0., geometry='linear', rot_temperatures=[2.78], symmetrynumber=1,
                               **presets['idealgas'])
    if sp['phase'] == 'G':
        kw['symmetrynumber'] = sp['sigma']
        if sp['mol']:
            from ase.collections import g2
            atoms = g2[sp['mol']]
            amom = [float(x) for x in atoms.get_moments_of_inertia()]
            sp = dict(sp, geom='linear' if min(amom) < 1e-6 * max(amom) else 'nonlinear')
            kw['atoms'] = atoms
        else:
            kw['inertia'] = list(sp['inertia'])
        kw['geometry'] = sp['geom']
    return kw, sp, amom


def _d2(x):
    return to_dec2(0.0 if x is None else x)


def _nones(**kw):
    return sorted(k for k, v in kw.items() if v is None)


def obj_record(z):
    """Dec2 record of what a Zacros object holds (round trips must keep it exactly)"""
    has = lambda a: hasattr(z, a)
    misc = z.misc_models
    return {'name': str(z.name), 'phase': str(z.phase), 'geom': str(z.geometry),
            'els': sorted([k, int(v)] for k, v in (z.elements or {}).items()),
            'misc': [type(m).__name__ for m in misc] if misc is not None else ['<none>'],
            'model': type(z.model).__name__, 'inertiaNone': z.inertia is None,
            'A': _d2(z.A_st), 'sigma': _d2(z.symmetrynumber), 'E': _d2(z.etotal),
            'eps': [to_dec2(x) for x in _aslist(z.vib_energies)], 'theta': [to_dec2(x) for x in _aslist(z.theta)],
            'zpe': to_dec2(z.zpe), 'hasq': has('q_vib'), 'qvib': _d2(getattr(z, 'q_vib', None)),
            'hasI3': has('I3'), 'I3': [to_dec2(x) for x in _aslist(z.I3)] if has('I3') else [],
            'qrot': to_dec2(z.q_rot), 'hasMW': has('MW'), 'MW': _d2(getattr(z, 'MW', None)),
            'qtrans': _d2(getattr(z, 'q_trans2D', None))}


def construct_event(sp0, shim=False):
    from pmutt.empirical.zacros import Zacros
    kw, sp, amom = species_kwargs(sp0)
    wn = sp['wn']
    ev = {'ev': 'construct', 'raised': False, 'finite': True, 'shim': bool(shim), 'errkind': '',
          'in': {'phase': sp['phase'], 'geom': sp['geom'] or 'none', 'sigma': to_dec(sp['sigma'] or 0),
                 'inertia': [to_dec(x) for x in (sp['inertia'] or [])], 'amom': [to_dec(x) for x in amom],
                 'fromAtoms': bool(sp['mol']), 'hasA': sp['A'] is not None, 'A': to_dec(sp['A'] or 0.0),
                 'wn': [to_dec(x) for x in wn], 'E': to_dec(sp['E']),
                 'els': [[s, int(n), to_dec(sp['weights'][s])] for s, n in sorted(sp['els'].items())]},
          'in2': {'A': _d2(sp['A']), 'sigma': _d2(sp['sigma']), 'E': _d2(sp['E']),
                  'inertia': [to_dec2(x) for x in (sp['inertia'] or [])], 'name': sp['name'],
                  'els': sorted([s, int(n)] for s, n in sp['els'].items()),
                  'nones': _nones(A=sp['A'], sigma=sp['sigma'], inertia=sp['inertia'])}}
    xs = [H_JS * C_CMS * w / KB_J / T0 for w in wn]
    ev['s'] = {'x': [to_dec(x) for x in xs], 'ex': [to_dec(math.exp(-x)) for x in xs],
               'om': [to_dec(-math.expm1(-x)) for x in xs]}
    try:
        z = Zacros(**kw)
    except Exception as ex:
        ev.update(raised=True, err=_err(ex), errkind=errkind(ex))
        return None, ev
    has = lambda a: hasattr(z, a)
    vals = {'eps': _aslist(z.vib_energies), 'theta': _aslist(z.theta), 'zpe': [float(z.zpe)],
            'qvib': [float(getattr(z, 'q_vib', 0.0))], 'I3': _aslist(z.I3) if has('I3') else [],
            'TI': [float(getattr(z, 'T_I', 0.0))], 'qrot': [float(z.q_rot)], 'MW': [float(getattr(z, 'MW', 0.0))],
            'qtrans': [float(getattr(z, 'q_trans2D', 0.0))]}
    if not all(core.finite(x) for v in vals.values() for x in v):
        ev['finite'] = False
        ev['err'] = 'non-finite: ' + ', '.join(k for k, v in vals.items() if not all(core.finite(x) for x in v))
        return z, ev
    ev['r'] = {'eps': [to_dec(x) for x in vals['eps']], 'theta': [to_dec(x) for x in vals['theta']],
               'zpe': to_dec(vals['zpe'][0]), 'hasq': has('q_vib'), 'qvib': to_dec(vals['qvib'][0]),
               'hasI3': has('I3'), 'I3': [to_dec(x) for x in vals['I3']], 'hasTI': has('T_I'),
               'TI': to_dec(vals['TI'][0]), 'qrot': to_dec(vals['qrot'][0]), 'hasMW': has('MW'),
               'MW': to_dec(vals['MW'][0]), 'qtrans': to_dec(vals['qtrans'][0])}
    inertia = z.inertia
    ev['st'] = {'A': _d2(z.A_st), 'sigma': _d2(z.symmetrynumber), 'E': _d2(z.etotal),
                'inertia': [to_dec2(x) for x in (_aslist(inertia) if inertia is not None else [])],
                'geom': str(z.geometry) if z.geometry is not None else 'none', 'phase': str(z.phase),
                'name': str(z.name), 'els': sorted([k, int(v)] for k, v in z.elements.items()),
                'nones': _nones(A=z.A_st, sigma=z.symmetrynumber, inertia=z.inertia)}
    return z, ev


def defaults_event(z, rnd):
    ev = {'ev': 'defaults', 'raised': False}
    try:
        ev['q'] = to_dec(float(z.get_q()))
        ev['dimless'] = [[g, to_dec(float(getattr(z, 'get_' + g)()))]
                         for g in ('CvoR', 'CpoR', 'UoRT', 'HoRT', 'SoR', 'FoRT', 'GoRT')]
        dims = []
        T = rnd.uniform(200, 1500)
        for g, units in (('Cv', ('J/mol/K', 'kcal/mol/K', 'eV/K')), ('Cp', ('J/mol/K', 'cal/mol/K', 'J/g/K')),
                         ('S', ('J/mol/K', 'eV/K', 'kJ/kg/K'))):
            for u in units:
                dims.append([g, u, to_dec(0.0), to_dec(float(getattr(z, 'get_' + g)(units=u)))])
        for g, units in (('U', ('J/mol', 'eV')), ('H', ('kJ/mol', 'kcal/mol', 'kJ/kg')), ('F', ('J/mol', 'eV')),
                         ('G', ('kJ/mol', 'eV', 'cal/g'))):
            for u in units:
                dims.append([g, u, to_dec(T), to_dec(float(getattr(z, 'get_' + g)(units=u, T=T)))])
        ev['dims'] = dims
    except Exception as ex:
        ev.update(raised=True, err=_err(ex))
    return ev


def roundtrip_event(z, via, shim=False):
    from pmutt.empirical.zacros import Zacros
    from pmutt.io.json import pmuttEncoder, json_to_pmutt
    ev = {'ev': 'roundtrip', 'via': via, 'shim': bool(shim), 'errkind': '', 'retnone': False, 'dictRaised': False, 'isdict': False, 'jsonable': False, 'cls': '',
          'keys': [], 'loadRaised': False, 'isobj': False, 'eqdict': False, 'eq': False}
    before = obj_record(z)
    ev['before'] = before
    ev['after'] = before
    try:
        d = z.to_dict()
    except Exception as ex:
        ev.update(dictRaised=True, err=_err(ex), errkind=errkind(ex))
        return ev
    if not isinstance(d, dict):
        ev['err'] = 'to_dict returned %r' % (d,)
        ev['retnone'] = d is None
        return ev
    ev.update(isdict=True, cls=str(d.get('class')), keys=sorted(str(k) for k in d))
    try:
        text = json.dumps(d, cls=pmuttEncoder)
        ev['jsonable'] = True
    except Exception as ex:
        ev['err'] = _err(ex)
        text = None
    try:
        if via == 'json' and text is not None:
            z2 = json.loads(text, object_hook=json_to_pmutt)
        else:
            z2 = Zacros.from_dict(d)
    except Exception as ex:
        ev.update(loadRaised=True, err=_err(ex))
        return ev
    if not isinstance(z2, Zacros):
        ev['err'] = 'reload returned %s' % type(z2).__name__
        return ev
    ev['isobj'] = True
    try:
        ev['after'] = obj_record(z2)
        ev['eqdict'] = bool(z2.to_dict() == d)
        ev['eq'] = bool(z2 == z)
    except Exception as ex:
        ev.update(loadRaised=True, err=_err(ex))
    return ev


def exec_species(case):
    import warnings
    warnings.simplefilter('ignore')
    rnd = random.Random(case['cseed'])
    events = []
    sp = case.get('species') or draw_species(rnd)
    info = {'species': {k: v for k, v in sp.items() if k != 'weights'}, 'shim': False}
    with contextlib.ExitStack() as stack:
        z, ev = construct_event(sp)
        events.append(ev)
        if ev['raised'] and ev['errkind'] == 'np.product' and any(sp['wn']):
            # known finding X08-F1 is on record (the event above); continue this case under the shim
            info['shim'] = stack.enter_context(shim_np_product()).active
            if info['shim']:
                z, ev = construct_event(sp, shim=True)
                events.append(ev)
        if z is not None and ev['finite']:
            events.append(defaults_event(z, rnd))
            events.append(roundtrip_event(z, case['via'], shim=info['shim']))
    return events, info


# --------------------------------------------------------------------------
# (C->S) comparison helpers of EmpiricalBase
# --------------------------------------------------------------------------
def exec_compare(case):
    import warnings
    warnings.simplefilter('ignore')
    import numpy as np
    from pmutt.empirical.nasa import Nasa
    from pmutt.empirical.shomate import Shomate
    from pmutt.statmech import StatMech, presets
    rnd = random.Random(case['cseed'])
    nm = case['nmodes']
    sm = StatMech(name='sm', molecular_weight=rnd.uniform(2, 120),
                  vib_wavenumbers=[rnd.uniform(200, 4000) for _ in range(nm)], potentialenergy=rnd.uniform(-30, 0),
                  spin=0., geometry='nonlinear', rot_temperatures=[rnd.uniform(0.5, 40) for _ in range(3)],
                  symmetrynumber=rnd.choice([1, 2, 3]), **presets['idealgas'])
    T_low, T_high = rnd.uniform(200, 400), rnd.uniform(1500, 3500)
    phase = rnd.choice(['G', 'S'])
    if case['fam'] == 'nasa':
        mk = lambda: np.array([rnd.uniform(2, 6), rnd.uniform(-3, 3) * 1e-3, rnd.uniform(-7, 7) * 1e-6,
                               rnd.uniform(-6, 6) * 1e-9, rnd.uniform(-2, 2) * 1e-12, rnd.uniform(-4, 1) * 1e4,
                               rnd.uniform(-5, 8)])
        obj = Nasa(name='sp', T_low=T_low, T_mid=rnd.uniform(800, 1200), T_high=T_high, a_low=mk(), a_high=mk(),
                   model=sm, phase=phase, elements={'C': 1, 'H': 4})
    else:
        obj = Shomate(name='sp', T_low=T_low, T_high=T_high, phase=phase, elements={'C': 1, 'H': 4}, model=sm,
                      a=np.array([rnd.uniform(20, 40), rnd.uniform(-10, 10), rnd.uniform(-10, 10), rnd.uniform(-5, 5),
                                  rnd.uniform(-0.5, 0.5), rnd.uniform(-300, 50), rnd.uniform(150, 300),
                                  rnd.uniform(-300, 50)]))
    mode = case['tmode']
    if mode == 'default':
        Targ = None
    elif mode == 'scalar':
        Targ = rnd.uniform(T_low, T_high)
    else:
        Targ = np.array(sorted(rnd.uniform(T_low, T_high) for _ in range(case['n'])))
    events = []
    for which in DERIVED_CMP:
        ev = {'ev': 'compare', 'which': which, 'fam': case['fam'], 'nmodes': nm, 'raised': False, 'finite': True,
              'given': Targ is not None, 'Targ': [to_dec2(t) for t in (_aslist(Targ) if Targ is not None else [])],
              'Tlow': to_dec2(T_low), 'Thigh': to_dec2(T_high)}
        try:
            ret = getattr(obj, 'compare_' + which)(T=Targ) if Targ is not None else getattr(obj, 'compare_' + which)()
            Tret, model, emp = (_aslist(x) for x in ret)
            dmodel = [float(getattr(sm, 'get_' + which)(T=t)) for t in Tret]
            demp = [float(getattr(obj, 'get_' + which)(T=t)) for t in Tret]
            if not all(core.finite(x) for x in Tret + model + emp + dmodel + demp):
                ev['finite'] = False
            else:
                ev.update(Tret=[to_dec2(x) for x in Tret], model=[to_dec2(x) for x in model],
                          emp=[to_dec2(x) for x in emp], dmodel=[to_dec2(x) for x in dmodel],
                          demp=[to_dec2(x) for x in demp])
        except Exception as ex:
            ev.update(raised=True, err=_err(ex))
        events.append(ev)
    return events, {}


def execute(case):
    try:
        if case['kind'] == 'beh':
            return exec_beh(case)
        if case['kind'] == 'species':
            return exec_species(case)
        return exec_compare(case)
    except core.MachineryError:
        raise
    except Exception as ex:
        import traceback
        return [], {'raised': _err(ex), 'tb': traceback.format_exc()[-800:]}


# --------------------------------------------------------------------------
VARIANTS = (('MC_Zacros_maxmoment', 'QRotLaw'), ('MC_Zacros_maxmoment_dim', 'QRotDimensionless'),
            ('MC_Zacros_maxmoment_law', 'MomentLaw'), ('MC_Zacros_noreturn', 'ToDictReturnsDict'),
            ('MC_Zacros_nowavenumbers', 'DictComplete'), ('MC_Zacros_nowavenumbers_reload', 'RoundTrip'))


def run_models(ctx):
    """(D): the required model must pass; every implementation-shaped deviation must be rejected by name"""
    out = {}

    def go(name, fn):
        try:
            out[name] = fn()
        except Exception as ex:                      # noqa - reported below
            out[name] = ex
    jobs = [threading.Thread(target=go, args=(cfg, lambda cfg=cfg: core.run_tlc('MC_Zacros', cfg, workers=2)))
            for cfg, _ in VARIANTS]
    jobs.append(threading.Thread(target=go, args=('beh', lambda: core.run_tlc('MC_Zacros', 'MC_Zacros_beh', workers=1,
                                                                              timeout=900))))
    for j in jobs:
        j.start()
    ctx.model('MC_Zacros', 'MC_Zacros' if ctx.quick else 'MC_Zacros_thorough', workers=8)
    for j in jobs:
        j.join()
    for cfg, inv in VARIANTS:
        r = out[cfg]
        if isinstance(r, Exception) or r.violated != inv:
            raise core.MachineryError('variant %s should be rejected by %s, got %r\n%s'
                                      % (cfg, inv, getattr(r, 'violated', r), getattr(r, 'out', '')[-1500:]))
        ctx.coverage.setdefault('models', []).append(
            {'module': 'MC_Zacros', 'cfg': cfg, 'expected': 'rejected by ' + inv, 'violated': r.violated,
             'distinct_states': r.distinct, 'wall_s': round(r.wall, 1)})
    rb = out['beh']
    if isinstance(rb, Exception) or not rb.ok:
        raise core.MachineryError('behaviour generation failed:\n%s' % getattr(rb, 'out', rb)[-2000:])
    return [p for p in rb.prints() if core.tagged(p, 'BEH')]


def beh_case(pv, via):
    steps = []
    for s in core.parse_tla(pv)[1]:
        inp = s['inp']
        steps.append({'act': s['act'], 'isdict': s['isdict'], 'keys': sorted(s['keys']),
                      'inp': {'phase': inp['phase'], 'geom': inp['geom'], 'sig': inp['sig'], 'mom': list(inp['mom']),
                              'ast': inp['ast'], 'modes': list(inp['modes'])},
                      'obj': {'ok': s['obj']['ok'], 'attrs': sorted(s['obj']['attrs']), 'rotZero': s['obj']['rotZero'],
                              'qrotE': s['obj']['qrotE'], 'qtransE': s['obj']['qtransE'],
                              'qrotEMax': s['obj']['qrotEMax'], 'modes': list(s['obj']['modes'])}})
    return {'kind': 'beh', 'via': via, 'steps': steps}


def run(ctx):
    ctx.coverage['rule'] = (
        'beh cases: behaviours (Construct / ToDict / FromDict) of spec/Zacros.tla replayed on real Zacros objects, '
        'all of the small instance (sampled in the quick tier) plus random long ones in the thorough tier; species '
        'cases: random Zacros species (gas linear / nonlinear / monatomic / from ase atoms, surface; 1-8 modes or the '
        'zero placeholder; with and without A_st) with defaults and a dict or JSON round trip; compare cases: Nasa / '
        'Shomate species with a StatMech model of 1-5 modes, T given as an array of 1-6 values (length = number of '
        'modes forced in a third), a scalar, or omitted; non-trivial: a behaviour with >= 2 steps, a species that '
        'has at least one derived quantity beyond the defaults, every compare case; distinct by content')
    rnd = random.Random(ctx.seed)
    if ctx.replay_case is not None:
        cases = [ctx.replay_case['case']]
    else:
        prints = run_models(ctx)
        ctx.coverage['tlc_behaviours'] = len(prints)
        rnd.shuffle(prints)
        if ctx.quick:
            # stratified sample: every behaviour that reloads, 300 that stop after to_dict, the rest constructions
            fd = [p for p in prints if '"from_dict"' in p]
            td = [p for p in prints if '"to_dict"' in p and '"from_dict"' not in p]
            cc = [p for p in prints if '"to_dict"' not in p]
            prints = fd + td[:300] + cc[:max(0, 1200 - len(fd) - 300)]
        if not ctx.quick:
            rs = core.run_tlc('MC_Zacros', 'MC_Zacros_sim', workers=1, timeout=1500,
                              extra=['-simulate', 'num=1500', '-depth', '8', '-seed', str(ctx.seed + 11)])
            sims = [p for p in rs.prints() if core.tagged(p, 'BEH')]
            if not sims:
                raise core.MachineryError('simulation produced no behaviours:\n' + rs.out[-2000:])
            prints += sims
        cases = [beh_case(p, 'json' if i % 2 else 'dict') for i, p in enumerate(prints)]
        for i in range(ctx.pick(600, 20000)):
            cases.append({'kind': 'species', 'cseed': rnd.randrange(1 << 30), 'via': 'json' if i % 2 else 'dict'})
        for i in range(ctx.pick(200, 5000)):
            nm = rnd.randint(1, 5)
            tmode = rnd.choice(['array', 'array', 'array', 'forced', 'forced', 'default', 'scalar'])
            cases.append({'kind': 'compare', 'fam': 'nasa' if i % 2 else 'shomate', 'nmodes': nm,
                          'tmode': tmode, 'n': nm if tmode == 'forced' else rnd.randint(1, 6),
                          'cseed': rnd.randrange(1 << 30)})
    results = core.pmap(execute, cases)
    traces = []
    for tid, (case, (events, info)) in enumerate(zip(cases, results)):
        ctx.evaluated()
        tags = {'kind': case['kind']}
        if 'raised' in info:
            ctx.violation('HarnessRaises', case, tags=tags, detail=info)
        if case['kind'] == 'beh':
            if len(case['steps']) > 1:
                ctx.nontrivial(['beh', case['via'], [(s['act'], s['inp']) for s in case['steps']]])
            done = set()
            for m in info.get('mism', []):
                if m['clause'] in done:
                    continue
                done.add(m['clause'])
                t = dict(tags, act=m['act'], field=m['field'], phase=m['inp']['phase'], geom=m['inp']['geom'],
                         vib='zero' if m['inp']['modes'] == [0] else 'real',
                         err=(m.get('err') or '').split(':')[0], shim=m['shim'])
                ctx.violation(m['clause'], case, tags=t, detail=m)
        elif case['kind'] == 'species':
            sp = info.get('species', {})
            if sp.get('phase') == 'G' or sp.get('A') is not None or any(sp.get('wn', [])):
                ctx.nontrivial(['species', case['cseed'], case['via']])
        else:
            ctx.nontrivial(['compare', case['fam'], case['nmodes'], case['tmode'], case['n'], case['cseed']])
        if info.get('shim'):
            ctx.count('shim_np_product')
        traces.append((tid, events))
        if tid % 997 == 0:
            ctx.sample({k: v for k, v in case.items() if k != 'steps'} if case['kind'] == 'beh' else case)
    ex = {}

    def tally(k):
        ex[k] = ex.get(k, 0) + 1
    for case in cases:
        if case['kind'] == 'beh':
            for st in case['steps']:
                tally('beh:' + st['act'])
    for _, evs in traces:
        for e in evs:
            if e['ev'] == 'construct' and not e['raised'] and e['finite']:
                i = e['in']
                tally('construct:' + (i['geom'] if i['phase'] == 'G' else 'surface') + (':atoms' if i['fromAtoms'] else ''))
                tally('construct:' + ('A_st' if i['hasA'] else 'noA_st'))
                tally('construct:' + ('realmodes' if e['r']['hasq'] else 'zeromodes'))
            elif e['ev'] == 'roundtrip':
                tally('roundtrip:' + e['via'] + (':reloaded' if e['isobj'] else ':failed'))
            elif e['ev'] == 'compare' and not e['raised']:
                tally('compare:' + ('given' if e['given'] else 'default'))
            elif e['ev'] == 'defaults' and not e['raised']:
                tally('defaults')
    ctx.coverage['exercised'] = dict(sorted(ex.items()))
    if ctx.replay_case is None:
        need = ('construct:linear', 'construct:nonlinear', 'construct:surface', 'construct:A_st', 'compare:given',
                'compare:default', 'beh:to_dict', 'beh:from_dict')
        # vacuity guard: on a tree where the constructor works every branch of the trace spec must be reached
        if ex.get('construct:A_st', 0) > 50 and any(ex.get(k, 0) == 0 for k in need):
            raise core.MachineryError('a branch of the specification was never exercised: %r' % ex)
    fails, stats = core.validate_traces('Trace_Zacros', 'Trace', traces)
    ctx.count('traces_validated_against_impl', len([t for t in traces if t[1]]))
    ctx.coverage['trace_lines'] = stats['lines']
    seen = set()
    for tid, idx, clause in fails:
        case = cases[tid]
        ev = traces[tid][1][idx]
        tags = {'kind': case['kind'], 'ev': ev['ev']}
        if ev['ev'] == 'construct':
            tags.update(phase=ev['in']['phase'], geom=ev['in']['geom'], fromAtoms=ev['in']['fromAtoms'],
                        vib='zero' if all(w[0] == 0 for w in ev['in']['wn']) else 'real')
        elif ev['ev'] == 'roundtrip':
            tags.update(via=ev['via'], phase=ev['before']['phase'])
        elif ev['ev'] == 'compare':
            tags.update(which=ev['which'], fam=ev['fam'], tmode=case['tmode'],
                        broadcast=case['tmode'] not in ('scalar',) and (case['nmodes'] == 1 or (
                            50 if case['tmode'] == 'default' else case['n']) == case['nmodes']))
        tags['err'] = (ev.get('err') or '').split(':')[0]
        tags['shim'] = bool(ev.get('shim'))
        key = (tid, clause, ev['ev'], ev.get('which'))
        if key in seen:
            continue
        seen.add(key)
        ctx.violation(clause, case, tags=tags,
                      detail={'event_index': idx, 'err': ev.get('err'), 'species': results[tid][1].get('species')})
    ctx.assume('exp(-x) and 1-exp(-x) are libm sensors computed from the logged wavenumbers; quotients are witnesses '
               'verified by multiplication in TLA+; squares are compared instead of square roots')
    ctx.assume('CODATA 2014 constants and the unit factors documented in pmutt.constants.convert_unit (kcal/J, amu/kg) are '
               'held by the specification; atomic weights are read from the table pmutt.constants.atomic_weight')
    ctx.assume('power-of-two scaling of sigma, the moments and the area commutes exactly with IEEE arithmetic (no '
               'underflow for moments >= 1e-46 kg m2)')
    if ctx.coverage.get('shim_np_product'):
        ctx.notes.append('shim_np_product: in %d case(s) the constructor raised the known AttributeError (numpy.product, '
                         'finding X08-F1); after recording it the case was continued with numpy.product = numpy.prod '
                         'provided inside the driver process only' % ctx.coverage['shim_np_product'])
    ctx.assume('ase.Atoms.get_moments_of_inertia is trusted for species built from atoms')


if __name__ == '__main__':
    core.main('X08', 'model_checking', run)
