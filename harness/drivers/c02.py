"""C02 - NASA-7, NASA-9 and Shomate species are internally consistent polynomials.

(D)    spec/Poly.tla: formal calculus on the basis tables (d(T H/RT)/dT = Cp,
       T dS/dT = Cp for every coefficient of every family) and the segment
       selection rule (implementation rule within the set the property allows),
       checked by TLC; TLC also emits every selection / array-dispatch case.
(S->C) each emitted case is instantiated with real species whose segments have
       distinct coefficients; scalar and array getters are called.
(C->S) spec/Trace_Poly.tla judges: basis binding (unit-vector probes of the
       evaluators against the same tables), linearity, segment chosen / refused,
       array = map of scalar, G = H - S, Richardson derivative relations.
"""
import math
import random

from harness import core
from harness.core import to_dec, to_dec2

BOUNDS = [
    {1: 200.0, 2: 1000.0, 3: 2500.0, 4: 4000.0, 5: 6000.0},
    {1: 298.15, 2: 873.4, 3: 1499.9, 4: 3100.5, 5: 5000.25},
]
UNITS = ['J/mol/K', 'cal/mol/K', 'kJ/mol/K', 'eV/K']
H_STEP = 2.0 ** -7


def pos_to_T(p, bounds, last_b):
    b, r = divmod(p, 4)
    if b == 0:                       # below the first boundary
        return bounds[1] * 0.5 if r == 2 else math.nextafter(bounds[1], -math.inf)
    if r == 0:
        return bounds[b]
    if r == 1:
        return math.nextafter(bounds[b], math.inf)
    if b == last_b:                  # above the last boundary (r == 2)
        return bounds[b] * 1.2
    if r == 2:
        return 0.5 * (bounds[b] + bounds[b + 1])
    return math.nextafter(bounds[b + 1], -math.inf)


def _coeffs(rnd, n, family):
    # every term contributes O(1) around 1000 K (t = 1 for Shomate)
    if family == 'nasa7':
        p = [0, 1, 2, 3, 4]
        a = [rnd.uniform(-2, 2) * 1000.0 ** -x for x in p] + [rnd.uniform(-3e3, 3e3), rnd.uniform(-5, 5)]
    elif family == 'nasa9':
        p = [-2, -1, 0, 1, 2, 3, 4]
        a = [rnd.uniform(-2, 2) * 1000.0 ** -x for x in p] + [rnd.uniform(-3e3, 3e3), rnd.uniform(-5, 5)]
    else:
        a = [rnd.uniform(-30, 30) for _ in range(5)] + [rnd.uniform(-50, 50), rnd.uniform(-50, 50), rnd.uniform(-5, 5)]
    return a


def _evaluators(family):
    import numpy as np
    from pmutt.empirical import nasa as N
    from pmutt.empirical import shomate as S
    if family == 'nasa7':
        return (lambda a, T, u: float(N.get_nasa_CpoR(a=np.array(a), T=T)),
                lambda a, T, u: float(N.get_nasa_HoRT(a=np.array(a), T=T)),
                lambda a, T, u: float(N.get_nasa_SoR(a=np.array(a), T=T)))
    if family == 'nasa9':
        return (lambda a, T, u: float(np.squeeze(N.get_nasa9_CpoR(a=np.array(a), T=np.array([T])))),
                lambda a, T, u: float(np.squeeze(N.get_nasa9_HoRT(a=np.array(a), T=np.array([T])))),
                lambda a, T, u: float(np.squeeze(N.get_nasa9_SoR(a=np.array(a), T=np.array([T])))))
    return (lambda a, T, u: float(S.get_shomate_CpoR(a=np.array(a), T=np.array([T]), units=u)[0]),
            lambda a, T, u: float(S.get_shomate_HoRT(a=np.array(a), T=np.array([T]), units=u)[0]),
            lambda a, T, u: float(S.get_shomate_SoR(a=np.array(a), T=np.array([T]), units=u)[0]))


def _build(family, segs, bounds, coefs, units='J/mol/K'):
    import numpy as np
    from pmutt.empirical.nasa import Nasa, Nasa9, SingleNasa9
    from pmutt.empirical.shomate import Shomate
    if family == 'nasa7':
        return Nasa(name='sp', T_low=bounds[segs[0][0]], T_mid=bounds[segs[0][1]],
                    T_high=bounds[segs[1][1]], a_low=np.array(coefs[0]), a_high=np.array(coefs[1]),
                    phase='S', elements={'H': 2, 'O': 1})
    if family == 'nasa9':
        nasas = [SingleNasa9(T_low=bounds[lo], T_high=bounds[hi], a=np.array(cf))
                 for (lo, hi), cf in zip(segs, coefs)]
        return Nasa9(name='sp', nasas=nasas, phase='S', elements={'H': 2, 'O': 1})
    return Shomate(name='sp', T_low=bounds[segs[0][0]], T_high=bounds[segs[0][1]],
                   a=np.array(coefs[0]), units=units, phase='S', elements={'H': 2, 'O': 1})


def _call(fn):
    """-> ('ok', value) | ('raise', None) for ValueError | ('error', repr)"""
    try:
        return 'ok', fn()
    except ValueError as ex:
        return 'raise', str(ex)
    except Exception as ex:                      # noqa
        return 'error', '%s: %s' % (type(ex).__name__, ex)


def exec_select(case):
    import numpy as np
    import warnings
    warnings.simplefilter('ignore')
    rnd = random.Random(case['cseed'])
    f, segs = case['f'], case['segs']
    bounds = BOUNDS[case['bset']]
    last_b = segs[-1][1]
    units = UNITS[case['cseed'] % len(UNITS)]
    coefs = [_coeffs(rnd, 0, f) for _ in segs]
    obj = _build(f, segs, bounds, coefs, units)
    Ts = [pos_to_T(p, bounds, last_b) for p in case['ps']]
    ev = _evaluators(f)
    getters = (obj.get_CpoR, obj.get_HoRT, obj.get_SoR)
    seg_vals, sc = [], []
    detail = {'T': Ts, 'units': units}
    nco = len(coefs[0])
    mags = []
    for T in Ts:
        seg_vals.append([[to_dec2(e(cf, T, units)) for e in ev] for cf in coefs])
        # largest single term |a_j * basis_j(T)| of any segment, per quantity: the scale against which
        # "exactly" is read (a polynomial value can be a cancelled sum of much larger terms)
        m = []
        for e in ev:
            big = 0.0
            for cf in coefs:
                for j in range(nco):
                    unit = [0.0] * nco
                    unit[j] = 1.0
                    big = max(big, abs(cf[j] * e(unit, T, units)))
            m.append(to_dec(big))
        mags.append(m)
        res = [_call(lambda g=g: float(np.squeeze(g(T=T)))) for g in getters]
        sts = {r[0] for r in res}
        if sts == {'ok'}:
            sc.append({'st': 'ok', 'v': [to_dec2(r[1]) for r in res]})
        elif sts == {'raise'}:
            sc.append({'st': 'raise', 'v': []})
        else:
            sc.append({'st': 'error', 'v': []})
            detail['scalar_error'] = [r[1] for r in res if r[0] != 'ok']
    arr_in = np.array(Ts) if case['cseed'] % 2 == 0 else list(Ts)
    res = [_call(lambda g=g: [float(x) for x in np.atleast_1d(g(T=arr_in))]) for g in getters]
    sts = {r[0] for r in res}
    if sts == {'ok'}:
        arr = {'st': 'ok', 'v': [[to_dec2(x) for x in r[1]] for r in res]}
    elif sts == {'raise'}:
        arr = {'st': 'raise', 'v': []}
    else:
        arr = {'st': 'error', 'v': []}
        detail['array_error'] = [str(r[1])[:200] for r in res if r[0] != 'ok']
    # the same temperatures with an integer dtype, when they are integral
    arri = {'st': 'skip', 'v': []}
    sci = []
    scint = []          # per temperature: status of the evaluation at the Python int ("na": not integral)
    if all(float(t).is_integer() for t in Ts):
        ints = [int(t) for t in Ts]
        ok = True
        for t in ints:
            t_in = (t, np.int64(t), np.int32(t))[case['cseed'] % 3]
            r = [_call(lambda g=g: float(np.squeeze(g(T=t_in)))) for g in getters]
            st = {x[0] for x in r}
            scint.append('ok' if st == {'ok'} else 'raise' if st == {'raise'} else 'error')
            if st != {'ok'}:
                ok = False
                detail.setdefault('int_scalar_error', []).append([t] + [str(x[1])[:120] for x in r if x[0] != 'ok'])
                sci.append([])
                continue
            sci.append([to_dec2(x[1]) for x in r])
        if ok:
            int_in = (np.array(ints), np.array(ints, dtype=np.int32), list(ints), np.array(ints, dtype=np.int16)
                      if max(ints) < 32000 else np.array(ints, dtype=np.int32))[case['cseed'] % 4]
            res = [_call(lambda g=g: [float(x) for x in np.atleast_1d(g(T=int_in))]) for g in getters]
            if {r[0] for r in res} == {'ok'}:
                arri = {'st': 'ok', 'v': [[to_dec2(x) for x in r[1]] for r in res]}
            else:
                arri = {'st': 'error', 'v': []}
                detail['int_array_error'] = [str(r[1])[:200] for r in res if r[0] != 'ok']
    else:
        scint = ['na'] * len(Ts)
    e = {'ev': 'select', 'f': f, 'n': len(Ts), 'acc': case['acc'], 'seg': seg_vals, 'sc': sc, 'arr': arr,
         'arri': arri, 'sci': sci, 'scint': scint, 'mag': mags}
    return [e], detail


def exec_numeric(case):
    """basis / linear / ghs / deriv probes"""
    import numpy as np
    import warnings
    warnings.simplefilter('ignore')
    from pmutt import constants as c
    kind = case['kind']
    f = case['f']
    rnd = random.Random(case['cseed'])
    ev = _evaluators(f)
    qi = {'Cp': 0, 'H': 1, 'S': 2}
    n = {'nasa7': 7, 'nasa9': 9, 'shomate': 8}[f]
    out = []
    if kind == 'basis':
        k, q, T, units = case['k'], case['q'], case['T'], case['units']
        unit = [0.0] * n
        unit[k - 1] = 1.0
        val = ev[qi[q]](unit, T, units)
        X = T / 1000.0 if f == 'shomate' else T
        out.append({'ev': 'basis', 'f': f, 'q': q, 'k': k, 'T': to_dec(T), 'X': to_dec(X),
                    'iX': to_dec(1.0 / X), 'lX': to_dec(math.log(X)), 'val': to_dec(val),
                    'R': to_dec(c.R(units))})
    elif kind == 'linear':
        q, T, units = case['q'], case['T'], case['units']
        a = _coeffs(rnd, 0, f)
        us = []
        for k in range(n):
            unit = [0.0] * n
            unit[k] = 1.0
            us.append(ev[qi[q]](unit, T, units))
        out.append({'ev': 'linear', 'f': f, 'q': q, 'a': [to_dec(x) for x in a],
                    'units': [to_dec(x) for x in us], 'val': to_dec(ev[qi[q]](a, T, units))})
    else:
        segs = {'nasa7': [[1, 2], [2, 3]], 'nasa9': [[1, 2], [2, 3], [3, 4]], 'shomate': [[1, 2]]}[f]
        bounds = BOUNDS[case['cseed'] % 2]
        coefs = [_coeffs(rnd, 0, f) for _ in segs]
        obj = _build(f, segs, bounds, coefs, UNITS[case['cseed'] % len(UNITS)])
        j = rnd.randrange(len(segs))
        lo, hi = bounds[segs[j][0]], bounds[segs[j][1]]
        if kind == 'ghs':
            T = rnd.uniform(lo, hi)
            if f == 'nasa7' and j == 0:
                T = min(T, math.nextafter(hi, -math.inf))
            out.append({'ev': 'ghs', 'f': f, 'G': to_dec(float(np.squeeze(obj.get_GoRT(T=T)))),
                        'H': to_dec(float(np.squeeze(obj.get_HoRT(T=T)))),
                        'S': to_dec(float(np.squeeze(obj.get_SoR(T=T))))})
            # the same relation under the entropy-of-the-elements option, dimensionless and in J/mol, for a
            # scalar and for a one-element array T
            rows = []
            T_in = T if case['cseed'] % 2 else np.array([T])
            for se in (False, True):
                rows.append({'se': se,
                             'G': to_dec(float(np.squeeze(obj.get_GoRT(T=T_in, S_elements=se)))),
                             'H': to_dec(float(np.squeeze(obj.get_HoRT(T=T_in)))),
                             'S': to_dec(float(np.squeeze(obj.get_SoR(T=T_in, S_elements=se)))),
                             'Gd': to_dec(float(np.squeeze(obj.get_G(T=T_in, units='J/mol', S_elements=se)))),
                             'Hd': to_dec(float(np.squeeze(obj.get_H(T=T_in, units='J/mol')))),
                             'Sd': to_dec(float(np.squeeze(obj.get_S(T=T_in, units='J/mol/K', S_elements=se))))})
            out.append({'ev': 'ghsopt', 'f': f, 'T': to_dec(T), 'rows': rows})
        else:
            h = H_STEP
            T = rnd.uniform(lo / (1 - 2 * h) * 1.0001, hi / (1 + 2 * h) * 0.9999)
            Ts = [T * (1 - 2 * h), T * (1 - h), T * (1 + h), T * (1 + 2 * h)]
            out.append({'ev': 'deriv', 'f': f, 'T': to_dec(T), 'h': to_dec(h),
                        'Cp': to_dec(float(np.squeeze(obj.get_CpoR(T=T)))),
                        'Ts': [to_dec(x) for x in Ts],
                        'H': [to_dec(float(np.squeeze(obj.get_HoRT(T=x)))) for x in Ts],
                        'S': [to_dec(float(np.squeeze(obj.get_SoR(T=x)))) for x in Ts]})
    return out, {}


def execute(case):
    try:
        if case['kind'] == 'select':
            return exec_select(case)
        return exec_numeric(case)
    except core.MachineryError:
        raise
    except Exception as ex:
        return [], {'raised': '%s: %s' % (type(ex).__name__, ex)}


def _numeric_cases(ctx, rnd):
    cases = []
    temps = [60.0, 150.0, 298.15, 500.0, 777.7, 1000.0, 1500.0, 2222.2, 3000.0, 4000.0, 5000.0, 6000.0]
    for f, n in (('nasa7', 7), ('nasa9', 9), ('shomate', 8)):
        for q in ('Cp', 'H', 'S'):
            for k in range(1, n + 1):
                for i, T in enumerate(temps if not ctx.quick else temps[::2] + [rnd.uniform(50, 6000)]):
                    cases.append({'kind': 'basis', 'f': f, 'q': q, 'k': k, 'T': T,
                                  'units': UNITS[(i + k) % len(UNITS)], 'cseed': 0})
            for i in range(ctx.pick(15, 150)):
                cases.append({'kind': 'linear', 'f': f, 'q': q, 'T': rnd.uniform(50, 6000),
                              'units': UNITS[i % len(UNITS)], 'cseed': rnd.randrange(1 << 30)})
        for i in range(ctx.pick(60, 1500)):
            cases.append({'kind': 'ghs', 'f': f, 'cseed': rnd.randrange(1 << 30)})
            cases.append({'kind': 'deriv', 'f': f, 'cseed': rnd.randrange(1 << 30)})
    return cases


def run(ctx):
    ctx.coverage['rule'] = (
        'select cases are every (family, segment layout, temperature position / array of positions) '
        'emitted by TLC from Poly.tla, instantiated with random distinct per-segment coefficients; '
        'basis cases are unit-vector probes of every coefficient of every evaluator; linear/ghs/deriv '
        'cases use random coefficient vectors; non-trivial: a select case that touches a boundary, a '
        'neighbouring double, a gap or an out-of-range position, or any numeric probe with a non-zero '
        'table entry; distinct by (kind, family, layout, positions / coefficient index, quantity)')
    rnd = random.Random(ctx.seed)
    if ctx.replay_case is not None:
        cases = [ctx.replay_case['case']]
    else:
        data, r = core.tlc_cases('MC_Poly', 'MC_Poly')
        ctx.count('states', r.distinct)
        ctx.count('transitions', r.states)
        ctx.coverage.setdefault('models', []).append(
            {'module': 'MC_Poly', 'cfg': 'MC_Poly', 'distinct_states': r.distinct, 'ok': r.ok,
             'assumes': ['CalculusOK (24 coefficient terms x dH=Cp, TdS=Cp, integration constants)',
                         'SelectOK (implementation rule within the allowed set for every position)']})
        if not r.ok:
            raise core.MachineryError('Poly design model failed:\n' + r.out[-3000:])
        sel = list(data['scalar'])
        arr = list(data['array'])
        longs = list(data['long'])
        ctx.coverage['tlc_scalar_cases'] = len(sel)
        ctx.coverage['tlc_array_cases'] = len(arr)
        ctx.coverage['tlc_long_array_cases'] = len(longs)
        rnd.shuffle(arr)
        if ctx.quick:
            arr = arr[:2500]
        cases = []
        rnd.shuffle(longs)
        if ctx.quick:
            longs = longs[:500]
        for i, cs in enumerate(sel + arr + longs):
            for bset in ((0, 1) if (len(cs['ps']) == 1 or not ctx.quick) else (i % 2,)):
                cases.append({'kind': 'select', 'f': cs['f'], 'segs': cs['segs'], 'ps': cs['ps'],
                              'acc': cs['acc'], 'bset': bset, 'cseed': rnd.randrange(1 << 30)})
        cases += _numeric_cases(ctx, rnd)
    results = core.pmap(execute, cases)
    traces = []
    for tid, (case, (events, detail)) in enumerate(zip(cases, results)):
        ctx.evaluated()
        if 'raised' in detail:
            ctx.violation('Raises', case, tags={'kind': case['kind'], 'f': case['f']}, detail=detail)
        if case['kind'] == 'select':
            if any(p % 4 != 2 or p == 2 for p in case['ps']) or any(a == [0] for a in case['acc']):
                ctx.nontrivial(['select', case['f'], case['segs'], case['ps'], case['bset']])
        else:
            ctx.nontrivial([case['kind'], case['f'], case.get('q'), case.get('k'), case.get('T'), case['cseed']])
        traces.append((tid, events))
        if tid % 1499 == 0:
            ctx.sample({k: v for k, v in case.items()})
    fails, stats = core.validate_traces('Trace_Poly', 'Trace_Poly', traces)
    ctx.count('traces_validated_against_impl', len(traces))
    ctx.coverage['trace_lines'] = stats['lines']
    for tid, idx, clause in fails:
        case = cases[tid]
        tags = {'kind': case['kind'], 'f': case['f'], 'q': case.get('q'),
                'arr': len(case.get('ps', [])) > 1}
        ctx.violation(clause, case, tags=tags, detail=results[tid][1])
    ctx.assume('ln T is a libm sensor computed from the logged temperature; 1/T is a witness verified by multiplication')
    ctx.assume('array = map of scalar is read as agreement to 1e-13 relative (Shomate BLAS path differs from scalar by ~3e-15)')
    ctx.assume('derivative clauses (Richardson, h = 2^-7) detect relative Cp errors above ~1e-4; the exact statement is the '
               'symbolic calculus on the tables plus the basis binding at 1e-6')


if __name__ == '__main__':
    core.main('C02', 'model_checking', run)
