"""C02 - NASA-7, NASA-9 and Shomate species are internally consistent polynomials.

(D)    spec/Poly.tla: formal calculus on the basis tables (d(T H/RT)/dT = Cp,
       T dS/dT = Cp for every coefficient of every family) and the segment
       selection rule (implementation rule within the set the property allows,
       for every layout with 1-4 NASA-9 segments in every stored order),
       checked by TLC; TLC also emits every selection / array-dispatch case.
(S->C) each emitted case is instantiated with real species whose segments have
       distinct coefficients; scalar and array getters are called.  The forms
       in which a caller may give the inputs (containers, number types, units,
       constructor, stored order) are enumerated round-robin over the cases.
(C->S) spec/Trace_Poly.tla judges: basis binding (unit-vector probes of the
       evaluators against the same tables), linearity, segment chosen / refused,
       array = map of scalar, G = H - S, Richardson derivative relations.
"""
import math
import os
import random

from harness import core
from harness import lib_c02 as L
from harness.core import to_dec, to_dec2

H_STEP = 2.0 ** -7
QI = {'Cp': 0, 'H': 1, 'S': 2}
GETTERS = ('get_CpoR', 'get_HoRT', 'get_SoR')


def _call(fn):
    """-> ('ok', value) | ('raise', msg) for ValueError | ('error', repr)"""
    try:
        return 'ok', fn()
    except ValueError as ex:
        return 'raise', str(ex)
    except Exception as ex:                      # noqa
        return 'error', '%s: %s' % (type(ex).__name__, ex)


def _status(res):
    sts = {r[0] for r in res}
    return 'ok' if sts == {'ok'} else 'raise' if sts == {'raise'} else 'error'


def _case_setup(case):
    """-> (forms, bounds, coefs (plain lists, canonical order), object, temperatures, acc)"""
    rnd = random.Random(case['cseed'])
    forms = L.forms_of(case)
    f, segs = case['f'], case['segs']
    order = case.get('ord') or list(range(1, len(segs) + 1))
    bounds = L.bounds_of(case['bset'], case['cseed'])
    coefs = L.coefficient_sets(rnd, f, len(segs), forms['akind'], forms['scale'])
    obj = L.build(f, segs, order, bounds, coefs, forms, single=bool(case.get('single')))
    if 'xT' in case:
        # temperatures strictly inside a named segment: the acceptable segment is known by construction
        Ts = []
        acc = []
        for j, u in case['xT']:
            lo, hi = bounds[segs[j - 1][0]], bounds[segs[j - 1][1]]
            if u in (0.0, 1.0):
                # exactly ON a bound of the segment (a long array may hold break temperatures too): every segment
                # that has this bound is acceptable here; which one the library takes is judged by the TLC cases,
                # array = map of scalar is judged on this element like on any other
                b = segs[j - 1][0] if u == 0.0 else segs[j - 1][1]
                Ts.append(float(bounds[b]))
                acc.append(sorted(k + 1 for k, sg in enumerate(segs) if b in sg))
                continue
            T = lo + u * (hi - lo)
            T = min(max(T, math.nextafter(lo, math.inf)), math.nextafter(hi, -math.inf))
            Ts.append(T)
            acc.append([j])
    else:
        last_b = segs[-1][1]
        Ts = [L.pos_to_T(p, bounds, last_b) for p in case['ps']]
        acc = case['acc']
    return rnd, forms, bounds, coefs, obj, Ts, acc


def exec_select(case):
    import numpy as np
    import warnings
    warnings.simplefilter('ignore')
    rnd, forms, bounds, coefs, obj, Ts, acc = _case_setup(case)
    f = case['f']
    units = forms['units']
    ev = L.evaluators(f)
    getters = [getattr(obj, g) for g in GETTERS]
    seg_vals, sc, mags = [], [], []
    detail = {'T': Ts if len(Ts) <= 16 else Ts[:16] + ['...'], 'forms': forms}

    def scalar_at(T):
        res = [_call(lambda g=g: float(np.squeeze(g(T=L.scalar_form(T, forms['tscalar']))))) for g in getters]
        st = _status(res)
        if st == 'ok':
            return {'st': 'ok', 'v': [to_dec2(r[1]) for r in res]}
        if st == 'error':
            detail.setdefault('scalar_error', []).append([T] + [r[1] for r in res if r[0] != 'ok'][:1])
        return {'st': st, 'v': []}

    for T in Ts:
        seg_vals.append([[to_dec2(e(cf, T, units)) for e in ev] for cf in coefs])
        mags.append([to_dec(x) for x in L.largest_terms(ev, coefs, T, units)])
        sc.append(scalar_at(T))

    def array_call(arg, key):
        res = [_call(lambda g=g: [float(x) for x in np.atleast_1d(g(T=arg))]) for g in getters]
        st = _status(res)
        if st == 'ok':
            return {'st': 'ok', 'v': [[to_dec2(x) for x in r[1]] for r in res]}
        if st == 'error':
            detail[key] = [str(r[1])[:200] for r in res if r[0] != 'ok'][:1]
        return {'st': st, 'v': []}

    arr = array_call(L.container(Ts, forms['tcont']), 'array_error')
    # the same temperatures with an integer dtype, when they are integral
    arri = {'st': 'skip', 'v': []}
    sci = []
    scint = []          # per temperature: status of the evaluation at the Python int ("na": not integral)
    if all(float(t).is_integer() for t in Ts) and len(Ts) <= 16:
        ints = [int(t) for t in Ts]
        ok = True
        for t in ints:
            t_in = (t, np.int64(t), np.int32(t))[case['cseed'] % 3]
            r = [_call(lambda g=g: float(np.squeeze(g(T=t_in)))) for g in getters]
            st = _status(r)
            scint.append(st)
            if st != 'ok':
                ok = False
                detail.setdefault('int_scalar_error', []).append([t] + [str(x[1])[:120] for x in r if x[0] != 'ok'])
                sci.append([])
                continue
            sci.append([to_dec2(x[1]) for x in r])
        if ok:
            int_in = (np.array(ints), np.array(ints, dtype=np.int32), list(ints), np.array(ints, dtype=np.int16)
                      if max(ints) < 32000 else np.array(ints, dtype=np.int32), tuple(ints))[case['cseed'] % 5]
            arri = array_call(int_in, 'int_array_error')
            if arri['st'] != 'ok':
                arri = {'st': 'error', 'v': []}
    else:
        scint = ['na'] * len(Ts)
    # an array of no temperatures (same container kind)
    emp = 'na'
    if case.get('emp'):
        res = [_call(lambda g=g: np.asarray(g(T=L.container([], forms['tcont'])))) for g in getters]
        if _status(res) != 'ok':
            emp = 'error'
            detail['empty_error'] = [str(r[1])[:200] for r in res if r[0] != 'ok'][:1]
        else:
            emp = 'ok' if all(r[1].ndim == 1 and r[1].size == 0 for r in res) else 'nonempty'
    # the temperatures as a 2-D array
    twod = {'st': 'na', 'v': []}
    if case.get('twod') and len(Ts) in (4, 6, 8, 9, 12):
        n = len(Ts)
        rows = 3 if n == 9 else 2
        res = [_call(lambda g=g: [float(x) for x in np.asarray(g(T=np.array(Ts).reshape(rows, n // rows))).ravel()])
               for g in getters]
        st = _status(res)
        twod = {'st': st, 'v': [[to_dec2(x) for x in r[1]] for r in res] if st == 'ok' else []}
    # second scalar evaluation, in reverse order, on the same object
    sc2 = [None] * len(Ts)
    for i in reversed(range(len(Ts))):
        sc2[i] = scalar_at(Ts[i])
    e = {'ev': 'select', 'f': f, 'n': len(Ts), 'acc': acc, 'seg': seg_vals, 'sc': sc, 'arr': arr,
         'arri': arri, 'sci': sci, 'scint': scint, 'mag': mags, 'sc2': sc2, 'emp': emp, 'twod': twod}
    return [e], detail


def _inside(rnd, f, segs, bounds, j):
    lo, hi = bounds[segs[j][0]], bounds[segs[j][1]]
    T = rnd.uniform(lo, hi)
    if f == 'nasa7' and j == 0:
        T = min(T, math.nextafter(hi, -math.inf))
    return T


def _inside_or_on_bound(rnd, f, segs, bounds, j):
    """a temperature inside segment j or, in a third of the draws, exactly ON one of its two bounds (range ends and
    break temperatures: G = H - T S must hold there too, whichever segment the library takes for the point)"""
    if rnd.random() < 0.35:
        return float(bounds[segs[j][rnd.randrange(2)]])
    return _inside(rnd, f, segs, bounds, j)


def exec_numeric(case):
    """basis / linear / ghs / deriv / edit probes"""
    import numpy as np
    import warnings
    warnings.simplefilter('ignore')
    from pmutt import constants as c
    kind = case['kind']
    f = case['f']
    rnd = random.Random(case['cseed'])
    ev = L.evaluators(f)
    n = L.NCOEF[f]
    out = []
    if kind == 'basis':
        k, q, T, units = case['k'], case['q'], case['T'], case['units']
        unit = [0.0] * n
        unit[k - 1] = 1.0
        val = ev[QI[q]](unit, T, units)
        X = T / 1000.0 if f == 'shomate' else T
        out.append({'ev': 'basis', 'f': f, 'q': q, 'k': k, 'T': to_dec(T), 'X': to_dec(X),
                    'iX': to_dec(1.0 / X), 'lX': to_dec(math.log(X)), 'val': to_dec(val),
                    'R': to_dec(c.R(units))})
        return out, {}
    if kind == 'linear':
        q, T, units = case['q'], case['T'], case['units']
        a = L.dense(rnd, f)
        us = []
        for k in range(n):
            unit = [0.0] * n
            unit[k] = 1.0
            us.append(ev[QI[q]](unit, T, units))
        out.append({'ev': 'linear', 'f': f, 'q': q, 'a': [to_dec(x) for x in a],
                    'units': [to_dec(x) for x in us], 'val': to_dec(ev[QI[q]](a, T, units))})
        return out, {}
    forms = L.forms_of(case)
    segs = case['segs']
    order = case.get('ord') or list(range(1, len(segs) + 1))
    bounds = L.bounds_of(case['bset'], case['cseed'])
    coefs = L.coefficient_sets(rnd, f, len(segs), forms['akind'], forms['scale'])
    obj = L.build(f, segs, order, bounds, coefs, forms)
    units = forms['units']
    gu = forms['gunits']                      # unit of the dimensional getters (independent of the fitting unit)
    eu = L.energy_unit(gu)
    sq = lambda x: float(np.squeeze(x))       # noqa
    detail = {'forms': forms}
    if kind == 'ghs':
        j = rnd.randrange(len(segs))
        T = _inside_or_on_bound(rnd, f, segs, bounds, j)
        detail['ghs_T_on_bound'] = T in [float(b) for b in bounds.values()]
        out.append({'ev': 'ghs', 'f': f, 'G': to_dec(sq(obj.get_GoRT(T=T))), 'H': to_dec(sq(obj.get_HoRT(T=T))),
                    'S': to_dec(sq(obj.get_SoR(T=T)))})
        if f == 'shomate':                    # the module-level helper of the anchors
            from pmutt.empirical import shomate as S
            Ta = np.array([T])
            a = np.array(coefs[0])
            out.append({'ev': 'ghs', 'f': f, 'G': to_dec(S.get_shomate_GoRT(a=a, T=Ta, units=units)[0]),
                        'H': to_dec(S.get_shomate_HoRT(a=a, T=Ta, units=units)[0]),
                        'S': to_dec(S.get_shomate_SoR(a=a, T=Ta, units=units)[0])})
        # the same relation under the entropy-of-the-elements option, dimensionless and in the unit `gu`, for every
        # temperature of an array (length 1-5, any container), and the dimensional getters on the whole array
        nT = case.get('nT', 1)
        Ts = [T] + [_inside_or_on_bound(rnd, f, segs, bounds, rnd.randrange(len(segs))) for _ in range(nT - 1)]
        rows = []
        for i, Ti in enumerate(Ts[:2]):
            T_in = Ti if (case['cseed'] + i) % 2 else np.array([Ti])
            for se in (False, True):
                rows.append({'i': i + 1, 'se': se,
                             'G': to_dec(sq(obj.get_GoRT(T=T_in, S_elements=se))),
                             'H': to_dec(sq(obj.get_HoRT(T=T_in))),
                             'S': to_dec(sq(obj.get_SoR(T=T_in, S_elements=se))),
                             'Gd': to_dec(sq(obj.get_G(T=T_in, units=eu, S_elements=se))),
                             'Hd': to_dec(sq(obj.get_H(T=T_in, units=eu))),
                             'Sd': to_dec(sq(obj.get_S(T=T_in, units=gu, S_elements=se)))})
        R = c.R(gu)
        dims = (lambda T: obj.get_Cp(T=T, units=gu), lambda T: obj.get_H(T=T, units=eu),
                lambda T: obj.get_S(T=T, units=gu), lambda T: obj.get_G(T=T, units=eu))
        dsc, dmag = [], []
        for Ti in Ts:
            dsc.append([to_dec2(sq(d(Ti))) for d in dims])
            m = L.largest_terms(ev, coefs, Ti, units)
            dmag.append([to_dec(m[0] * R), to_dec(m[1] * R * Ti), to_dec(m[2] * R), to_dec(max(m[1], m[2]) * R * Ti)])
        res = [_call(lambda d=d: [float(x) for x in np.atleast_1d(d(L.container(Ts, forms['tcont'])))]) for d in dims]
        if _status(res) == 'ok':
            darr = {'st': 'ok', 'v': [[to_dec2(x) for x in r[1]] for r in res]}
        elif forms['tcont'] in ('list', 'tuple'):
            # T is documented as "float or (N,) numpy.ndarray": a list or tuple the getter refuses is not a violation
            darr = {'st': 'refused', 'v': []}
            detail['dim_container_refused'] = [str(r[1])[:200] for r in res if r[0] != 'ok'][:1]
        else:
            darr = {'st': 'error', 'v': []}
            detail['dim_array_error'] = [str(r[1])[:200] for r in res if r[0] != 'ok'][:2]
        out.append({'ev': 'ghsopt', 'f': f, 'Ts': [to_dec(x) for x in Ts], 'rows': rows,
                    'dsc': dsc, 'darr': darr, 'dmag': dmag})
    elif kind == 'deriv':
        h = H_STEP
        # the five-point stencil T (1 +- 2h) must fit inside one segment
        room = [j for j in range(len(segs))
                if bounds[segs[j][0]] / (1 - 2 * h) * 1.0001 < bounds[segs[j][1]] / (1 + 2 * h) * 0.9999]
        if not room:
            raise core.MachineryError('no segment wide enough for the difference stencil: %r' % (case,))
        j = rnd.choice(room)
        lo, hi = bounds[segs[j][0]], bounds[segs[j][1]]
        T = rnd.uniform(lo / (1 - 2 * h) * 1.0001, hi / (1 + 2 * h) * 0.9999)
        Ts = [T * (1 - 2 * h), T * (1 - h), T * (1 + h), T * (1 + 2 * h)]
        dim = bool(case.get('dim'))
        if dim:
            Cp = sq(obj.get_Cp(T=T, units=gu))
            Hs = [sq(obj.get_H(T=x, units=eu)) for x in Ts]
            Ss = [sq(obj.get_S(T=x, units=gu)) for x in Ts]
        else:
            Cp = sq(obj.get_CpoR(T=T))
            Hs = [sq(obj.get_HoRT(T=x)) for x in Ts]
            Ss = [sq(obj.get_SoR(T=x)) for x in Ts]
        out.append({'ev': 'deriv', 'f': f, 'dim': dim, 'T': to_dec(T), 'h': to_dec(h), 'Cp': to_dec(Cp),
                    'Ts': [to_dec(x) for x in Ts], 'H': [to_dec(x) for x in Hs], 'S': [to_dec(x) for x in Ss]})
    elif kind == 'edit':
        # evaluate, edit an attribute, evaluate again: the species must behave like a fresh one built from the
        # edited attributes (nothing remembered from before the edit)
        new = L.coefficient_sets(rnd, f, len(segs), 'dense', 1.0)
        Ts = [_inside(rnd, f, segs, bounds, j) for j in range(len(segs))]
        Ts.append(bounds[segs[0][1]])                       # a bound (T_mid / first break / T_high)
        gs = [getattr(obj, g) for g in GETTERS]
        before = [[sq(g(T=T)) for g in gs] for T in Ts]
        _ = [g(T=np.array(Ts)) for g in gs]                  # array calls before the edit, too
        bnew = dict(bounds)
        what = case['what']
        coefs2 = [list(x) for x in coefs]
        forms2 = dict(forms)
        if f == 'nasa7':
            if what == 0:
                obj.a_low = np.array(new[0]); coefs2[0] = new[0]
            elif what == 1:
                obj.a_high = np.array(new[1]); coefs2[1] = new[1]
            else:                                            # move the break: temperatures in between change segment
                tm = 0.5 * (bounds[segs[0][0]] + bounds[segs[0][1]])
                obj.T_mid = tm; bnew[segs[0][1]] = tm
                Ts.append(0.5 * (tm + bounds[segs[0][1]]))
                Ts.append(tm)
                before += [[sq(g(T=T)) for g in gs] for T in Ts[-2:]]
        elif f == 'nasa9':
            from pmutt.empirical.nasa import SingleNasa9
            if what == 0:                                    # a new list of segments
                coefs2 = new
                ns = [SingleNasa9(T_low=bounds[lo], T_high=bounds[hi], a=np.array(cf)) for (lo, hi), cf in zip(segs, new)]
                obj.nasas = [ns[j - 1] for j in order]
            elif what == 1:                                  # the coefficients of one stored segment
                j = rnd.randrange(len(segs))
                coefs2[j] = new[j]
                [s for s in obj.nasas if s.T_low == bounds[segs[j][0]]][0].a = np.array(new[j])
            else:                                            # the stored order reversed
                obj.nasas = list(reversed(obj.nasas)); order = list(reversed(order))
        else:
            if what == 0:
                obj.a = np.array(new[0]); coefs2[0] = new[0]
            elif what == 1:
                us = L.r_units()
                forms2['units'] = us[(us.index(units) + 1 + rnd.randrange(len(us) - 1)) % len(us)]
                obj.units = forms2['units']
            else:                                            # the validity range (values do not depend on it)
                obj.T_low = bounds[segs[0][0]] + 1.0; obj.T_high = bounds[segs[0][1]] - 1.0
        forms2['ctor'] = 'direct'
        forms2['acont'] = 'ndarray'
        forms2['tmid'] = 'same'
        fresh = L.build(f, segs, order, bnew, coefs2, forms2)
        fg = [getattr(fresh, g) for g in GETTERS]
        rows, changed = [], 0
        for T, b4 in zip(Ts, before):
            for g, g2, o in zip(gs, fg, b4):
                a, b = sq(g(T=T)), sq(g2(T=T))
                rows.append({'a': to_dec2(a), 'b': to_dec2(b)})
                changed += (a != o)
        arr_a = [np.atleast_1d(g(T=np.array(Ts))) for g in gs]
        arr_b = [np.atleast_1d(g2(T=np.array(Ts))) for g2 in fg]
        for x, y in zip(arr_a, arr_b):
            rows += [{'a': to_dec2(p), 'b': to_dec2(q)} for p, q in zip(x, y)]
        out.append({'ev': 'edit', 'f': f, 'rows': rows})
        detail['changed'] = int(changed)
    return out, detail


def execute(case):
    try:
        if case['kind'] == 'select':
            return exec_select(case)
        return exec_numeric(case)
    except core.MachineryError:
        raise
    except Exception as ex:
        import traceback
        return [], {'raised': '%s: %s' % (type(ex).__name__, ex), 'tb': traceback.format_exc()[-1500:]}


# ---------------------------------------------------------------------------------------------------------
# case generation
# ---------------------------------------------------------------------------------------------------------
class _RoundRobin:
    """enumerations are walked round-robin (per family) so that every value of every enumeration is used in
    every run; the walk starts at a seed-dependent offset and the enumerations advance with different strides
    so that their combinations vary"""

    def __init__(self, rnd):
        self.n = {}
        self.off = rnd.randrange(1 << 16)

    def pick(self, key, values, stride=1):
        i = self.n.get(key, 0)
        self.n[key] = i + 1
        return values[(self.off + i * stride) % len(values)]


def _assign_forms(rr, rnd, f, case, units):
    """forms of one species-level case (select / ghs / deriv)"""
    fm = {}
    kd = (case['kind'], bool(case.get('dim')))       # one walk per kind of case, so that each kind sees every unit
    if f == 'shomate':
        fm['units'] = rr.pick((f, kd, 'units'), units)
    fm['gunits'] = rr.pick((f, kd, 'gunits'), units, 5)
    fm['tcont'] = rr.pick((f, 'tcont'), L.TCONT)
    fm['tscalar'] = rr.pick((f, 'tscalar'), L.TSCALAR)
    # half of the cases: the plain form (dense float ndarray coefficients); the rest walk the enumerations
    if rr.pick((f, 'plain'), [0, 1]):
        fm['acont'] = rr.pick((f, 'acont'), L.ACONT)
        fm['akind'] = rr.pick((f, 'akind'), L.AKIND)
        if fm['akind'] == 'scaled':
            fm['scale'] = rr.pick((f, 'scale'), L.SCALES)
    if case['bset'] == 0:
        fm['bform'] = rr.pick((f, 'bform'), L.BFORM)
        if f == 'nasa7':
            fm['tmid'] = rr.pick((f, 'tmid'), L.TMID + ['same'])
    else:
        fm['bform'] = rr.pick((f, 'bform1'), ['float', 'np.float64'])
    fm['phase'] = rr.pick((f, 'phase'), L.PHASE)
    # a species rebuilt from its dictionary (SingleNasa9.to_dict needs ndarray coefficients: C11's business)
    if fm.get('acont', 'ndarray') == 'ndarray' and not case.get('single') and fm.get('tmid', 'same') == 'same':
        fm['ctor'] = rr.pick((f, 'ctor'), ['direct', 'direct', 'from_dict'])
    case['forms'] = fm
    return case


LAYOUT = {'nasa7': [[1, 2], [2, 3]], 'shomate': [[1, 2]]}
N9_LAYOUTS = [([[1, 2]], [1]), ([[1, 2], [2, 3]], [1, 2]), ([[1, 2], [2, 3]], [2, 1]),
              ([[1, 2], [2, 3], [3, 4]], [1, 2, 3]), ([[1, 2], [2, 3], [3, 4]], [2, 3, 1]),
              ([[1, 2], [2, 3], [3, 4], [4, 5]], [1, 2, 3, 4]), ([[1, 2], [2, 3], [3, 4], [4, 5]], [4, 3, 2, 1]),
              ([[1, 2], [2, 3], [4, 5], [5, 6]], [3, 1, 4, 2])]


def _layout(rr, f):
    if f == 'nasa9':
        segs, order = rr.pick('n9layout', N9_LAYOUTS)
        return {'segs': segs, 'ord': order}
    return {'segs': LAYOUT[f], 'ord': list(range(1, len(LAYOUT[f]) + 1))}


def _numeric_cases(ctx, rnd, rr, units):
    cases = []
    temps = [50.0, 60.0, 150.0, 298.15, 500.0, 777.7, 1000.0, 1500.0, 2222.2, 3000.0, 4000.0, 5000.0, 6000.0]
    for f, n in (('nasa7', 7), ('nasa9', 9), ('shomate', 8)):
        for q in ('Cp', 'H', 'S'):
            for k in range(1, n + 1):
                for T in (temps if not ctx.quick else temps[::2] + [rnd.uniform(50, 6000)]):
                    cases.append({'kind': 'basis', 'f': f, 'q': q, 'k': k, 'T': T,
                                  'units': rr.pick((f, q, 'basis-units'), units), 'cseed': 0})
            for i in range(ctx.pick(16, 160)):
                cases.append({'kind': 'linear', 'f': f, 'q': q, 'T': rnd.uniform(50, 6000),
                              'units': rr.pick((f, q, 'linear-units'), units), 'cseed': rnd.randrange(1 << 30)})
        for i in range(ctx.pick(64, 1500)):
            for kind in ('ghs', 'deriv'):
                cs = {'kind': kind, 'f': f, 'cseed': rnd.randrange(1 << 30), 'bset': i % 4}
                cs.update(_layout(rr, f))
                if kind == 'ghs':
                    cs['nT'] = rr.pick((f, 'nT'), [1, 2, 3, 5, 1])
                else:
                    cs['dim'] = bool(i % 2)
                    if cs['bset'] == 3:
                        cs['bset'] = 1               # a 2^-10 K segment has no room for a difference stencil
                _assign_forms(rr, rnd, f, cs, units)
                cases.append(cs)
        for i in range(ctx.pick(24, 300)):
            cs = {'kind': 'edit', 'f': f, 'cseed': rnd.randrange(1 << 30), 'bset': i % 3, 'what': i % 3}
            cs.update(_layout(rr, f))
            cs['forms'] = {'units': rr.pick((f, 'edit-units'), units)} if f == 'shomate' else {}
            cases.append(cs)
    return cases


def _select_cases(ctx, rnd, rr, data, units):
    sel = list(data['scalar'])
    arr = list(data['array'])
    longs = list(data['long'])
    ctx.coverage['tlc_scalar_cases'] = len(sel)
    ctx.coverage['tlc_array_cases'] = len(arr)
    ctx.coverage['tlc_long_array_cases'] = len(longs)
    rnd.shuffle(arr)
    rnd.shuffle(longs)
    if ctx.quick:
        # a sample stratified by family (the NASA-9 layouts x stored orders are 9 in 10 of what TLC emits)
        def strat(items, quota):
            out = []
            for fam, q in quota.items():
                out += [x for x in items if x['f'] == fam][:q]
            return out
        arr = strat(arr, {'nasa7': 500, 'shomate': 300, 'nasa9': 1600})
        longs = strat(longs, {'nasa7': 100, 'shomate': 100, 'nasa9': 400})
    cases = []
    for i, cs in enumerate(sel + arr + longs):
        scalar = len(cs['ps']) == 1
        for bset in ((0, 1, 2, 3) if scalar else (i % 4,) if ctx.quick else (i % 4, (i + 2) % 4)):
            c = {'kind': 'select', 'f': cs['f'], 'segs': cs['segs'], 'ord': cs['ord'], 'ps': cs['ps'],
                 'acc': cs['acc'], 'bset': bset, 'cseed': rnd.randrange(1 << 30),
                 'emp': (i + bset) % 3 == 0, 'twod': len(cs['ps']) in (4, 6, 8, 9, 12) and i % 4 == 0}
            cases.append(_assign_forms(rr, rnd, cs['f'], c, units))
    # SingleNasa9 used on its own: the TLC cases of the one-segment NASA-9 layout that are never refused
    single = [cs for cs in sel + list(data['array']) + list(data['long'])
              if cs['f'] == 'nasa9' and cs['segs'] == [[1, 2]] and all(a == [1] for a in cs['acc'])]
    rnd.shuffle(single)
    single.sort(key=lambda cs: len(cs['ps']) != 1)            # every scalar position, then a sample of the arrays
    for i, cs in enumerate(single[:ctx.pick(120, 100000)]):
        c = {'kind': 'select', 'f': 'nasa9', 'single': True, 'segs': cs['segs'], 'ord': cs['ord'], 'ps': cs['ps'],
             'acc': cs['acc'], 'bset': i % 4, 'cseed': rnd.randrange(1 << 30), 'emp': i % 3 == 0, 'twod': False}
        cases.append(_assign_forms(rr, rnd, 'nasa9', c, units))
    # long arrays of temperatures strictly inside named segments, unsorted and with repeated values
    lens = [16, 33, 100, 257] if ctx.quick else [16, 33, 64, 100, 257, 1000]
    for f in ('nasa7', 'nasa9', 'shomate'):
        for n in lens:
            for rep in range(ctx.pick(2, 6)):
                lay = _layout(rr, f)
                nseg = len(lay['segs'])
                xs = [[rnd.randrange(nseg) + 1, rnd.random()] for _ in range(n)]
                for _ in range(max(1, n // 8)):               # repeated temperatures
                    xs[rnd.randrange(n)] = list(xs[rnd.randrange(n)])
                for _ in range(max(2, n // 10)):              # temperatures exactly on segment bounds
                    xs[rnd.randrange(n)] = [rnd.randrange(nseg) + 1, float(rnd.randrange(2))]
                c = {'kind': 'select', 'f': f, 'segs': lay['segs'], 'ord': lay['ord'], 'xT': xs,
                     'bset': rep % 4, 'cseed': rnd.randrange(1 << 30), 'emp': True, 'twod': False}
                cases.append(_assign_forms(rr, rnd, f, c, units))
    return cases


def _tags(case, events=()):
    fm = L.forms_of(case)
    n = len(case['xT']) if 'xT' in case else len(case.get('ps', [])) if case['kind'] == 'select' else case.get('nT', 0)
    t = {'kind': case['kind'], 'f': case['f'], 'q': case.get('q'), 'arr': n > 1, 'n': n,
         'single': bool(case.get('single')), 'tcont': fm['tcont'], 'akind': fm['akind'], 'acont': fm['acont'],
         'ctor': fm['ctor'], 'units': fm['units']}
    # how the array calls ended ("error": an exception other than the ValueError of a refusal): lets a known
    # finding about a call that raises stay apart from one about wrong values
    for ev in events:
        if ev.get('ev') == 'select':
            t.update({'arr_st': ev['arr']['st'], 'arri_st': ev['arri']['st'], 'emp': ev['emp']})
        elif ev.get('ev') == 'ghsopt':
            t['darr_st'] = ev['darr']['st']
    return t


def run(ctx):
    ctx.coverage['rule'] = (
        'select cases are every (family, segment layout with 1-4 NASA-9 segments, stored order, temperature position / '
        'array of positions) emitted by TLC from Poly.tla, instantiated with random distinct per-segment coefficients '
        'on four boundary sets (two fixed, two random incl. the ends 50 K / 6000 K and a 2^-10 K segment); the forms of '
        'the inputs (every unit of constants.R, T / coefficient containers, number types of T and of the bounds, '
        'coefficient kinds zero / sparse / integer / scaled 1e-12..1e12, constructor, phase) are walked round-robin; '
        'basis cases are unit-vector probes of every coefficient of every evaluator; linear/ghs/deriv/edit cases use '
        'random coefficient vectors; non-trivial: a select case that touches a boundary, a neighbouring double, a gap '
        'or an out-of-range position, or any numeric probe with a non-zero table entry; distinct by (kind, family, '
        'layout, order, positions / coefficient index, quantity)')
    rnd = random.Random(ctx.seed)
    units = L.r_units()
    if ctx.replay_case is not None:
        cases = [ctx.replay_case['case']]
    else:
        data, r = core.tlc_cases('MC_Poly', 'MC_Poly')
        ctx.count('states', r.distinct)
        ctx.count('transitions', r.states)
        ctx.coverage.setdefault('models', []).append(
            {'module': 'MC_Poly', 'cfg': 'MC_Poly', 'distinct_states': r.distinct, 'ok': r.ok,
             'assumes': ['CalculusOK (24 coefficient terms x dH=Cp, TdS=Cp, integration constants)',
                         'SelectOK (implementation rule within the allowed set for every position, every layout '
                         'with 1-4 NASA-9 segments, every stored order)',
                         'OrderOnlyAtSharedBound (the stored order is observable only on a bound shared by two segments)']})
        if not r.ok:
            raise core.MachineryError('Poly design model failed:\n' + r.out[-3000:])
        rr = _RoundRobin(rnd)
        cases = _select_cases(ctx, rnd, rr, data, units) + _numeric_cases(ctx, rnd, rr, units)
    results = core.pmap(execute, cases)
    traces = []
    cov = {}

    def seen(key, val):
        cov.setdefault(key, {})
        k = str(val)
        cov[key][k] = cov[key].get(k, 0) + 1

    for tid, (case, (events, detail)) in enumerate(zip(cases, results)):
        ctx.evaluated()
        tags = _tags(case, events)
        if 'raised' in detail:
            ctx.violation('Raises', case, tags=tags, detail=detail)
        kind, f = case['kind'], case['f']
        fm = L.forms_of(case)
        if kind == 'select':
            ps = case.get('ps', [])
            if 'xT' in case or any(p % 4 != 2 or p == 2 for p in ps) or any(a == [0] for a in case['acc']):
                ctx.nontrivial(['select', f, case['segs'], case.get('ord'), ps or len(case['xT']), case['bset'],
                                bool(case.get('single'))])
            ev = events[0] if events else None
            n = len(case['xT']) if 'xT' in case else len(ps)
            seen('select_family', 'single9' if case.get('single') else f)
            seen('array_length', n if n <= 12 else '13+')
            seen('bounds_set', case['bset'])
            seen('T_container', fm['tcont'])
            seen('T_scalar_form', fm['tscalar'])
            if f == 'nasa9' and not case.get('single'):
                seen('nasa9_segments', len(case['segs']))
                o = case['ord']
                seen('nasa9_stored_order', 'ascending' if o == sorted(o) else 'descending' if o == sorted(o, reverse=True) else 'mixed')
            if f == 'shomate':
                seen('shomate_units_select', fm['units'])
            if ev is not None:
                evaluated = ev['arr']['st'] == 'ok'
                if evaluated:
                    seen('coef_container', fm['acont'])
                    seen('coef_kind', fm['akind'] if fm['akind'] != 'scaled' else 'scaled %g' % fm['scale'])
                    seen('bound_form', fm['bform'] if case['bset'] == 0 else 'float')
                    seen('constructor', fm['ctor'])
                    seen('phase', fm['phase'])
                    if f == 'nasa7':
                        seen('T_mid_form', fm['tmid'] if fm['tmid'] == 'list' else fm['bform'] if case['bset'] == 0 else 'float')
                if ev['emp'] != 'na':
                    seen('empty_array', f)
                if ev['twod']['st'] != 'na':
                    seen('two_d', '%s:%s' % (f, ev['twod']['st']))
                if any(x != 'na' for x in ev['scint']):
                    seen('int_array', f)
                for i, p in enumerate(ps):
                    if ev['sc'][i]['st'] == 'ok':
                        if p == 4 or p == 4 * case['segs'][-1][1]:
                            seen('on_range_end', f)
                        elif p % 4 == 0:
                            seen('on_interior_bound', f)
                        elif p % 4 in (1, 3):
                            seen('adjacent_to_bound', f)
                    elif ev['sc'][i]['st'] == 'raise':
                        seen('refused', f)
        else:
            ctx.nontrivial([kind, f, case.get('q'), case.get('k'), case.get('T'), case['cseed']])
            if kind in ('basis', 'linear') and f == 'shomate':
                seen('shomate_units_%s' % kind, case['units'])
            if kind in ('ghs', 'deriv', 'edit') and events:
                if f == 'shomate':
                    seen('shomate_units_%s' % kind, fm['units'])
                if kind == 'ghs':
                    seen('ghs_T', ('on a bound ' if detail.get('ghs_T_on_bound') else 'inside ') + f)
                    seen('dim_units', fm['gunits'])
                    seen('dim_array_length', case.get('nT', 1))
                    seen('dim_T_container', fm['tcont'])
                if kind == 'deriv':
                    seen('deriv_getters', ('dimensional ' if case.get('dim') else 'dimensionless ') + f)
                    if case.get('dim'):
                        seen('dim_units_deriv', fm['gunits'])
                    seen('deriv_coef_kind', fm['akind'] if fm['akind'] != 'scaled' else 'scaled %g' % fm['scale'])
                if kind == 'edit':
                    seen('edit', '%s:%d:%s' % (f, case['what'], 'changed' if detail.get('changed') else 'same'))
        traces.append((tid, events))
        if tid % 1499 == 0:
            ctx.sample({k: v for k, v in case.items() if k != 'xT'})
    ctx.coverage['input_classes'] = cov
    fails, stats = core.validate_traces('Trace_Poly', 'Trace_Poly', traces,
                                        shards=int(os.environ.get('VERIF_SHARDS', '0')) or None)
    ctx.count('traces_validated_against_impl', len(traces))
    ctx.coverage['trace_lines'] = stats['lines']
    for tid, idx, clause in fails:
        ctx.violation(clause, cases[tid], tags=_tags(cases[tid], results[tid][0]), detail=results[tid][1])
    if ctx.replay_case is None:
        missing = _vacuity(cov, units)
        if missing:
            # a library that breaks a whole input class shows up here, too (nothing of the class evaluates): the
            # violations it caused are the verdict then; without an unexplained violation the run is vacuous
            findings = core.load_findings(ctx.prop)
            unexplained = [v for v in ctx.violations
                           if not any(core.finding_matches(e, v['clause'], v['tags']) for e in findings)]
            if not unexplained:
                raise core.MachineryError('vacuous run, input classes never exercised: %r' % (missing,))
            ctx.coverage['input_classes_not_exercised'] = missing
    ctx.assume('ln T is a libm sensor computed from the logged temperature; 1/T is a witness verified by multiplication')
    ctx.assume('array = map of scalar is read as agreement to 1e-13 relative (Shomate BLAS path differs from scalar by ~3e-15)')
    ctx.assume('derivative clauses (Richardson, h = 2^-7) detect relative Cp errors above ~1e-4; the exact statement is the '
               'symbolic calculus on the tables plus the basis binding at 1e-6')
    ctx.assume('a 2-D temperature array is outside the documented (N,) input: refusing it is accepted, mapping it is judged')


def _vacuity(cov, units):
    """every class of the input space named by the quantifier must have been exercised (and evaluated)"""
    need = {
        'select_family': ['nasa7', 'nasa9', 'shomate', 'single9'],
        'array_length': [str(n) for n in range(1, 13)] + ['13+'],
        'bounds_set': ['0', '1', '2', '3'],
        'T_container': L.TCONT, 'T_scalar_form': L.TSCALAR,
        'nasa9_segments': ['1', '2', '3', '4'], 'nasa9_stored_order': ['ascending', 'descending', 'mixed'],
        'coef_container': L.ACONT,
        'coef_kind': ['dense', 'zero', 'sparse', 'int'] + ['scaled %g' % s for s in L.SCALES],
        'bound_form': L.BFORM, 'constructor': L.CTOR, 'phase': [str(p) for p in L.PHASE],
        'T_mid_form': L.BFORM + ['list'],
        'empty_array': ['nasa7', 'nasa9', 'shomate'], 'int_array': ['nasa7', 'nasa9', 'shomate'],
        'on_range_end': ['nasa7', 'nasa9', 'shomate'], 'on_interior_bound': ['nasa7', 'nasa9'],
        'adjacent_to_bound': ['nasa7', 'nasa9', 'shomate'], 'refused': ['nasa9'],
        'ghs_T': [a + f for a in ('on a bound ', 'inside ') for f in ('nasa7', 'nasa9', 'shomate')],
        'dim_units': units, 'dim_units_deriv': units, 'dim_array_length': ['1', '2', '3', '5'],
        'dim_T_container': L.TCONT,
        'deriv_getters': [a + f for a in ('dimensional ', 'dimensionless ') for f in ('nasa7', 'nasa9', 'shomate')],
        'edit': ['%s:%d:changed' % (f, w) for f in ('nasa7', 'nasa9', 'shomate') for w in (0, 1)] + ['nasa7:2:changed'],
    }
    for k in ('select', 'basis', 'linear', 'ghs', 'deriv', 'edit'):
        need['shomate_units_%s' % k] = units
    missing = {}
    for key, vals in need.items():
        got = cov.get(key, {})
        miss = [v for v in vals if not got.get(str(v))]
        if miss:
            missing[key] = miss
    return missing


if __name__ == '__main__':
    core.main('C02', 'model_checking', run)
