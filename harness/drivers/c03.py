"""C03 - fitted polynomials anchor to the reference, join continuously, track the source.

(D)    spec/Fit.tla: exact toy model of the anchoring / continuity algorithms (NASA-7
       "containing", NASA-9 "walk" - anchor the containing segment, propagate both
       ways), all instances with <= 3 segments; the pinned NASA-9 rule ("first") is a
       variant that TLC rejects and characterises.  spec/FitCases.tla enumerates the
       configuration space of a fit (family x source x segments x T_ref position x
       T_mid form x route).
(S->C) every configuration is instantiated with random windows / data and run through
       the real from_data / from_model.
(C->S) spec/Trace_Fit.tla judges each fit: anchor, continuity at every break, bounds,
       breaks strictly inside, exact recovery for polynomial sources, coarse tracking
       for statistical-mechanical sources.
"""
import math
import random

from harness import core
from harness.core import to_dec

# every Shomate fitting unit (the keys of constants.R that end in /K)
UNITS = ['J/mol/K', 'cal/mol/K', 'kJ/mol/K', 'eV/K', 'kcal/mol/K', 'L atm/mol/K', 'Eh/K', 'Ha/K', 'L kPa/mol/K',
         'cm3 kPa/mol/K', 'm3 Pa/mol/K', 'cm3 MPa/mol/K', 'm3 bar/mol/K', 'L bar/mol/K', 'L torr/mol/K',
         'cm3 atm/mol/K']


def _poly_coeffs(rnd, fam, scale=1.0):
    """scale != 1 (Shomate only): coefficients of a physical species expressed in the fitting unit (Cp/R of a
    few units whatever the unit), with a 1/t^2 coefficient anywhere between 1e-3 and 1 J/mol/K"""
    if fam == 'shomate' and scale != 1.0:
        e = rnd.choice([-1, 1]) * 10 ** rnd.uniform(-3, 0)
        a = [rnd.uniform(20, 40)] + [rnd.uniform(-10, 10) for _ in range(3)] + [e] + \
            [rnd.uniform(-50, 50), rnd.uniform(100, 200), 0.0]
        return [x * scale for x in a]
    if fam == 'nasa7':
        return [rnd.uniform(2, 6)] + [rnd.uniform(-1, 1) * 1000.0 ** -p for p in (1, 2, 3, 4)] + \
               [rnd.uniform(-3e3, 3e3), rnd.uniform(-5, 5)]
    if fam == 'nasa9':
        return [rnd.uniform(-1, 1) * 1e5, rnd.uniform(-1, 1) * 300.0, rnd.uniform(2, 6)] + \
               [rnd.uniform(-1, 1) * 1000.0 ** -p for p in (1, 2, 3, 4)] + [rnd.uniform(-3e3, 3e3), rnd.uniform(-5, 5)]
    return [rnd.uniform(20, 40)] + [rnd.uniform(-10, 10) for _ in range(3)] + [rnd.uniform(-1, 1)] + \
           [rnd.uniform(-50, 50), rnd.uniform(100, 200), 0.0]


def _evals(fam, units):
    import numpy as np
    from pmutt.empirical import nasa as N
    from pmutt.empirical import shomate as S
    if fam == 'nasa7':
        return (lambda a, T: float(N.get_nasa_CpoR(np.array(a), T)), lambda a, T: float(N.get_nasa_HoRT(np.array(a), T)),
                lambda a, T: float(N.get_nasa_SoR(np.array(a), T)))
    if fam == 'nasa9':
        return (lambda a, T: float(np.squeeze(N.get_nasa9_CpoR(np.array(a), np.array([T])))),
                lambda a, T: float(N.get_nasa9_HoRT(np.array(a), T)), lambda a, T: float(N.get_nasa9_SoR(np.array(a), T)))
    return (lambda a, T: float(S.get_shomate_CpoR(np.array(a), np.array([T]), units)[0]),
            lambda a, T: float(S.get_shomate_HoRT(np.array(a), np.array([T]), units)[0]),
            lambda a, T: float(S.get_shomate_SoR(np.array(a), np.array([T]), units)[0]))


def _statmech(rnd, gas, nmodes=None):
    from pmutt.statmech import StatMech, trans, vib, rot, elec
    n = nmodes or rnd.choice([1, 1, 2, 3, 5, 9, 15])          # diatomic ... 15-mode adsorbate
    wn = [rnd.uniform(150, 4000) for _ in range(n)]
    kw = dict(name='src', vib_model=vib.HarmonicVib(vib_wavenumbers=wn),
              elec_model=elec.GroundStateElec(potentialenergy=rnd.uniform(-3, 0), spin=rnd.choice([0, 0.5, 1])),
              elements={'C': 1, 'H': 4})
    if gas:
        kw['trans_model'] = trans.FreeTrans(n_degrees=3, molecular_weight=rnd.uniform(2, 200))
        kw['rot_model'] = rot.RigidRotor(symmetrynumber=rnd.choice([1, 2, 3, 12]),
                                         rot_temperatures=[rnd.uniform(0.1, 30) for _ in range(3)], geometry='nonlinear')
    return StatMech(**kw)


class _PolyModel:
    """a species-like source evaluating one polynomial of the target family"""
    def __init__(self, fam, a, units, T_low, T_high):
        self.fam, self.a, self.name, self.elements = fam, a, 'src', {'C': 1, 'H': 4}
        self.T_low, self.T_high = T_low, T_high
        self.ev = _evals(fam, units)

    def get_CpoR(self, T):
        import numpy as np
        if hasattr(T, '__iter__'):
            return np.array([self.ev[0](self.a, float(t)) for t in T])
        return self.ev[0](self.a, float(T))

    def get_HoRT(self, T):
        return self.ev[1](self.a, float(T))

    def get_SoR(self, T):
        return self.ev[2](self.a, float(T))


def execute(case):
    import warnings
    warnings.simplefilter('ignore')
    import numpy as np
    from pmutt.empirical.nasa import Nasa, Nasa9
    from pmutt.empirical.shomate import Shomate
    from pmutt.empirical import nasa as N
    rnd = random.Random(case['cseed'])
    fam, src, nseg, route = case['fam'], case['src'], case['nseg'], case['route']
    units = UNITS[case['cseed'] % len(UNITS)]
    from pmutt import constants as _c
    if fam == 'shomate' and case['cseed'] % 8 < 2:
        units = ('Eh/K', 'Ha/K')[case['cseed'] % 8]          # the smallest units: R = 3.2e-6, a quarter of the Shomate cases
    scale = _c.R(units) / _c.R('J/mol/K') if fam == 'shomate' and (units in ('Eh/K', 'Ha/K')
                                                                  or (case['cseed'] // len(UNITS)) % 2 == 0) else 1.0
    T_low = rnd.uniform(100, 600)
    T_high = rnd.uniform(max(1200.0, T_low + 800), 3000)
    if src.startswith('statmech'):
        T_low = max(T_low, 150.0)
    if case.get('nmodes'):
        # from_model evaluates the source on the whole temperature grid at once: a one-mode (diatomic) source, or a
        # grid as long as the number of modes, makes that call broadcast; keep the window narrow enough to be judged
        T_low = rnd.uniform(300, 500)
        T_high = T_low * rnd.uniform(2.5, 3.8)
    # interior breaks requested from the library
    if fam == 'nasa9':
        fr = sorted(rnd.uniform(0.25, 0.75) for _ in range(nseg - 1))
        if nseg == 3 and fr[1] - fr[0] < 0.2:
            fr = [0.33, 0.66]
        brk = [T_low + f * (T_high - T_low) for f in fr]
    elif fam == 'nasa7':
        brk = [T_low + rnd.uniform(0.3, 0.7) * (T_high - T_low)]
    else:
        brk = []
    npts = rnd.choice([15, 40, 120, 200]) * max(1, nseg) if fam != 'nasa7' else rnd.choice([30, 60, 200])
    if fam == 'shomate' and rnd.random() < 0.3:
        npts = 15                                    # can coincide with the number of modes of the source
    if case.get('nmodes') == 15 and fam == 'shomate':
        npts = 15                                    # (NASA fits need >= 10 points per segment)
    T = np.linspace(T_low, T_high, npts)
    if fam == 'nasa7' and case['tmid'] != 'none':
        brk = [float(T[rnd.randrange(10, npts - 10)])]      # a data point, at least 10 points each side
    ev = _evals(fam, units)
    edges = [T_low] + brk + [T_high]
    # ---- source
    model = None
    href = sref = None
    if src == 'poly':
        a = _poly_coeffs(rnd, fam, scale)
        pieces = [a] * (len(edges) - 1)
    elif src == 'piecewise':
        pieces = [_poly_coeffs(rnd, fam, scale) for _ in range(len(edges) - 1)]
    elif src == 'const':
        cval = rnd.uniform(1.5, 9)
        z = {'nasa7': [cval, 0, 0, 0, 0, rnd.uniform(-3e3, 3e3), rnd.uniform(-5, 5)],
             'nasa9': [0, 0, cval, 0, 0, 0, 0, rnd.uniform(-3e3, 3e3), rnd.uniform(-5, 5)],
             'shomate': [x * scale for x in [cval * 8.0, 0, 0, 0, 0, rnd.uniform(-50, 50), rnd.uniform(100, 200), 0]]}[fam]
        pieces = [z] * (len(edges) - 1)
    elif src == 'zero':
        z = {'nasa7': [0] * 5 + [rnd.uniform(-3e3, 3e3), rnd.uniform(-5, 5)],
             'nasa9': [0] * 7 + [rnd.uniform(-3e3, 3e3), rnd.uniform(-5, 5)],
             'shomate': [0] * 5 + [rnd.uniform(-50, 50), rnd.uniform(100, 200), 0]}[fam]
        pieces = [z] * (len(edges) - 1)
    else:
        model = _statmech(rnd, src == 'statmech_gas', case.get('nmodes'))
        pieces = None

    def seg_of(t):
        for i in range(len(edges) - 1):
            if t <= edges[i + 1]:
                return i
        return len(edges) - 2

    def src_vals(t):
        if model is not None:
            return float(model.get_CpoR(T=t)), float(model.get_HoRT(T=t)), float(model.get_SoR(T=t))
        a = pieces[seg_of(t)]
        return ev[0](a, t), ev[1](a, t), ev[2](a, t)

    Cp = np.array([src_vals(float(t))[0] for t in T])
    # ---- reference temperature
    pos = case['tref']
    if pos == 'first':
        T_ref = rnd.uniform(edges[0], edges[1])
    elif pos == 'break':
        T_ref = rnd.choice(brk)
    elif pos == 'middle':
        T_ref = rnd.uniform(edges[1], edges[2])
    elif pos == 'last':
        T_ref = rnd.uniform(edges[-2], edges[-1])
    elif pos == 'low_edge':
        T_ref = T_low
    elif pos == 'high_edge':
        T_ref = T_high
    else:
        T_ref = None
    tm_arg = {}
    if fam == 'nasa7':
        guesses = [brk[0]]
        if case['tmid'] == 'list':
            k = rnd.random()
            # an edge guess (within the lowest data points) first - only for smooth model sources: with fewer than
            # five points the low segment's quartic is not determined by the data, so "reproduces the generating
            # polynomial" cannot be demanded of any fit if that guess is taken (a false alarm of an earlier version:
            # seed 3, ExactRecoveryH/S 2e-4 with T_mid on the second data point)
            if k < 0.35 and model is not None:
                guesses = [float(T[rnd.randrange(1, 4)]), brk[0], float(T[rnd.randrange(npts // 2, npts - 10)])]
            elif k < 0.7:                            # several interior guesses, ascending
                guesses = sorted({float(T[rnd.randrange(10, npts - 10)]) for _ in range(3)})
        tm_arg = {'none': {}, 'scalar': {'T_mid': brk[0]}, 'list': {'T_mid': guesses}}[case['tmid']]
    elif fam == 'nasa9':
        tm_arg = {'none': {}, 'scalar': {'T_mid': brk[0] if brk else None},
                  'list': {'T_mid': np.array(brk) if case['cseed'] % 2 else list(brk)}}[case['tmid']]
    e = {'ev': 'fit', 'fam': fam, 'src': 'statmech' if model is not None else src, 'st': 'ok'}
    info = {'T_low': T_low, 'T_high': T_high, 'brk': brk, 'T_ref': T_ref, 'units': units, 'npts': npts}
    try:
        cls = {'nasa7': Nasa, 'nasa9': Nasa9, 'shomate': Shomate}[fam]
        extra = {'units': units} if fam == 'shomate' else {}
        if route == 'data':
            if src in ('poly', 'const', 'zero') or model is not None:
                _, href, sref = src_vals(T_ref)
            else:
                href, sref = rnd.uniform(-40, 40), rnd.uniform(5, 60)
            obj = cls.from_data(name='fit', T=T, CpoR=Cp, T_ref=T_ref, HoRT_ref=href, SoR_ref=sref,
                                elements={'C': 1, 'H': 4}, phase='S', **tm_arg, **extra)
        else:
            m = model if model is not None else _PolyModel(fam, pieces[0], units, T_low, T_high)
            kw = dict(model=m, name='fit', T_low=T_low, T_high=T_high, elements={'C': 1, 'H': 4}, phase='S')
            if fam == 'nasa9':
                kw.update(n_interval=nseg, fit_T_mid=False if case['tmid'] == 'list' else True)
                if case['tmid'] == 'list':
                    kw['T_mid'] = np.array(brk)
            elif fam == 'nasa7':
                kw.update(tm_arg)
                kw['n_T'] = npts
            else:
                kw.update(extra)
                kw['n_T'] = npts
            obj = cls.from_model(**kw)
            # reference used by the library: mid-window (NASA-7, Shomate) / T_low (NASA-9)
            T_ref = T_low if fam == 'nasa9' else 0.5 * (T_low + T_high)
            _, href, sref = (float(m.get_CpoR(T=T_ref)), float(m.get_HoRT(T=T_ref)), float(m.get_SoR(T=T_ref)))
            info['T_ref'] = T_ref
    except Exception as ex:
        e['st'] = 'raise'
        info['raised'] = '%s: %s' % (type(ex).__name__, ex)
        return [e], info
    # ---- observe the fitted object
    try:
        if fam == 'nasa7':
            tmid = obj.T_mid[0] if isinstance(obj.T_mid, (list, tuple)) else obj.T_mid
            obrk = [float(tmid)]
            segs = [obj.a_low, obj.a_high]
        elif fam == 'nasa9':
            ns = list(obj.nasas)
            obrk = [float(s.T_high) for s in ns[:-1]]
            segs = [s.a for s in ns]
        else:
            obrk, segs = [], [obj.a]
        sev = _evals(fam, units)
        e.update({'Tlo': to_dec(float(obj.T_low)), 'Thi': to_dec(float(obj.T_high)),
                  'dmin': to_dec(float(min(T))), 'dmax': to_dec(float(max(T))),
                  'brk': [to_dec(b) for b in obrk], 'tref': to_dec(T_ref), 'href': to_dec(href), 'sref': to_dec(sref),
                  'hfit': to_dec(float(np.squeeze(obj.get_HoRT(T=T_ref)))),
                  'sfit': to_dec(float(np.squeeze(obj.get_SoR(T=T_ref)))),
                  'hl': [to_dec(sev[1](segs[i], b)) for i, b in enumerate(obrk)],
                  'hr': [to_dec(sev[1](segs[i + 1], b)) for i, b in enumerate(obrk)],
                  'sl': [to_dec(sev[2](segs[i], b)) for i, b in enumerate(obrk)],
                  'sr': [to_dec(sev[2](segs[i + 1], b)) for i, b in enumerate(obrk)]})
        samples = []
        worst = [0.0, 0.0, 0.0]
        for t in np.linspace(T_low, T_high, 25):
            t = float(t)
            f = (float(np.squeeze(obj.get_CpoR(T=t))), float(np.squeeze(obj.get_HoRT(T=t))),
                 float(np.squeeze(obj.get_SoR(T=t))))
            s = src_vals(t) if (model is not None or src != 'piecewise') else f
            if route == 'model' and model is None:
                s = src_vals(t)
            oedges = [float(obj.T_low)] + obrk + [float(obj.T_high)]
            j = 0
            while j < len(oedges) - 2 and t > oedges[j + 1]:
                j += 1
            npt = int(((T >= oedges[j]) & (T <= oedges[j + 1])).sum())
            samples.append([to_dec(t)] + [to_dec(x) for x in f] + [to_dec(x) for x in s] + [1 if npt >= 10 else 0])
            for j in range(3):
                worst[j] = max(worst[j], abs(f[j] - s[j]))
        e['samples'] = samples
        info['worst_abs_dev'] = worst
        info['obj_breaks'] = obrk
    except Exception as ex:
        e = {'ev': 'fit', 'fam': fam, 'src': e['src'], 'st': 'raise'}
        info['raised'] = 'observing the fitted object: %s: %s' % (type(ex).__name__, ex)
    return [e], info


def _safe(case):
    try:
        return execute(case)
    except core.MachineryError:
        raise
    except Exception as ex:
        import traceback
        raise core.MachineryError('driver failure on %r: %s' % (case, traceback.format_exc()[-800:]))


def run(ctx):
    ctx.coverage['rule'] = (
        'a case is one fit: a configuration emitted by TLC from FitCases.tla (family x source x number of segments '
        'x reference-temperature position x T_mid form x from_data/from_model) instantiated with a random window '
        '(100 <= T_low < T_high <= 3000), data density and coefficients; non-trivial: every case (each calls the real '
        'fit); distinct by (configuration, seed)')
    rnd = random.Random(ctx.seed)
    if ctx.replay_case is not None:
        cases = [ctx.replay_case['case']]
    else:
        for alg in ('containing', 'walk', 'first_char'):
            ctx.model('Fit', 'MC_Fit_' + alg, workers=4)
        bad = ctx.model('Fit', 'MC_Fit_first', workers=4, expect_ok=False)
        if bad.ok or bad.violated != 'Anchor':
            raise core.MachineryError('the pinned NASA-9 anchoring rule should violate Anchor in the design model')
        ctx.notes.append('design model: NASA-9 "anchor the first segment" rule violates Anchor; it holds iff T_ref lies in '
                         'segment 1 and the segment records are not aliased (MC_Fit_first_char)')
        cfgs, r = core.tlc_cases('FitCases', 'FitCases')
        ctx.coverage['tlc_configurations'] = len(cfgs)
        cases = []
        for rep in range(ctx.pick(3, 40)):
            for c in cfgs:
                if c['route'] == 'model' and c['fam'] == 'nasa9' and c['tmid'] != 'list' and rep % 3:
                    continue                     # Nelder-Mead T_mid search is slow (~0.5 s): every third repetition
                cases.append(dict(c, cseed=rnd.randrange(1 << 30)))
                if c['route'] == 'model' and c['src'].startswith('statmech') and not (c['fam'] == 'nasa9' and c['tmid'] != 'list'):
                    # the vectorised source evaluation: diatomic sources and grids as long as the mode list
                    for nm in (1, 15):
                        cases.append(dict(c, cseed=rnd.randrange(1 << 30), nmodes=nm))
    results = core.pmap(_safe, cases)
    traces = []
    worst = {}
    for tid, (case, (events, info)) in enumerate(zip(cases, results)):
        ctx.evaluated()
        ctx.nontrivial([case[k] for k in ('fam', 'src', 'nseg', 'tref', 'tmid', 'route', 'cseed')])
        traces.append((tid, events))
        if 'worst_abs_dev' in info and case['src'].startswith('statmech'):
            w = worst.setdefault(case['fam'], [0.0, 0.0, 0.0])
            for j in range(3):
                w[j] = max(w[j], info['worst_abs_dev'][j])
        if tid % 97 == 0:
            ctx.sample(dict(case, window=[info.get('T_low'), info.get('T_high')], T_ref=info.get('T_ref')))
    ctx.coverage['statmech_tracking_worst_abs_dev_CpoR_HoRT_SoR'] = worst
    fails, stats = core.validate_traces('Trace_Fit', 'Trace', traces)
    ctx.count('traces_validated_against_impl', len(traces))
    for tid, idx, clause in fails:
        case = cases[tid]
        tags = {k: case[k] for k in ('fam', 'src', 'nseg', 'tref', 'tmid', 'route')}
        ctx.violation(clause, case, tags=tags, detail=results[tid][1])
    ctx.assume('statistical-mechanical tracking uses fixed coarse thresholds (Cp/R 0.25, H/RT 0.15, S/R 0.15); the '
               'least-squares optimality of the Cp fit itself is not checked')
    ctx.assume('each segment carries at least 10 data points (under-determined fits are outside the quantifier)')


if __name__ == '__main__':
    core.main('C03', 'exploration', run)
