"""C03 - fitted polynomials anchor to the reference, join continuously, track the source.

(D)    spec/Fit.tla: exact toy model of the anchoring / continuity algorithms (NASA-7
       "containing", NASA-9 "walk" - anchor the containing segment, propagate both
       ways), all instances with <= 3 segments; the pinned NASA-9 rule ("first") is a
       variant that TLC rejects and characterises.  spec/FitCases.tla enumerates the
       configuration space of a fit (family x source x segments x T_ref position x
       T_mid form x route) and, per configuration, the admissible values of the rotating
       axes (window class, n_T, order / container of the data, container of T_mid, form
       of the model argument, fit_T_mid, NASA-9 grid).
(S->C) every configuration is instantiated with windows / data drawn from the quantifier
       (100 K <= T_low < T_high <= 3000 K, n_T 15..200, every Shomate unit, T_ref anywhere
       in the window) and run through the real from_data / from_model.
(C->S) spec/Trace_Fit.tla judges each fit: anchor, continuity at every break, bounds,
       breaks strictly inside, exact recovery for polynomial sources, banded tracking
       for statistical-mechanical sources.

Narrow readings: see the header of spec/FitCases.tla.
"""
import math
import random

from harness import core
from harness.core import to_dec

# every Shomate fitting unit (the keys of constants.R that end in /K)
UNITS = ['J/mol/K', 'cal/mol/K', 'kJ/mol/K', 'eV/K', 'kcal/mol/K', 'L atm/mol/K', 'Eh/K', 'Ha/K', 'L kPa/mol/K',
         'cm3 kPa/mol/K', 'm3 Pa/mol/K', 'cm3 MPa/mol/K', 'm3 bar/mol/K', 'L bar/mol/K', 'L torr/mol/K',
         'cm3 atm/mol/K']
# one round of the unit rotation: every unit once, the two smallest (R = 3.2e-6: coefficients of 1e-5 .. 1e-9) three times
UNIT_ROUND = UNITS + ['Eh/K', 'Ha/K'] * 2
AXES = (('win', 'wins'), ('nt', 'nts'), ('order', 'orders'), ('cont', 'conts'), ('tmform', 'tmforms'),
        ('mform', 'mforms'), ('fit', 'fits'), ('grid', 'grids'), ('reft', 'refts'))


def _poly_coeffs(rnd, fam, scale=1.0):
    """scale != 1 (Shomate only): coefficients of a physical species expressed in the fitting unit (Cp/R of a
    few units whatever the unit), with a 1/t^2 coefficient anywhere between 1e-3 and 1 J/mol/K"""
    if fam == 'shomate' and scale != 1.0:
        e = rnd.choice([-1, 1]) * 10 ** rnd.uniform(-3, 0)
        a = [rnd.uniform(20, 40)] + [rnd.uniform(-10, 10) for _ in range(3)] + [e] + \
            [rnd.uniform(-50, 50), rnd.uniform(100, 200), 0.0]
        return [x * scale for x in a]
    if fam == 'nasa7':
        return [rnd.uniform(2, 6)] + [rnd.uniform(-1, 1) * 1000.0 ** -p for p in (1, 2, 3, 4)] + \
               [rnd.uniform(-3e3, 3e3), rnd.uniform(-5, 5)]
    if fam == 'nasa9':
        return [rnd.uniform(-1, 1) * 1e5, rnd.uniform(-1, 1) * 300.0, rnd.uniform(2, 6)] + \
               [rnd.uniform(-1, 1) * 1000.0 ** -p for p in (1, 2, 3, 4)] + [rnd.uniform(-3e3, 3e3), rnd.uniform(-5, 5)]
    return [rnd.uniform(20, 40)] + [rnd.uniform(-10, 10) for _ in range(3)] + [rnd.uniform(-1, 1)] + \
           [rnd.uniform(-50, 50), rnd.uniform(100, 200), 0.0]


def _evals(fam, units):
    import numpy as np
    from pmutt.empirical import nasa as N
    from pmutt.empirical import shomate as S
    if fam == 'nasa7':
        return (lambda a, T: float(N.get_nasa_CpoR(np.array(a), T)), lambda a, T: float(N.get_nasa_HoRT(np.array(a), T)),
                lambda a, T: float(N.get_nasa_SoR(np.array(a), T)))
    if fam == 'nasa9':
        return (lambda a, T: float(np.squeeze(N.get_nasa9_CpoR(np.array(a), np.array([T])))),
                lambda a, T: float(N.get_nasa9_HoRT(np.array(a), T)), lambda a, T: float(N.get_nasa9_SoR(np.array(a), T)))
    return (lambda a, T: float(S.get_shomate_CpoR(np.array(a), np.array([T]), units)[0]),
            lambda a, T: float(S.get_shomate_HoRT(np.array(a), np.array([T]), units)[0]),
            lambda a, T: float(S.get_shomate_SoR(np.array(a), np.array([T]), units)[0]))


def _statmech_kwargs(rnd, gas, nmodes=None, kind='vib'):
    """Constructor arguments of an ideal-gas / adsorbate StatMech species over the C01 parameter range
    (wavenumbers 10-4500 cm^-1 in the three regimes theta << T, theta ~ T, theta >> T; rotational temperatures
    0.01-100 K, linear and nonlinear rotors; molar mass 1-500 g/mol; any spin; potential energy -40..2 eV).
    kind 'const': a monatomic ideal gas (Cp/R = 5/2 exactly); 'zero': electronic ground state only (Cp = 0).
    Returned as class + parameter keywords (what from_model(model=StatMech, **kw) takes)."""
    from pmutt.statmech import trans, vib, rot, elec
    kw = dict(elec_model=elec.GroundStateElec, potentialenergy=rnd.choice([rnd.uniform(-3, 0), rnd.uniform(-40, 2)]),
              spin=rnd.choice([0, 0.5, 1, 1.5, 2]))
    if kind == 'zero':
        return kw
    if kind == 'const':
        kw.update(trans_model=trans.FreeTrans, n_degrees=3, molecular_weight=rnd.uniform(1, 500))
        return kw
    n = nmodes or rnd.choice([1, 1, 2, 3, 5, 9, 15])          # diatomic ... 15-mode adsorbate
    wn = [rnd.choice([rnd.uniform(10, 200), rnd.uniform(200, 1500), rnd.uniform(150, 4000), rnd.uniform(1500, 4500)])
          for _ in range(n)]
    kw.update(vib_model=vib.HarmonicVib, vib_wavenumbers=wn)
    if gas:
        linear = rnd.random() < 0.3
        kw.update(trans_model=trans.FreeTrans, n_degrees=rnd.choice([3, 3, 3, 2, 1]),
                  molecular_weight=rnd.choice([1.008, rnd.uniform(1, 500)]),
                  rot_model=rot.RigidRotor, symmetrynumber=rnd.choice([1, 2, 3, 6, 12]),
                  rot_temperatures=[10 ** rnd.uniform(-2, 2) for _ in range(1 if linear else 3)],
                  geometry='linear' if linear else 'nonlinear')
    return kw


class _PolyModel:
    """a species-like source evaluating one polynomial of the target family"""
    def __init__(self, fam, a, units, T_low, T_high):
        self.fam, self.a, self.name, self.elements = fam, a, 'src', {'C': 1, 'H': 4}
        self.T_low, self.T_high = T_low, T_high
        self.ev = _evals(fam, units)

    def get_CpoR(self, T):
        import numpy as np
        if hasattr(T, '__iter__'):
            return np.array([self.ev[0](self.a, float(t)) for t in T])
        return self.ev[0](self.a, float(T))

    def get_HoRT(self, T):
        return self.ev[1](self.a, float(T))

    def get_SoR(self, T):
        return self.ev[2](self.a, float(T))


def _window(rnd, wc):
    """a window of the class; the bounds 100 K and 3000 K themselves are reached by full / low_end / high_end"""
    if wc == 'full':
        return 100.0, 3000.0
    if wc == 'wide':
        lo = rnd.uniform(100, 600)
        return lo, rnd.uniform(max(1200.0, lo + 800), 3000)
    if wc == 'narrow':                                   # a few hundred K anywhere in the range
        span = rnd.uniform(100, 500)
        lo = rnd.uniform(100, 3000 - span)
        return lo, lo + span
    if wc == 'tiny':                                     # tens of K
        span = rnd.uniform(20, 100)
        lo = rnd.uniform(100, 3000 - span)
        return lo, lo + span
    if wc == 'low_end':
        return 100.0, rnd.uniform(250, 700)
    if wc == 'high_end':
        return rnd.uniform(1800, 2800), 3000.0
    lo = rnd.uniform(1200, 2400)                         # high_only
    return lo, rnd.uniform(lo + 300, 3000)


def _n_T(rnd, nt):
    return {'15': 15, '16': 16, '199': 199, '200': 200}.get(nt) or rnd.randrange(17, 199)


def _mk_statmech(kw, T_low=None, T_high=None):
    from pmutt.statmech import StatMech
    m = StatMech(name='src', elements={'C': 1, 'H': 4}, **kw)
    if T_low is not None:
        m.T_low, m.T_high = T_low, T_high
    return m


def execute(case):
    import warnings
    warnings.simplefilter('ignore')
    import numpy as np
    from pmutt.empirical.nasa import Nasa, Nasa9
    from pmutt.empirical.shomate import Shomate
    from pmutt.statmech import StatMech
    from pmutt import constants as _c
    rnd = random.Random(case['cseed'])
    fam, src, nseg, route = case['fam'], case['src'], case['nseg'], case['route']
    win, nt, order, cont = case['win'], case['nt'], case['order'], case['cont']
    tmform, mform, fit, gridk = case['tmform'], case['mform'], case['fit'] == 'fit', case['grid']
    units = UNIT_ROUND[case['unit'] % len(UNIT_ROUND)]
    # physical magnitudes (Cp/R of a few units whatever the unit): always for the smallest units, else every other case
    scale = _c.R(units) / _c.R('J/mol/K') if fam == 'shomate' and (units in ('Eh/K', 'Ha/K')
                                                                  or (case['cseed'] // 7) % 2 == 0) else 1.0
    n = _n_T(rnd, nt)
    T_low, T_high = _window(rnd, win)
    if case.get('nmodes'):
        # from_model evaluates the source on the whole temperature grid at once: a one-mode (diatomic) source, or a
        # grid as long as the number of modes, makes that call broadcast
        if case['nmodes'] == 15:
            n = 15
    # ---- the data grid (ascending here; reordered below) and the requested breaks
    int_grid = False
    if cont == 'int' and (T_high - T_low) / (n * (nseg if fam == 'nasa9' else 1) - 1) >= 1.0:
        # integer-typed temperatures: an arithmetic progression of integers inside the window
        ntot = n * (nseg if fam == 'nasa9' else 1)
        step = int((T_high - T_low) // (ntot - 1))
        if win in ('full', 'high_end'):
            T_high = 3000.0
            T_low = T_high - step * (ntot - 1)
        else:
            T_low = float(math.ceil(T_low))
            T_high = T_low + step * (ntot - 1)
        T = (int(T_low) + step * np.arange(ntot)).astype(np.int64)
        int_grid = True
        gridk = 'uniform'
    brk = []
    if fam == 'nasa9':
        if gridk == 'per_interval' and not int_grid:
            # the grid Nasa9.from_model builds itself: n points per interval, the breaks appear twice
            fr = sorted(rnd.uniform(0.15, 0.85) for _ in range(nseg - 1))
            if nseg == 3 and fr[1] - fr[0] < 0.15:
                fr = [0.33, 0.66]
            brk = [T_low + f * (T_high - T_low) for f in fr]
            ed = [T_low] + brk + [T_high]
            T = np.concatenate([np.linspace(a, b, n) for a, b in zip(ed, ed[1:])])
        else:
            if not int_grid:
                T = np.linspace(T_low, T_high, n * nseg)
            N = len(T)
            # every interval keeps >= 9 data temperatures (7 determine the seven Cp coefficients)
            if nseg == 2:
                idx = [rnd.randrange(9, N - 10)]
            elif nseg == 3:
                i1 = rnd.randrange(9, N - 20)
                idx = [i1, rnd.randrange(i1 + 10, N - 10)]
            else:
                idx = []
            on_grid = int_grid or rnd.random() < 0.5
            brk = [float(T[i]) if on_grid else 0.5 * (float(T[i]) + float(T[i + 1])) for i in idx]
    else:
        if not int_grid:
            T = np.linspace(T_low, T_high, n)
        if fam == 'nasa7':
            if case['tmid'] == 'none' and route == 'data':
                i = rnd.randrange(5, n - 5)
            else:
                i = rnd.randrange(4, n - 5)             # >= 5 data temperatures on either side of a requested T_mid
            on_grid = int_grid or rnd.random() < 0.5
            brk = [float(T[i]) if on_grid else 0.5 * (float(T[i]) + float(T[i + 1]))]
            if route == 'model' and case['tmid'] != 'none' and case['cseed'] % 3 == 0:
                brk = [0.5 * (T_low + T_high)]          # T_mid exactly the reference temperature from_model uses
    ev = _evals(fam, units)
    edges = [T_low] + brk + [T_high]
    # ---- source
    model = None
    mkw = None
    href = sref = None
    if src == 'poly':
        a = _poly_coeffs(rnd, fam, scale)
        pieces = [a] * (len(edges) - 1)
    elif src == 'piecewise':
        pieces = [_poly_coeffs(rnd, fam, scale) for _ in range(len(edges) - 1)]
    elif src in ('const', 'zero') and not (route == 'model' and (mform == 'class' or case['cseed'] % 2 == 0)):
        if src == 'const':
            cval = rnd.uniform(1.5, 9)
            z = {'nasa7': [cval, 0, 0, 0, 0, rnd.uniform(-3e3, 3e3), rnd.uniform(-5, 5)],
                 'nasa9': [0, 0, cval, 0, 0, 0, 0, rnd.uniform(-3e3, 3e3), rnd.uniform(-5, 5)],
                 'shomate': [x * scale for x in [cval * 8.0, 0, 0, 0, 0, rnd.uniform(-50, 50), rnd.uniform(100, 200), 0]]}[fam]
        else:
            z = {'nasa7': [0] * 5 + [rnd.uniform(-3e3, 3e3), rnd.uniform(-5, 5)],
                 'nasa9': [0] * 7 + [rnd.uniform(-3e3, 3e3), rnd.uniform(-5, 5)],
                 'shomate': [0] * 5 + [rnd.uniform(-50, 50), rnd.uniform(100, 200), 0]}[fam]
        pieces = [z] * (len(edges) - 1)
    else:
        # a StatMech species: vibrating ideal gas / adsorbate, or (model route) the monatomic gas (constant Cp) and
        # the purely electronic species (zero Cp)
        mkw = _statmech_kwargs(rnd, src == 'statmech_gas', case.get('nmodes'),
                               kind=src if src in ('const', 'zero') else 'vib')
        model = _mk_statmech(mkw)
        pieces = None

    def seg_of(t):
        for i in range(len(edges) - 1):
            if t <= edges[i + 1]:
                return i
        return len(edges) - 2

    def src_vals(t):
        if model is not None:
            return float(model.get_CpoR(T=t)), float(model.get_HoRT(T=t)), float(model.get_SoR(T=t))
        a = pieces[seg_of(t)]
        return ev[0](a, t), ev[1](a, t), ev[2](a, t)

    Cp = np.array([src_vals(float(t))[0] for t in T])
    # ---- reference temperature
    pos = case['tref']
    if pos == 'first':
        T_ref = rnd.uniform(edges[0], edges[1])
    elif pos == 'break':
        T_ref = rnd.choice(brk)
    elif pos == 'below_break':
        T_ref = rnd.choice(brk) * (1 - 1e-9)
    elif pos == 'above_break':
        T_ref = rnd.choice(brk) * (1 + 1e-9)
    elif pos == 'middle':
        T_ref = rnd.uniform(edges[1], edges[2])
    elif pos == 'last':
        T_ref = rnd.uniform(edges[-2], edges[-1])
    elif pos == 'low_edge':
        T_ref = T_low
    elif pos == 'high_edge':
        T_ref = T_high
    elif pos == 'grid':
        T_ref = float(T[rnd.randrange(len(T))])
    else:
        T_ref = None
    if case['reft'] == 'int' and pos in ('first', 'middle', 'last'):
        j = {'first': 0, 'middle': 1, 'last': len(edges) - 2}[pos]
        r = float(round(0.5 * (edges[j] + edges[j + 1])))
        if edges[j] < r < edges[j + 1]:
            T_ref = r                                # an integer-valued reference temperature inside the segment
    # ---- T_mid argument in its container
    tm_arg = {}
    guesses = None
    fi = 'abc'.index(tmform)
    if fam == 'nasa7':
        guesses = [brk[0]]
        if case['tmid'] == 'list':
            k = rnd.random()
            # an edge guess (within the lowest data points) first - only for smooth model sources: with fewer than
            # five points the low segment's quartic is not determined by the data, so "reproduces the generating
            # polynomial" cannot be demanded of any fit if that guess is taken (a false alarm of an earlier version:
            # seed 3, ExactRecoveryH/S 2e-4 with T_mid on the second data point)
            if k < 0.5 and model is not None and src not in ('const', 'zero'):
                guesses = [float(T[rnd.randrange(1, 4)]), brk[0],
                           float(T[rnd.randrange(len(T) // 2, max(len(T) // 2 + 1, len(T) - 10))])]
            elif k < 0.8:                            # several interior guesses: ascending, descending or shuffled
                guesses = sorted({float(T[rnd.randrange(4, len(T) - 5)]) for _ in range(3)} | {brk[0]})
                if case['cseed'] % 3 == 1:
                    guesses.reverse()
                elif case['cseed'] % 3 == 2:
                    rnd.shuffle(guesses)
                info_guess_order = ('ascending', 'descending', 'shuffled')[case['cseed'] % 3]
        if case['tmid'] == 'scalar':
            v = brk[0]
            v = [v, int(v) if float(v).is_integer() else v, np.float64(v)][fi]
            tm_arg = {'T_mid': v}
        elif case['tmid'] == 'list':
            tm_arg = {'T_mid': [list(guesses), tuple(guesses), np.array(guesses)][fi]}
    elif fam == 'nasa9':
        if case['tmid'] == 'none':
            tm_arg = [{}, {'T_mid': []}, {'T_mid': np.array([])}][fi] if route == 'data' else {}
        elif case['tmid'] == 'scalar':
            v = brk[0]
            tm_arg = {'T_mid': [v, int(v) if float(v).is_integer() else v, np.float64(v)][fi]}
        else:
            tm_arg = {'T_mid': [list(brk), tuple(brk), np.array(brk)][fi]}
    obj2 = None
    e = {'ev': 'fit', 'fam': fam, 'src': 'statmech' if (model is not None and src not in ('const', 'zero')) else src,
         'st': 'ok'}
    info = {'T_low': T_low, 'T_high': T_high, 'brk': brk, 'T_ref': T_ref, 'units': units, 'npts': int(len(T)),
            'int_grid': int_grid, 'statmech': model is not None, 'scale': scale != 1.0}
    # ---- order and container of the data (from_data only)
    Tin, Cpin = T, Cp
    if route == 'data':
        if order == 'dup':
            # repeated temperatures (a data set merged from overlapping series); the five lowest and five highest
            # stay distinct so that every screened NASA-7 T_mid still leaves five distinct temperatures on each side
            k = max(1, len(T) // 10)
            ii = sorted(rnd.randrange(5, len(T) - 5) for _ in range(k))
            sel = np.sort(np.concatenate([np.arange(len(T)), np.array(ii, dtype=int)]))
            Tin, Cpin = T[sel], Cp[sel]
        elif order == 'desc':
            Tin, Cpin = T[::-1].copy(), Cp[::-1].copy()
        elif order == 'shuffled':
            perm = list(range(len(T)))
            rnd.shuffle(perm)
            Tin, Cpin = T[perm], Cp[perm]
        if cont == 'listCp':
            Cpin = [float(x) for x in Cpin]
        elif cont == 'pylist':
            Tin, Cpin = [float(x) for x in Tin], [float(x) for x in Cpin]
    info['T_is_int'] = bool(int_grid)
    try:
        cls = {'nasa7': Nasa, 'nasa9': Nasa9, 'shomate': Shomate}[fam]
        extra = {'units': units} if fam == 'shomate' else {}
        if route == 'data':
            if src in ('poly', 'const', 'zero') or model is not None:
                _, href, sref = src_vals(T_ref)
            else:
                href, sref = rnd.uniform(-40, 40), rnd.uniform(5, 60)
                z = case['cseed'] % 4                    # falsy reference values
                if z == 0:
                    href = 0.0
                elif z == 1:
                    sref = 0.0
            # the reference as Python floats, numpy scalars, or an integer-valued int temperature
            T_ref_arg, href_arg, sref_arg = T_ref, href, sref
            if case['reft'] == 'np':
                T_ref_arg, href_arg, sref_arg = np.float64(T_ref), np.float64(href), np.float64(sref)
            elif case['reft'] == 'int' and float(T_ref).is_integer():
                # a Python int, or the numpy integer a caller gets from indexing an integer temperature array
                T_ref_arg = [int, np.int64, np.int32][case['cseed'] % 3](T_ref)
            info['ref_types'] = [type(T_ref_arg).__name__, type(href_arg).__name__]
            # the data belong to the caller, who fits them again (another T_mid, another family): a fit that scales
            # or sorts them in place makes every LATER fit from the same arrays miss its source (seed C03-13)
            snapT, snapCp = np.array(Tin, dtype=float), np.array(Cpin, dtype=float)
            obj = cls.from_data(name='fit', T=Tin, CpoR=Cpin, T_ref=T_ref_arg, HoRT_ref=href_arg, SoR_ref=sref_arg,
                                elements={'C': 1, 'H': 4}, phase='S', **tm_arg, **extra)
            if not (np.array_equal(np.array(Tin, dtype=float), snapT)
                    and np.array_equal(np.array(Cpin, dtype=float), snapCp)):
                raise ValueError("from_data changed the caller's T / CpoR data in place")
            if fam == 'nasa7' and case['tmid'] == 'list':
                # the fit returned for a LIST of guesses is the fit at the guess it reports: refit with that scalar
                tm0 = obj.T_mid[0] if isinstance(obj.T_mid, (list, tuple)) else obj.T_mid
                obj2 = cls.from_data(name='fit', T=Tin, CpoR=Cpin, T_ref=T_ref_arg, HoRT_ref=href_arg,
                                     SoR_ref=sref_arg, elements={'C': 1, 'H': 4}, phase='S', T_mid=float(tm0), **extra)
        else:
            m = model if model is not None else _PolyModel(fam, pieces[0], units, T_low, T_high)
            if model is None and mform != 'attrs' and case['cseed'] % 2:
                # a source that carries its OWN (wider) validity range, like a Nasa or Shomate species used as the
                # model: the window passed explicitly is the one to fit, the model's range is only the default
                m.T_low, m.T_high = max(1.0, T_low - 40.0), T_high + 150.0
                info['model_range_wider'] = True
            kw = dict(name='fit', T_low=T_low, T_high=T_high, elements={'C': 1, 'H': 4}, phase='S')
            if mform == 'class':
                # the documented alternative: the model's class plus the keywords that initialise it
                kw.update(model=StatMech, **mkw)
            elif mform == 'attrs':
                # name / T_low / T_high / elements left to the model's attributes
                if model is not None:
                    m = model = _mk_statmech(mkw, T_low, T_high)
                kw = dict(model=m, phase='S')
            else:
                kw['model'] = m
            if fam == 'nasa9':
                kw.update(n_interval=nseg, n_T=n)
                if case['tmid'] == 'none':
                    kw['fit_T_mid'] = True
                else:
                    kw.update(tm_arg)
                    kw['fit_T_mid'] = fit
            elif fam == 'nasa7':
                kw.update(tm_arg)
                kw['n_T'] = n
            else:
                kw.update(extra)
                kw['n_T'] = n
            obj = cls.from_model(**kw)
            if fam == 'nasa7' and case['tmid'] == 'list':
                tm0 = obj.T_mid[0] if isinstance(obj.T_mid, (list, tuple)) else obj.T_mid
                obj2 = cls.from_model(**dict(kw, T_mid=float(tm0)))
            # reference used by the library: mid-window (NASA-7, Shomate) / T_low (NASA-9)
            T_ref = T_low if fam == 'nasa9' else 0.5 * (T_low + T_high)
            _, href, sref = (float(m.get_CpoR(T=T_ref)), float(m.get_HoRT(T=T_ref)), float(m.get_SoR(T=T_ref)))
            info['T_ref'] = T_ref
            if mform == 'attrs' and (obj.name != 'src' or dict(obj.elements) != {'C': 1, 'H': 4}):
                raise ValueError('name / elements not taken from the model: %r %r' % (obj.name, obj.elements))
    except Exception as ex:
        e['st'] = 'raise'
        info['raised'] = '%s: %s' % (type(ex).__name__, ex)
        return [e], info
    # ---- observe the fitted object
    try:
        if fam == 'nasa7':
            tmid = obj.T_mid[0] if isinstance(obj.T_mid, (list, tuple)) else obj.T_mid
            obrk = [float(tmid)]
            segs = [obj.a_low, obj.a_high]
        elif fam == 'nasa9':
            ns = list(obj.nasas)
            obrk = [float(s.T_high) for s in ns[:-1]]
            segs = [s.a for s in ns]
        else:
            obrk, segs = [], [obj.a]
        sev = _evals(fam, units)
        if route == 'model' and fam == 'nasa9':
            # the grid from_model built: n points per fitted interval
            oe = [T_low] + obrk + [T_high]
            Tdata = np.concatenate([np.linspace(a, b, n) for a, b in zip(oe, oe[1:])])
        else:
            Tdata = np.asarray(T, dtype=float)
        Tdist = np.unique(Tdata)
        e.update({'Tlo': to_dec(float(obj.T_low)), 'Thi': to_dec(float(obj.T_high)),
                  'dmin': to_dec(float(min(T))), 'dmax': to_dec(float(max(T))),
                  'brk': [to_dec(b) for b in obrk], 'tref': to_dec(T_ref), 'href': to_dec(href), 'sref': to_dec(sref),
                  'hfit': to_dec(float(np.squeeze(obj.get_HoRT(T=T_ref)))),
                  'sfit': to_dec(float(np.squeeze(obj.get_SoR(T=T_ref)))),
                  'hl': [to_dec(sev[1](segs[i], b)) for i, b in enumerate(obrk)],
                  'hr': [to_dec(sev[1](segs[i + 1], b)) for i, b in enumerate(obrk)],
                  'sl': [to_dec(sev[2](segs[i], b)) for i, b in enumerate(obrk)],
                  'sr': [to_dec(sev[2](segs[i + 1], b)) for i, b in enumerate(obrk)]})
        # what the fitted OBJECT reports at each break temperature, asked as a scalar and inside an array that
        # brackets the break (continuity is a statement about the reported H and S, not only about coefficients)
        hb, sb = [], []
        for b in obrk:
            arrT = np.array([0.5 * (b + max(float(obj.T_low), b * 0.99)), b, 0.5 * (b + min(float(obj.T_high), b * 1.01))])
            ha = np.atleast_1d(obj.get_HoRT(T=arrT))
            sa = np.atleast_1d(obj.get_SoR(T=arrT))
            hb.append([to_dec(float(np.squeeze(obj.get_HoRT(T=b)))), to_dec(float(ha[1]))])
            sb.append([to_dec(float(np.squeeze(obj.get_SoR(T=b)))), to_dec(float(sa[1]))])
        e['hb'], e['sb'] = hb, sb
        samples = []
        worst = [0.0, 0.0, 0.0]
        oedges = [float(obj.T_low)] + obrk + [float(obj.T_high)]
        # distinct data temperatures of each fitted segment (T_low < T <= T_high of the segment, the split the fits
        # use; the lowest segment also holds the lowest data temperature)
        segcount = [int(((Tdist > oedges[j]) & (Tdist <= oedges[j + 1])).sum()) + (1 if j == 0 else 0)
                    for j in range(len(oedges) - 1)]
        info['segcount'] = segcount
        for t in np.linspace(T_low, T_high, 25):
            t = float(t)
            f = (float(np.squeeze(obj.get_CpoR(T=t))), float(np.squeeze(obj.get_HoRT(T=t))),
                 float(np.squeeze(obj.get_SoR(T=t))))
            s = src_vals(t) if (model is not None or src != 'piecewise') else f
            if route == 'model' and model is None:
                s = src_vals(t)
            j = 0
            while j < len(oedges) - 2 and t > oedges[j + 1]:
                j += 1
            # H and S of a segment are chained to the reference through every segment in between: a sample is
            # judged for recovery / tracking only if all of them are determined by the data
            jr = 0
            while jr < len(oedges) - 2 and T_ref > oedges[jr + 1]:
                jr += 1
            npt = min(segcount[min(j, jr):max(j, jr) + 1])
            samples.append([to_dec(t)] + [to_dec(x) for x in f] + [to_dec(x) for x in s] + [min(npt, 99), min(segcount[j], 99)])
            for q in range(3):
                worst[q] = max(worst[q], abs(f[q] - s[q]))
        e['samples'] = samples
        # Cp/R, H/RT, S/R of the scalar refit at the same sample temperatures ([] when no list of guesses was given)
        e['refit'] = [] if obj2 is None else [[to_dec(float(np.squeeze(g(T=float(t))))) for g in
                                               (obj2.get_CpoR, obj2.get_HoRT, obj2.get_SoR)]
                                              for t in np.linspace(T_low, T_high, 25)]
        info['worst_abs_dev'] = worst
        info['obj_breaks'] = obrk
    except Exception as ex:
        e = {'ev': 'fit', 'fam': fam, 'src': e['src'], 'st': 'raise'}
        info['raised'] = 'observing the fitted object: %s: %s' % (type(ex).__name__, ex)
    return [e], info


def _safe(case):
    try:
        return execute(case)
    except core.MachineryError:
        raise
    except Exception as ex:
        import traceback
        raise core.MachineryError('driver failure on %r: %s' % (case, traceback.format_exc()[-800:]))


KEYS = ('fam', 'src', 'nseg', 'tref', 'tmid', 'route')
TAGS = KEYS + ('win', 'nt', 'order', 'cont', 'tmform', 'mform', 'fit', 'grid', 'reft')


def _build_cases(ctx, cfgs, rnd):
    """Every TLC configuration at least once per repetition; the groups with few configurations are repeated until
    each (family, route) holds enough cases for its rotating axes (and, for Shomate, all 16 units)."""
    cfgs = sorted(cfgs, key=lambda c: [c[k] for k in KEYS])
    groups = {}
    for c in cfgs:
        groups.setdefault((c['fam'], c['route']), []).append(c)
    # cases per (family, route) at least; Shomate has the fewest configurations but the largest unit space
    floors = {('shomate', 'data'): ctx.pick(160, 1600), ('shomate', 'model'): ctx.pick(96, 960),
              ('nasa7', 'data'): ctx.pick(226, 2400), ('nasa9', 'data'): ctx.pick(380, 3800)}
    reps0 = ctx.pick(1, 12)
    cases = []
    counters = {}
    admissible = {}
    for (fam, route), lst in sorted(groups.items()):
        reps = max(reps0, -(-floors.get((fam, route), ctx.pick(48, 480)) // len(lst)))
        for c in lst:
            for ax, key in AXES:
                for v in c[key]:
                    admissible.setdefault((fam, route, ax, v), 0)
        for rep in range(reps):
            for c in lst:
                case = {k: c[k] for k in KEYS}
                # each axis is dealt per (family, route) in freshly shuffled rounds of its admissible values: every
                # value comes up once per round (balanced), in an order that does not alias with the configuration list
                for ax, key in AXES:
                    vals = sorted(c[key])
                    k = (fam, route, ax, len(vals))
                    if not counters.get(k):
                        counters[k] = rnd.sample(range(len(vals)), len(vals))
                    case[ax] = vals[counters[k].pop()]
                ku = (fam, route, 'unit')
                case['unit'] = counters.get(ku, ctx.seed)
                counters[ku] = case['unit'] + 1
                case['cseed'] = rnd.randrange(1 << 30)
                slow = fam == 'nasa9' and route == 'model' and (c['tmid'] == 'none' or case['fit'] == 'fit') \
                    and c['nseg'] > 1
                if slow and case['nt'] in ('199', '200') and ctx.quick and rep % 3:
                    case['nt'] = 'mid' if rep % 3 == 1 else '15'      # the Nelder-Mead T_mid search costs ~3 s at n_T = 200
                cases.append(case)
                if route == 'model' and c['src'].startswith('statmech') and not slow and rep < ctx.pick(2, 12):
                    # the vectorised source evaluation: diatomic sources and grids as long as the mode list
                    for nm in (1, 15):
                        cases.append(dict(case, cseed=rnd.randrange(1 << 30), nmodes=nm, nt='15' if nm == 15 else case['nt']))
    return cases, admissible


def run(ctx):
    ctx.coverage['rule'] = (
        'a case is one fit: a configuration emitted by TLC from FitCases.tla (family x source x number of segments '
        'x reference-temperature position x T_mid form x from_data/from_model), completed with one admissible value '
        'of each rotating axis (window class, n_T, data order, data container, T_mid container, model form, '
        'fit_T_mid, NASA-9 grid, Shomate unit) and instantiated with a random window of the class '
        '(100 <= T_low < T_high <= 3000), coefficients / StatMech parameters; non-trivial: every case (each calls '
        'the real fit); distinct by (configuration, axes, seed)')
    rnd = random.Random(ctx.seed)
    admissible = {}
    if ctx.replay_case is not None:
        cases = [ctx.replay_case['case']]
    else:
        for alg in ('containing', 'walk', 'first_char'):
            ctx.model('Fit', 'MC_Fit_' + alg, workers=4)
        bad = ctx.model('Fit', 'MC_Fit_first', workers=4, expect_ok=False)
        if bad.ok or bad.violated != 'Anchor':
            raise core.MachineryError('the pinned NASA-9 anchoring rule should violate Anchor in the design model')
        ctx.notes.append('design model: NASA-9 "anchor the first segment" rule violates Anchor; it holds iff T_ref lies in '
                         'segment 1 and the segment records are not aliased (MC_Fit_first_char)')
        cfgs, r = core.tlc_cases('FitCases', 'FitCases')
        ctx.coverage['tlc_configurations'] = len(cfgs)
        _unit_table()
        cases, admissible = _build_cases(ctx, cfgs, rnd)
    results = core.pmap(_safe, cases)
    traces = []
    worst = {}
    cov = {}                                   # vacuity counters of the input classes

    def hit(*k):
        cov[k] = cov.get(k, 0) + 1
    for tid, (case, (events, info)) in enumerate(zip(cases, results)):
        ctx.evaluated()
        ctx.nontrivial([case.get(k) for k in TAGS + ('unit', 'cseed', 'nmodes')])
        traces.append((tid, events))
        fam, route = case['fam'], case['route']
        for ax, _ in AXES:
            v = case[ax]
            if ax == 'cont' and v == 'int' and not info.get('int_grid'):
                v = 'ndarray'                  # the window was too narrow for an integer grid of that length
            hit(fam, route, ax, v)
        if fam == 'shomate':
            hit('unit', route, UNIT_ROUND[case['unit'] % len(UNIT_ROUND)])
        if events[0]['st'] == 'ok':
            lo, hi = info['T_low'], info['T_high']
            if lo == 100.0:
                hit('bound', fam, 'T_low=100')
            if hi == 3000.0:
                hit('bound', fam, 'T_high=3000')
            hit('npts', fam, route, case['nt'])
            if info.get('statmech'):
                hit('source', fam, route, 'StatMech:' + case['src'])
            if case['tref'] == 'lib' and fam == 'nasa7' and info['obj_breaks'] and info['obj_breaks'][0] == info['T_ref']:
                hit('tref', fam, 'from_model T_ref == T_mid')
            if 'ref_types' in info:
                hit('reftype', fam, 'int' if info['ref_types'][0].startswith('int') else info['ref_types'][0])
        if 'worst_abs_dev' in info and case['src'].startswith('statmech'):
            w = worst.setdefault(fam, [0.0, 0.0, 0.0])
            for j in range(3):
                w[j] = max(w[j], info['worst_abs_dev'][j])
        if tid % 97 == 0:
            ctx.sample(dict(case, window=[info.get('T_low'), info.get('T_high')], T_ref=info.get('T_ref')))
    ctx.coverage['statmech_tracking_worst_abs_dev_CpoR_HoRT_SoR'] = worst
    fails, stats = core.validate_traces('Trace_Fit', 'Trace', traces)
    ctx.count('traces_validated_against_impl', len(traces))
    judged = {}
    for tid, idx, clause in fails:
        case = cases[tid]
        if clause.startswith('~'):                 # vacuity accounting of the trace spec, not a verdict
            k = (case['fam'], clause[1:].split(':')[0])
            judged[k] = judged.get(k, 0) + 1
            kind = clause[1:].split(':')[0]
            hit('judged_route', case['fam'], case['route'], kind)
            hit('judged_win', case['fam'], kind, case['win'])
            hit('judged_nt', case['fam'], kind, case['nt'])
            continue
        tags = {k: case[k] for k in TAGS}
        ctx.violation(clause, case, tags=tags, detail=results[tid][1])
    ctx.coverage['judged_fits_by_family_and_kind'] = {'%s %s' % k: v for k, v in sorted(judged.items())}
    ctx.coverage['input_classes_exercised'] = {' '.join(str(x) for x in k): v for k, v in sorted(cov.items())}
    if ctx.replay_case is None:
        _vacuity(cov, admissible)
    ctx.assume('statistical-mechanical tracking is banded by the largest segment span ratio of the fitted object '
               '(Trace_Fit.tla); the least-squares optimality of the Cp fit itself is not checked')
    ctx.assume('a segment is judged for recovery / tracking when it holds enough distinct data temperatures to '
               'determine its Cp polynomial (5 for NASA-7 and Shomate, 7 for NASA-9); under-determined fits are '
               'outside the quantifier')
    ctx.assume('T is a numpy array for Nasa.from_data (documented type); NASA-9 break lists are ascending')


def _unit_table():
    """'every Shomate fitting unit' is the table inside constants.R: UNITS must list all of its /K keys"""
    import inspect
    import re
    from pmutt import constants as c
    keys = set(re.findall(r"'([^']+/K)'\s*:", inspect.getsource(c.R)))
    if keys and keys != set(UNITS):
        raise core.MachineryError('the unit table of constants.R changed; UNITS is out of date: %r'
                                  % sorted(keys ^ set(UNITS)))


def _vacuity(cov, admissible):
    """every input class of the quantifier must have been exercised in this run (zero => exit 2)"""
    missing = []
    for (fam, route, ax, v) in sorted(admissible):
        if not cov.get((fam, route, ax, v)):
            missing.append((fam, route, ax, v))
    TR = ('tracks2', 'tracks3', 'tracks4', 'tracks6', 'tracks31')
    for route in ('data', 'model'):
        for u in UNITS:
            if not cov.get(('unit', route, u)):
                missing.append(('shomate unit', route, u))
    for fam in ('nasa7', 'nasa9', 'shomate'):
        for b in ('T_low=100', 'T_high=3000'):
            if not cov.get(('bound', fam, b)):
                missing.append(('bound', fam, b))
        for route in ('data', 'model'):
            for nt in ('15', '16', 'mid', '199', '200'):
                if not cov.get(('npts', fam, route, nt)):
                    missing.append(('n_T fitted', fam, route, nt))
            for s in ('statmech_gas', 'statmech_ads'):
                if not cov.get(('source', fam, route, 'StatMech:' + s)):
                    missing.append(('source', fam, route, s))
            if not cov.get(('judged_route', fam, route, 'exact')):
                missing.append(('exact recovery judged', fam, route))
            if not any(cov.get(('judged_route', fam, route, k)) for k in TR):
                missing.append(('tracking judged', fam, route))
        for nt in ('15', '16', 'mid', '199', '200'):
            if not cov.get(('judged_nt', fam, 'exact', nt)):
                missing.append(('n_T judged for exact recovery', fam, nt))
            if not any(cov.get(('judged_nt', fam, k, nt)) for k in TR):
                missing.append(('n_T judged for tracking', fam, nt))
        for w in ('full', 'wide', 'narrow', 'tiny', 'low_end', 'high_end', 'high_only'):
            if not cov.get(('judged_win', fam, 'exact', w)):
                missing.append(('window judged for exact recovery', fam, w))
            if not any(cov.get(('judged_win', fam, k, w)) for k in TR):
                if not (fam == 'nasa9' and w == 'full'):      # NASA-9 over 100-3000 K in <= 3 intervals: span ratio > 3.1
                    missing.append(('window judged for tracking', fam, w))
        for s in ('const', 'zero'):
            if not cov.get(('source', fam, 'model', 'StatMech:' + s)):
                missing.append(('source', fam, 'model', 'StatMech ' + s))
        for t in ('float', 'float64', 'int'):
            if not cov.get(('reftype', fam, t)):
                missing.append(('reference type', fam, t))
    if not cov.get(('tref', 'nasa7', 'from_model T_ref == T_mid')):
        missing.append(('nasa7 from_model with T_ref == T_mid',))
    if missing:
        raise core.MachineryError('vacuous run, input classes never exercised: %r' % (missing[:40],))


if __name__ == '__main__':
    core.main('C03', 'exploration', run)
