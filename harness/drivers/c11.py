"""C11 - JSON serialisation round-trips every pMuTT object.

(D)    spec/JsonRoundTrip.tla: object trees over the schema of serialisable classes, lifecycles
       of Encode / Load / DecodeDict / DecodeAgain / Reencode.  MC_JsonRoundTrip.cfg (required
       tables) must hold; with the tables transcribed from the pinned source
       (MC_JsonRoundTrip_pinned.cfg / _pinned_all.cfg) TLC must REJECT all seven invariants.
(S->C) Cases_JsonRoundTrip.tla writes the schema and every enumerated tree with the outcome TLC
       computes ("same"); MC_JsonRoundTrip_life.cfg gives the lifecycles.  Each (tree, lifecycle)
       is built from real objects with random non-default attribute values and run through the
       real encoder / object hook; the decoded class tree must EQUAL the original (ReplayState).
(C->S) every run is recorded (one line per call, per decoded node, per getter group, per
       dictionary of the caller's dictionary) and judged by spec/Trace_JsonRoundTrip.tla.
"""
import concurrent.futures as cf
import json
import random

from harness import core
from harness import lib_c11

MODULE = 'JsonRoundTrip'
PINNED = ['NoRaise', 'RegistryTotal', 'SameClassTree', 'AttrsKept', 'DictUntouched', 'Repeatable',
          'Idempotent']

_SCHEMA = {}
AUDIT_CLASSES = ('EmpiricalBase', 'Network', 'ExtendedLSR', 'OmkmBEP')   # added by the quantifier audit


def _full(case):
    """Cases travel with their tree as a JSON string (the parent process stays small)."""
    if 'tree_s' in case:
        case = dict(case)
        case['tree'] = json.loads(case.pop('tree_s'))
    return case


def _execute(case):
    return lib_c11.run_lifecycle(_full(case), _SCHEMA['schema'], _SCHEMA['attrs'])


def _safe_execute(case):
    try:
        return _execute(case)
    except core.MachineryError as ex:
        return ('machinery', str(ex))
    except Exception as ex:               # building / walking failed: not a verdict about the library
        import traceback
        return ('machinery', 'case %s: %s' % (json.dumps(case)[:300], traceback.format_exc()[-1500:]))


def _size(t):
    k = t['k'] if isinstance(t['k'], dict) else {}
    return 1 + sum(_size(x) for q in k.values() for x in q)


def _classes(t, acc=None):
    acc = set() if acc is None else acc
    acc.add(t['c'])
    k = t['k'] if isinstance(t['k'], dict) else {}
    for s, q in k.items():
        for x in q:
            acc.add('%s.%s>%s' % (t['c'], s, x['c']))
            _classes(x, acc)
    return acc


def _load_cases(cfg):
    data, r = core.tlc_cases('Cases_' + MODULE, cfg, timeout=1500)
    return data


def _tags_for(ev, clause):
    base, _, detail = clause.partition(':')
    if ev['ev'] == 'call':
        return base, {'class': ev.get('where', ''), 'attr': '<raise>', 'action': ev['name'], 'err': ev.get('err', '')}
    if ev['ev'] == 'node':
        if base == 'NestedDecoded':
            return base, {'class': ev['parent'], 'attr': ev['slot'], 'action': ev['act'], 'child': ev['cls']}
        if base == 'RegistryTotal':
            return base, {'class': ev['cls'], 'attr': '<registry>', 'action': ev['act']}
        if base == 'SameClass':
            return base, {'class': ev['cls'], 'attr': '<class>', 'action': ev['act'], 'got': ev['gotcls']}
        return base, {'class': ev['cls'], 'attr': detail, 'action': ev['act']}
    if ev['ev'] == 'getters':
        return base, {'class': ev['cls'], 'attr': detail, 'action': ev['act']}
    if ev['ev'] == 'dictnode':
        return base, {'class': ev['cls'], 'attr': '<dict>', 'action': ev['act']}
    if ev['ev'] == 'renode':
        return base, {'class': ev['cls'], 'attr': '<again>', 'action': 'again', 'got': ev['kind']}
    return base, {'class': '', 'attr': ''}


def _replay_tags(d, call):
    act = {'Load': 'load', 'DecodeDict': 'dict'}.get(call, call)
    if d.get('attr') == '<node>':
        if d.get('got') == 'dict' and d.get('tagok') and d.get('parent'):
            return {'class': d['parent'], 'attr': d['slot'], 'action': act, 'child': d['class']}
        if d.get('got') == 'dict':
            return {'class': d['class'], 'attr': '<registry>', 'action': act}
        return {'class': d['class'], 'attr': '<class>', 'action': act, 'got': d.get('got')}
    return {'class': d['class'], 'attr': d['attr'], 'action': act}


def _pick_cases(ctx, trees, lives):
    """trees: [(root class, size, tree as JSON string)]"""
    rnd = random.Random(ctx.seed)
    by_root = {}
    for t in trees:
        by_root.setdefault(t[0], []).append(t)
    for v in by_root.values():
        v.sort(key=lambda t: t[2])
        rnd.shuffle(v)
    cases = []
    n_target = ctx.pick(520, 8000)
    # every root class with every lifecycle on its smallest tree, then a round-robin sample
    for root, ts in sorted(by_root.items()):
        t = min(ts, key=lambda t: (t[1], t[2]))
        for lf in lives:
            cases.append((t, lf))
    quota = max(0, n_target - len(cases))
    picked = []
    roots = sorted(by_root)
    i = 0
    while any(by_root[r] for r in roots) and len(picked) < quota:
        r = roots[i % len(roots)]
        i += 1
        if by_root[r]:
            picked.append(by_root[r].pop())
    for j, t in enumerate(picked):
        cases.append((t, lives[(j + rnd.randrange(len(lives))) % len(lives)]))
    out = []
    for n, (t, lf) in enumerate(cases):
        out.append({'cid': n, 'root': t[0], 'size': t[1], 'tree_s': t[2], 'life': lf,
                    'seed': rnd.randrange(1 << 30),
                    # every other case draws falsy members (0, 0.0, -0.0, False, '', {}, []) for its
                    # scalar slots: all of them / each with probability 1/2
                    'falsy': {1: 'all', 3: 'half', 7: 'half'}.get(n % 8),
                    # flavour of the other values: NumPy scalars/arrays, optional arguments at None,
                    # extreme doubles with NaN/inf
                    'flavor': {2: 'numpy', 4: 'none', 5: 'extreme'}.get(n % 8)})
    # objects that do not come from the schema enumeration: float-built LSR, unnamed species,
    # the repository's own example objects
    for j, name in enumerate(sorted(lib_c11.EXTRAS)):
        for q in range(2 if ctx.quick else len(lives)):
            out.append({'cid': len(out), 'extra': name, 'life': lives[(j + 5 * q) % len(lives)],
                        'seed': rnd.randrange(1 << 30)})
    return out


def run(ctx):
    ctx.coverage['rule'] = (
        'a case is one object tree of JsonRoundTrip.tla (root class, per child slot the classes of the '
        'children; one slot varied at a time along chains of the schema) built from real pMuTT objects '
        'with random non-default attribute values, taken through one TLC-generated lifecycle of '
        'Encode/Load/DecodeDict/DecodeAgain/Reencode; non-trivial = at least one decode was reached; '
        'distinct by (tree, lifecycle); every decoded node, attribute, getter group and caller '
        'dictionary is judged by Trace_JsonRoundTrip.tla')
    depth = ctx.pick(3, 4)
    pool = cf.ThreadPoolExecutor(max_workers=4)
    futs = []
    pinned_cases = None
    import time
    t0 = time.time()
    timing = {}
    if ctx.replay_case is not None:
        data = _load_cases('Cases_%s_required_d0' % MODULE)
        cases = [ctx.replay_case['case']]
    else:
        # (D) design model, in the background
        futs.append(pool.submit(ctx.model, 'MC_' + MODULE, 'MC_' + MODULE + ('' if ctx.quick else '_d3'),
                                2 if ctx.quick else 6, True, None, 3000))
        fut_rej = pool.submit(ctx.model, 'MC_' + MODULE, 'MC_%s_pinned_all' % MODULE, 1, True)
        if not ctx.quick:
            futs.append(pool.submit(ctx.model, 'MC_' + MODULE, 'MC_%s_pinned' % MODULE, 2, False))
        # (S->C) cases and lifecycles from TLC
        data = _load_cases('Cases_%s_required_d%d' % (MODULE, depth))
        bad = [c for c in data['cases']
               if not (c['load'] == 'same' and c['dict'] == 'same' and c['again'] == 'same'
                       and c['untouched'] is True and c['reload'] == 'same')]
        if bad:
            raise core.MachineryError('required tables do not round-trip in the model: %s' % json.dumps(bad[0])[:500])
        r = core.run_tlc('MC_' + MODULE, 'MC_%s_life' % MODULE, workers=1, timeout=600)
        lives = [core.parse_tla(p)[1] for p in r.prints() if core.tagged(p, 'LIFE')]
        if not r.ok or len(lives) < 5:
            raise core.MachineryError('lifecycle generation failed:\n' + r.out[-2000:])
        timing['cases_and_lifecycles_s'] = round(time.time() - t0, 1)
        ctx.coverage['tlc_trees'] = len(data['cases'])
        ctx.coverage['tlc_lifecycles'] = len(lives)
        trees = [(c['t']['c'], _size(c['t']), json.dumps(c['t'], sort_keys=True, separators=(',', ':')))
                 for c in data['cases']]
        del data['cases']         # the worker processes fork from here: keep the parent small
        cases = _pick_cases(ctx, trees, lives)
        del trees
    _SCHEMA['schema'] = data['schema']
    _SCHEMA['attrs'] = data['attrs']
    lib_c11.preload()            # import pmutt once, before the worker processes fork
    observed = []
    pending = []                 # violations, reported below with one of each kind first
    edges = set()
    timing['execute_s'] = timing['validate_s'] = 0.0
    n_lines = n_get = n_attr = n_judged = n_falsy = n_shared = n_fallback = 0
    by_flavor = {}
    class_cases = {}
    BATCH = 500                  # bounds the memory held by recorded events
    for b0 in range(0, len(cases), BATCH):
        batch = cases[b0:b0 + BATCH]
        t1 = time.time()
        results = core.pmap(_safe_execute, batch)
        timing['execute_s'] = round(timing['execute_s'] + time.time() - t1, 1)
        traces = []
        for k, (case, res) in enumerate(zip(batch, results)):
            tid = b0 + k
            if res[0] == 'machinery':
                raise core.MachineryError(res[1])
            events, mism, obs = res
            observed.append(obs)
            n_shared += 1 if obs.get('_shared') else 0
            n_fallback += obs.get('_fallbacks', 0)
            if case.get('flavor'):
                by_flavor[case['flavor']] = by_flavor.get(case['flavor'], 0) + 1
            ctx.evaluated()
            if any(e['ev'] == 'node' or (e['ev'] == 'call' and e['raised']) for e in events):
                ctx.nontrivial(json.dumps([case.get('tree_s', case.get('tree', case.get('extra'))), case['life']],
                                          sort_keys=True))
            if 'tree_s' in case or 'tree' in case:
                cl = _classes(_full(case)['tree'])
                edges |= cl
                for c in AUDIT_CLASSES:
                    if c in cl:
                        class_cases[c] = class_cases.get(c, 0) + 1
            seen = set()
            for m in mism:
                tags = _replay_tags(m['tags'], m['call'])
                if 'extra' in case:
                    tags['extra'] = case['extra']
                if case.get('flavor'):
                    tags['flavor'] = case['flavor']
                key = json.dumps(tags, sort_keys=True)
                if key not in seen:
                    seen.add(key)
                    pending.append(('ReplayState', case, tags, m))
            traces.append((tid, events))
            if tid % 131 == 0:
                ctx.sample({'root': case.get('root') or case.get('extra') or case['tree']['c'],
                            'size': case.get('size', 0), 'life': case['life']})
        t1 = time.time()
        fails, stats = core.validate_traces('Trace_' + MODULE, 'Trace', traces)
        timing['validate_s'] = round(timing['validate_s'] + time.time() - t1, 1)
        ctx.count('traces_validated_against_impl', len(traces))
        n_lines += stats['lines']
        n_get += sum(len(e['items']) for _, evs in traces for e in evs if e['ev'] == 'getters')
        n_attr += sum(len(e['attrs']) for _, evs in traces for e in evs if e['ev'] == 'node')
        evs_of = dict(traces)
        by_case = {}
        for tid, idx, clause in fails:
            if clause.startswith('~judged:'):          # vacuity counters of the trace spec, not verdicts
                n_judged += int(clause.split(':')[1])
                continue
            if clause.startswith('~falsy:'):
                n_falsy += int(clause.split(':')[1])
                continue
            ev = evs_of[tid][idx]
            base, tags = _tags_for(ev, clause)
            if 'extra' in cases[tid]:
                tags['extra'] = cases[tid]['extra']
            if cases[tid].get('flavor'):
                tags['flavor'] = cases[tid]['flavor']
            by_case.setdefault((tid, base, json.dumps(tags, sort_keys=True)), []).append(idx)
        for (tid, base, tg), idxs in sorted(by_case.items()):
            ev = evs_of[tid][idxs[0]]
            tags = json.loads(tg)
            small = {k: v for k, v in ev.items() if k not in ('items', 'attrs')}
            if ev['ev'] == 'node':
                small['attrs'] = [a for a in ev['attrs'] if a[0] == tags.get('attr')]
            if ev['ev'] == 'getters':
                small['items'] = [it for it in ev['items'] if it[0] == tags.get('attr')]
            detail = {'event_indices': idxs[:10], 'first_event': small}
            pending.append((base, cases[tid], tags, detail))
        del traces, results, evs_of
    first, rest, kinds = [], [], set()
    for v in pending:
        kind = (v[0], v[2].get('class'), v[2].get('attr'))
        (rest if kind in kinds else first).append(v)
        kinds.add(kind)
    for clause, case, tags, detail in first + rest:
        ctx.violation(clause, case, tags=tags, detail=detail)
    ctx.coverage['schema_edges_exercised'] = len(edges)
    ctx.coverage['trace_lines'] = n_lines
    ctx.coverage['getter_comparisons'] = n_get
    ctx.coverage['getter_comparisons_judged'] = n_judged       # the rest sat above an already reported loss
    ctx.coverage['falsy_non_None_attribute_values_compared'] = n_falsy
    ctx.coverage['cases_with_shared_subobjects'] = n_shared
    ctx.coverage['cases_by_value_flavor'] = by_flavor
    ctx.coverage['constructor_refusals_rebuilt_with_plain_values'] = n_fallback
    newly = {c: class_cases.get(c, 0) for c in AUDIT_CLASSES}
    ctx.coverage['cases_per_audit_class'] = newly
    if ctx.replay_case is None:
        if not n_shared:
            raise core.MachineryError('no case with a shared sub-object: vacuous')
        for fl in ('numpy', 'none', 'extreme'):
            if not by_flavor.get(fl):
                raise core.MachineryError('no case with %s values: vacuous' % fl)
        for c, n in newly.items():
            if not n:
                raise core.MachineryError('class %s never exercised: vacuous' % c)
    if ctx.replay_case is None and not n_falsy:
        raise core.MachineryError('no falsy (0, 0.0, False, "", [], {}) attribute value was compared: vacuous')
    if n_get and not n_judged:
        raise core.MachineryError('GettersEqual was never judged (every getter line was masked): vacuous')
    ctx.coverage['attribute_comparisons'] = n_attr
    # background work: design models must have behaved as expected
    t1 = time.time()
    for f in futs:
        f.result()
    timing['wait_for_models_s'] = round(time.time() - t1, 1)
    ctx.coverage['timing'] = timing
    if ctx.replay_case is None:
        rej = []
        for pv in fut_rej.result().prints():
            if core.tagged(pv, 'REJECTED'):
                rej = sorted(core.parse_tla(pv)[1])
        if rej != sorted(PINNED):
            raise core.MachineryError('the tables of the pinned source should violate %s, TLC recorded %s'
                                      % (sorted(PINNED), rej))
        ctx.notes.append('design model with the tables of the pinned source: TLC records violations of '
                         + ', '.join(rej))
        for m in ctx.coverage.get('models', []):
            if m['cfg'].endswith('_pinned') and (m['ok'] or m['violated'] not in PINNED):
                raise core.MachineryError('pinned tables should be rejected, TLC said %r' % (m,))
        if not ctx.quick:
            try:
                pinned_cases = _load_cases('Cases_%s_pinned_d3' % MODULE)
                npred = sum(1 for c in pinned_cases['cases'] if c['load'] != 'same' or c['dict'] != 'same'
                            or c['untouched'] is not True or c['again'] != 'same')
                ctx.coverage['pinned_model_predicts_divergence_on_trees'] = npred
                # cross-check (never a verdict): does the real tree behave as the pinned tables predict?
                pred = {json.dumps(c['t'], sort_keys=True, separators=(',', ':')): c
                        for c in pinned_cases['cases']}
                agree = {'Load': [0, 0], 'DecodeDict': [0, 0]}
                for case, obs in zip(cases, observed):
                    pc = pred.get(case.get('tree_s'))
                    if pc is None:
                        continue
                    case = _full(case)
                    for call, key in (('Load', 'load'), ('DecodeDict', 'dict')):
                        if call in obs:
                            want = lib_c11.predicted_shape(pc[key], case['tree'], data['schema'])
                            agree[call][1] += 1
                            agree[call][0] += int(lib_c11.strip_shape(obs[call]) == want)
                ctx.coverage['real_code_matches_pinned_model_class_trees'] = {
                    k: '%d/%d' % tuple(v) for k, v in agree.items()}
            except core.MachineryError as ex:
                ctx.notes.append('pinned prediction not available: %s' % str(ex)[:200])
    pool.shutdown()
    ctx.assume('attribute values survive when their 17-digit decimal projections are equal; getter results '
               'are compared to 1e-13 relative')
    ctx.assume('getters are judged only under nodes whose children and feeding attributes all survived '
               '(a loss is reported where it happens, not again through every ancestor getter)')
    ctx.assume('classes outside the property text (ExtendedLSR, Zacros, Network, omkm BEP) are not exercised')


if __name__ == '__main__':
    core.main('C11', 'model_checking', run)
