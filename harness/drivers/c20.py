"""C20 - equations of state invert consistently (pmutt.eos).

(D)    spec/EOS.tla: exact rational model of the getters as actions on a state
       (P, RT, n, V, phase); cubics with known integer / Gaussian-integer roots;
       invariants OnEquation, Selected (largest / smallest real root), IdealLimit,
       action properties RoundTrip and LinearInN; critical constants as ASSUMEs.
       Two selection variants that must be rejected ("realpart", "swapped").
(S->C) TLC emits every modelled cubic with distinct real roots together with the
       root each phase must select; the driver scales it into the quantifier's
       domain, calls the real get_Vm and compares the index of the selected root.
(C->S) spec/Trace_EOS.tla judges recorded states: ideal-gas equation and round
       trips, van der Waals residual, root selection against ALL positive real
       roots bracketed here independently of numpy.roots, round trips, linearity
       in n, ideal limit, critical constants, from_critical; array-valued states
       (same ndarray objects reused): InputUntouched, round trips, array = map of scalar.
"""
import math
import random

from harness import core
from harness.core import to_dec, to_dec2

R_SI = 8.3144598            # J/mol/K, the documented value (used only to build cases / bracket roots)
BAR = 1.0e5
T_RANGE = (50.0, 3000.0)
P_RANGE = (1.0e-3, 1.0e3)   # bar
N_RANGE = (1.0e-3, 1.0e3)
A_RANGE = (0.003, 3.0)
B_RANGE = (1.0e-5, 2.0e-4)
TC_RANGE = (5.0, 1000.0)
PC_RANGE = (1.0, 300.0)
SIGN_FLOOR = 1.0e-10        # a sign of the cubic counts only if |p| > SIGN_FLOOR * sum|terms|


def logu(rnd, lo, hi):
    return math.exp(rnd.uniform(math.log(lo), math.log(hi)))


def inside(x, rng):
    return rng[0] <= x <= rng[1]


# --------------------------------------------------------------------------
# independent root bracketing (no numpy.roots): all real roots lie in (b, b + RT/P)
# --------------------------------------------------------------------------
def _cubic(a, b, T, P_si):
    c2 = P_si * b + R_SI * T

    def p(v):
        t3, t2, t1, t0 = P_si * v * v * v, c2 * v * v, a * v, a * b
        return (t3 - t2) + (t1 - t0), abs(t3) + abs(t2) + abs(t1) + abs(t0)
    return p, c2


def bracket_roots(a, b, T, P_bar):
    """All positive real roots of P v^3 - (P b + R T) v^2 + a v - a b whose bracketing
    sign change is robust (both ends exceed SIGN_FLOOR of the term scale)."""
    P_si = P_bar * BAR
    p, c2 = _cubic(a, b, T, P_si)
    top = b + R_SI * T / P_si
    pts = []
    u, umax = b * 1.0e-7, (top - b) * (1.0 + 1.0e-6)
    step = 10.0 ** (1.0 / 60.0)
    while u < umax:
        pts.append(b + u)
        u *= step
    pts.append(b + umax)
    disc = c2 * c2 - 3.0 * P_si * a
    if disc > 0.0:                              # stationary points separate consecutive roots
        s = math.sqrt(disc)
        for e in ((c2 - s) / (3.0 * P_si), (c2 + s) / (3.0 * P_si)):
            if b < e < top * 1.000001:
                pts.append(e)
    pts = sorted(set(pts))
    definite = []
    for v in pts:
        val, scale = p(v)
        if abs(val) > SIGN_FLOOR * scale:
            definite.append((v, val > 0.0))
    roots = []
    for (lo, slo), (hi, shi) in zip(definite, definite[1:]):
        if slo == shi:
            continue
        for _ in range(200):
            mid = 0.5 * (lo + hi)
            if mid <= lo or mid >= hi:
                break
            if (p(mid)[0] > 0.0) == slo:
                lo = mid
            else:
                hi = mid
        roots.append(0.5 * (lo + hi))
    return roots


def spinodal_pressures(a, b, T):
    """(P_low, P_high) in Pa between which the isotherm has three real roots (T < Tc).
    Case construction only - nothing is judged with it."""
    RT = R_SI * T

    def f(v):                                   # dP/dv = 0  <=>  RT v^3 = 2 a (v - b)^2
        return RT * v ** 3 - 2.0 * a * (v - b) ** 2

    def bis(lo, hi):
        flo = f(lo) > 0
        for _ in range(200):
            mid = 0.5 * (lo + hi)
            if (f(mid) > 0) == flo:
                lo = mid
            else:
                hi = mid
        return 0.5 * (lo + hi)

    def pressure(v):
        return RT / (v - b) - a / (v * v)
    v1 = bis(b, 3.0 * b)
    hi = 3.0 * b
    while f(hi) < 0:
        hi *= 2.0
    v2 = bis(3.0 * b, hi)
    return pressure(v1), pressure(v2)


# --------------------------------------------------------------------------
# executing one case against the real library
# --------------------------------------------------------------------------
class _Raised(Exception):
    pass


def _call(name, fn):
    try:
        x = float(fn())
    except Exception as ex:                     # noqa - any exception of the library is an observation
        raise _Raised('%s: %s: %s' % (name, type(ex).__name__, ex))
    if not math.isfinite(x):
        raise _Raised('nonfinite:%s' % name)
    return x


def _vdw_object(case):
    from pmutt.eos import vanDerWaalsEOS
    if case.get('from_critical'):
        Tc, Pc = case['from_critical']
        obj = vanDerWaalsEOS.from_critical(Tc=Tc, Pc=Pc)
        return obj, float(obj.a), float(obj.b)
    return vanDerWaalsEOS(a=case['a'], b=case['b']), case['a'], case['b']


def exec_ideal(case):
    from pmutt.eos import IdealGasEOS
    eos = IdealGasEOS()
    T, P, n = case['T'], case['P'], case['n']
    V = _call('get_V', lambda: eos.get_V(T=T, P=P, n=n))
    ev = {'ev': 'ideal', 'T': to_dec(T), 'P': to_dec(P), 'n': to_dec(n), 'V': to_dec(V),
          'Pb': to_dec(_call('get_P', lambda: eos.get_P(T=T, V=V, n=n))),
          'Tb': to_dec(_call('get_T', lambda: eos.get_T(V=V, P=P, n=n))),
          'nb': to_dec(_call('get_n', lambda: eos.get_n(V=V, P=P, T=T))),
          'V1': to_dec(_call('get_V', lambda: eos.get_V(T=T, P=P, n=1.0)))}
    return [ev], {}


def exec_vdw(case):
    obj, a, b = _vdw_object(case)
    return _probe_vdw(obj, a, b, case)


def _probe_vdw(obj, a, b, case):
    """every getter of `obj` at one state, recorded against the parameters (a, b) the object holds NOW"""
    from pmutt.eos import IdealGasEOS
    T, P, n, gas = case['T'], case['P'], case['n'], bool(case['gas'])
    Vm = _call('get_Vm', lambda: obj.get_Vm(T=T, P=P, gas_phase=gas))
    V = _call('get_V', lambda: obj.get_V(T=T, P=P, n=n, gas_phase=gas))
    Pb = _call('get_P', lambda: obj.get_P(T=T, V=V, n=n))
    Tb = _call('get_T', lambda: obj.get_T(V=V, P=P, n=n))
    nb = _call('get_n', lambda: obj.get_n(V=V, P=P, T=T, gas_phase=gas))
    Vig = _call('ideal.get_V', lambda: IdealGasEOS().get_V(T=T, P=P, n=n))
    roots = bracket_roots(a, b, T, P)
    ev = {'ev': 'vdw', 'a': to_dec(a), 'b': to_dec(b), 'T': to_dec(T), 'P': to_dec(P), 'n': to_dec(n),
          'gas': gas, 'Vm': to_dec(Vm), 'V': to_dec(V), 'Vmw': to_dec(V / n), 'Pb': to_dec(Pb),
          'Tb': to_dec(Tb), 'nb': to_dec(nb), 'roots': [to_dec(r) for r in roots], 'Vig': to_dec(Vig)}
    RT = R_SI * T
    detail = {'nroots': len(roots), 'roots': roots, 'Vm': Vm, 'a': a, 'b': b,
              'lowdens': bool(gas and 8.0 * (b * RT + a) * P * BAR <= RT * RT)}
    if case.get('expect') is not None:          # (S->C) discrete projection: index of the selected root
        got = int(round(Vm / case['lam']))
        detail['selected'] = got
        if got != case['expect']:
            detail['mismatch'] = {'expected_root': case['expect'], 'selected_root': got,
                                  'Vm_over_lambda': Vm / case['lam']}
    return [ev], detail


def exec_edit(case):
    """Edit history on ONE live object: solve (T, P); assign a and/or b (public attributes; a parameter
    scan at fixed conditions); solve the SAME (T, P); another state; edit back; the first state again.
    Every step is judged by the ordinary clauses on the CURRENT parameters and compared with a fresh
    object built from them (EditedEqualsFresh)."""
    from pmutt.eos import vanDerWaalsEOS
    params = case['params']                      # [[a, b], ...]: parameters after construction / each edit
    st1 = {'T': case['T'], 'P': case['P'], 'n': case['n'], 'gas': case['gas']}
    st2 = {'T': case['T2'], 'P': case['P2'], 'n': case['n'], 'gas': not case['gas']}
    obj = vanDerWaalsEOS(a=params[0][0], b=params[0][1])
    events, nroots = [], []
    # (parameters index, state): same state re-solved right after each edit
    plan = [(0, st1), (1, st1), (1, st2), (2, st2), (2, st1), (0, st1)]
    cur = 0
    for idx, st in plan:
        if idx != cur:
            a, b = params[idx]
            how = case['how'][idx]
            if how in ('a', 'ab'):
                obj.a = a
            if how in ('b', 'ab'):
                obj.b = b
            cur = idx
        a, b = float(obj.a), float(obj.b)
        evs, det = _probe_vdw(obj, a, b, st)
        fresh, _ = _probe_vdw(vanDerWaalsEOS(a=a, b=b), a, b, st)
        events += evs
        nroots.append(det['nroots'])
        events.append({'ev': 'edit', 'step': len(events),
                       'pairs': [[to_dec2(_val(evs[0][k])), to_dec2(_val(fresh[0][k]))]
                                 for k in ('Vm', 'V', 'Pb', 'Tb', 'nb')]})
    return events, {'nroots': nroots, 'a': float(obj.a), 'b': float(obj.b)}


def _val(d):
    return d[0] * 10.0 ** d[1]


def exec_crit(case):
    obj, a, b = _vdw_object(case)
    n = case['n']
    events = []
    Pc = _call('get_Pc', obj.get_Pc)
    Tc = _call('get_Tc', obj.get_Tc)
    Vc = _call('get_Vc', lambda: obj.get_Vc(n=n))
    if case.get('from_critical'):
        Tc0, Pc0 = case['from_critical']
        events.append({'ev': 'fromcrit', 'Tc': to_dec(Tc0), 'Pc': to_dec(Pc0), 'a': to_dec(a), 'b': to_dec(b),
                       'Tcb': to_dec(Tc), 'Pcb': to_dec(Pc)})
    events.append({'ev': 'crit', 'a': to_dec(a), 'b': to_dec(b), 'n': to_dec(n), 'Pc': to_dec(Pc),
                   'Tc': to_dec(Tc), 'Vc': to_dec(Vc), 'state': False, 'VmG': [0, 0], 'VmL': [0, 0]})
    if inside(Tc, T_RANGE) and inside(Pc, P_RANGE):     # the critical point as a state of the quantifier
        events[-1]['state'] = True
        events[-1]['VmG'] = to_dec(_call('get_Vm', lambda: obj.get_Vm(T=Tc, P=Pc, gas_phase=True)))
        events[-1]['VmL'] = to_dec(_call('get_Vm', lambda: obj.get_Vm(T=Tc, P=Pc, gas_phase=False)))
    return events, {'a': a, 'b': b, 'Tc': Tc, 'Pc': Pc, 'state': events[-1]['state']}


def exec_array(case):
    """Array-valued states: float ndarrays passed where the unmodified library evaluates
    element-wise, the SAME array objects reused from call to call."""
    import numpy as np
    from pmutt.eos import IdealGasEOS
    vdw = case['eos'] == 'vdw'
    if vdw:
        obj, a, b = _vdw_object(case)
    else:
        obj = IdealGasEOS()
    T0, P0, n0 = list(case['T']), list(case['P']), list(case['n'])
    k = len(T0)
    if vdw:      # a volume on the gas branch for every element (scalar calls)
        V0 = [_call('get_V', lambda i=i: obj.get_V(T=T0[i], P=P0[i], n=n0[i], gas_phase=True)) for i in range(k)]
    else:
        V0 = [_call('get_V', lambda i=i: obj.get_V(T=T0[i], P=P0[i], n=n0[i])) for i in range(k)]
    T, V, n = np.array(T0), np.array(V0), np.array(n0)
    touched, pairs = [], []
    shapes = [True]

    def arr_call(name, fn, args):
        before = {kk: vv.copy() for kk, vv in args.items()}
        try:
            out = fn(**args)
        except Exception as ex:                  # noqa
            raise _Raised('%s(array): %s: %s' % (name, type(ex).__name__, ex))
        for kk, vv in args.items():
            if vv.shape != before[kk].shape or vv.tobytes() != before[kk].tobytes():
                touched.append('%s:%s' % (name, kk))
        out = np.asarray(out, dtype=float)
        if out.shape != (k,):
            shapes[0] = False
            return np.full(k, 1.0)
        if not np.all(np.isfinite(out)):
            raise _Raised('nonfinite:%s(array)' % name)
        return out

    def compare(arr, name, scalar_fn):
        for i in range(k):
            pairs.append([to_dec2(arr[i]), to_dec2(_call(name, lambda: scalar_fn(i)))])

    # T -> P -> T on the arrays the caller holds
    Pb = arr_call('get_P', obj.get_P, {'T': T, 'V': V, 'n': n})
    compare(Pb, 'get_P', lambda i: obj.get_P(T=T0[i], V=V0[i], n=n0[i]))
    Pb_held = [float(x) for x in Pb]
    Tb = arr_call('get_T', obj.get_T, {'V': V, 'P': Pb, 'n': n})
    compare(Tb, 'get_T', lambda i: obj.get_T(V=V0[i], P=Pb_held[i], n=n0[i]))
    # V -> P -> V: volume solved again from the returned pressure and the held T, n
    if vdw:
        Vb = [_call('get_V', lambda i=i: obj.get_V(T=float(T[i]), P=float(Pb[i]), n=float(n[i]), gas_phase=True))
              for i in range(k)]
        # get_V(n=array) and get_n(V=array) at a (where possible sub-critical, three-root) state, either phase
        Ts, Ps = case.get('sub', [T0[0], P0[0]])
        g = bool(case.get('gas', True))
        Vn = arr_call('get_V', lambda n: obj.get_V(T=Ts, P=Ps, n=n, gas_phase=g), {'n': n})
        compare(Vn, 'get_V', lambda i: obj.get_V(T=Ts, P=Ps, n=n0[i], gas_phase=g))
        nV = arr_call('get_n', lambda V: obj.get_n(V=V, P=Ps, T=Ts, gas_phase=g), {'V': V})
        compare(nV, 'get_n', lambda i: obj.get_n(V=V0[i], P=Ps, T=Ts, gas_phase=g))
        Vc = arr_call('get_Vc', obj.get_Vc, {'n': n})
        compare(Vc, 'get_Vc', lambda i: obj.get_Vc(n=n0[i]))
    else:
        Vb = arr_call('get_V', obj.get_V, {'T': T, 'P': Pb, 'n': n})
        compare(Vb, 'get_V', lambda i: obj.get_V(T=T0[i], P=Pb_held[i], n=n0[i]))
        nb = arr_call('get_n', obj.get_n, {'V': V, 'P': Pb, 'T': T})
        compare(nb, 'get_n', lambda i: obj.get_n(V=V0[i], P=Pb_held[i], T=T0[i]))
    # what the caller's arrays hold now vs the state before any call
    held_ok = all(float(x) == y for x, y in zip(T, T0)) and all(float(x) == y for x, y in zip(V, V0)) \
        and all(float(x) == y for x, y in zip(n, n0))
    if not held_ok and not touched:
        touched.append('state:changed')
    ev = {'ev': 'arr', 'eos': case['eos'], 'T0': [to_dec(x) for x in T0], 'V0': [to_dec(x) for x in V0],
          'Tb': [to_dec(x) for x in Tb], 'Vb': [to_dec(float(x)) for x in Vb], 'pairs': pairs,
          'touched': touched, 'shapes': shapes[0]}
    return [ev], {'touched': touched, 'V0': V0, 'V_held': [float(x) for x in V], 'T_back': [float(x) for x in Tb]}


def exec_forms(case):
    """Argument forms (int / numpy scalars, positional, omitted defaults), constructor forms
    (from_dict(to_dict()), JSON encoder, positional) and repeated use of one object."""
    import json
    import numpy as np
    from pmutt import constants as c
    from pmutt.eos import IdealGasEOS, vanDerWaalsEOS
    from pmutt.io.json import pmuttEncoder, json_to_pmutt
    vdw = case['eos'] == 'vdw'
    A, B = case['A'], case['B']
    T0, P0, V0 = c.T0('K'), c.P0('bar'), c.V0('m3')

    def build():
        return _vdw_object(case)[0] if vdw else IdealGasEOS()

    def calls(o, T, P, n, V=None, order=(True, False)):
        """every getter at one state, phases called in `order`, results always listed gas first;
        V (for get_P/get_T/get_n) is the gas-root volume unless given"""
        out = []
        if vdw:
            per = {}
            for g in order:
                vm = _call('get_Vm', lambda: o.get_Vm(T=T, P=P, gas_phase=g))
                Vg = _call('get_V', lambda: o.get_V(T=T, P=P, n=n, gas_phase=g))
                per[g] = [vm, Vg, _call('get_n', lambda: o.get_n(V=Vg if V is None else V, P=P, T=T, gas_phase=g))]
            out = per[True] + per[False]
            Vu = out[1] if V is None else V
            out.append(_call('get_Vc', lambda: o.get_Vc(n=n)))
        else:
            Vu = _call('get_V', lambda: o.get_V(T=T, P=P, n=n)) if V is None else V
            out.append(_call('get_V', lambda: o.get_V(T=T, P=P, n=n)))
            out.append(_call('get_n', lambda: o.get_n(V=Vu, P=P, T=T)))
        out.append(_call('get_P', lambda: o.get_P(T=T, V=Vu, n=n)))
        out.append(_call('get_T', lambda: o.get_T(V=Vu, P=P, n=n)))
        return out

    def pairs(xs, ys):
        return [[to_dec2(x), to_dec2(y)] for x, y in zip(xs, ys)]

    obj = build()
    a0, b0 = (float(obj.a), float(obj.b)) if vdw else (0.0, 0.0)
    TA, PA, nA = float(A['T']), float(A['P']), float(A['n'])
    refA = calls(obj, TA, PA, nA)
    VA = refA[1] if vdw else refA[0]
    # ---- argument types (A is integral-valued, so int(x) is the same number)
    types = []
    for conv in (int, np.float64, np.int64):
        types += pairs(calls(obj, conv(TA), conv(PA), conv(nA), V=(np.float64(VA) if conv is np.float64 else VA)),
                       calls(obj, TA, PA, nA, V=VA))
    if vdw and case.get('from_critical'):
        Tc, Pc = case['from_critical']
        if float(Tc).is_integer() and float(Pc).is_integer():
            for conv in (int, np.int64, np.float64):
                o2 = vanDerWaalsEOS.from_critical(Tc=conv(Tc), Pc=conv(Pc))
                types += pairs([float(o2.a), float(o2.b)], [a0, b0])
    elif vdw and float(case['a']).is_integer():
        o2 = vanDerWaalsEOS(a=int(case['a']), b=case['b'])
        types += pairs(calls(o2, TA, PA, nA), refA)
    # ---- positional calls
    if vdw:
        pos = []
        for g in (True, False):
            pos += [_call('get_Vm', lambda: obj.get_Vm(TA, PA, g)), _call('get_V', lambda: obj.get_V(TA, PA, nA, g)),
                    _call('get_n', lambda: obj.get_n(refA[1 if g else 4], PA, TA, g))]
        pos += [_call('get_Vc', lambda: obj.get_Vc(nA)), _call('get_P', lambda: obj.get_P(TA, VA, nA)),
                _call('get_T', lambda: obj.get_T(VA, PA, nA))]
    else:
        pos = [_call('get_V', lambda: obj.get_V(TA, PA, nA)), _call('get_n', lambda: obj.get_n(VA, PA, TA)),
               _call('get_P', lambda: obj.get_P(TA, VA, nA)), _call('get_T', lambda: obj.get_T(VA, PA, nA))]
    posn = pairs(pos, refA)
    # ---- omitted arguments = documented defaults
    d = []

    def dflt(name, omitted, explicit):
        d.append([to_dec2(_call(name, omitted)), to_dec2(_call(name, explicit))])
    if vdw:
        dflt('get_Vm', lambda: obj.get_Vm(P=PA), lambda: obj.get_Vm(T=T0, P=PA, gas_phase=True))
        dflt('get_Vm', lambda: obj.get_Vm(T=TA), lambda: obj.get_Vm(T=TA, P=P0, gas_phase=True))
        dflt('get_Vm', lambda: obj.get_Vm(T=TA, P=PA), lambda: obj.get_Vm(T=TA, P=PA, gas_phase=True))
        dflt('get_V', lambda: obj.get_V(T=TA, P=PA, n=nA), lambda: obj.get_V(T=TA, P=PA, n=nA, gas_phase=True))
        dflt('get_n', lambda: obj.get_n(V=VA, P=PA, T=TA), lambda: obj.get_n(V=VA, P=PA, T=TA, gas_phase=True))
        dflt('get_Vc', lambda: obj.get_Vc(), lambda: obj.get_Vc(n=1.0))
        kw = {'gas_phase': False}
    else:
        kw = {}
    dflt('get_V', lambda: obj.get_V(T=TA, P=PA, **kw), lambda: obj.get_V(T=TA, P=PA, n=1.0, **kw))
    dflt('get_V', lambda: obj.get_V(P=PA, n=nA, **kw), lambda: obj.get_V(T=T0, P=PA, n=nA, **kw))
    dflt('get_V', lambda: obj.get_V(T=TA, n=nA, **kw), lambda: obj.get_V(T=TA, P=P0, n=nA, **kw))
    dflt('get_P', lambda: obj.get_P(T=TA, n=nA * 1e-3), lambda: obj.get_P(T=TA, V=V0, n=nA * 1e-3))
    dflt('get_P', lambda: obj.get_P(V=VA, n=nA), lambda: obj.get_P(T=T0, V=VA, n=nA))
    dflt('get_P', lambda: obj.get_P(T=TA, V=VA), lambda: obj.get_P(T=TA, V=VA, n=1.0))
    dflt('get_T', lambda: obj.get_T(P=PA, n=nA * 1e-3), lambda: obj.get_T(V=V0, P=PA, n=nA * 1e-3))
    dflt('get_T', lambda: obj.get_T(V=VA, n=nA), lambda: obj.get_T(V=VA, P=P0, n=nA))
    dflt('get_T', lambda: obj.get_T(V=VA, P=PA), lambda: obj.get_T(V=VA, P=PA, n=1.0))
    dflt('get_n', lambda: obj.get_n(P=PA, T=TA, **kw), lambda: obj.get_n(V=V0, P=PA, T=TA, **kw))
    dflt('get_n', lambda: obj.get_n(V=VA, T=TA, **kw), lambda: obj.get_n(V=VA, P=P0, T=TA, **kw))
    dflt('get_n', lambda: obj.get_n(V=VA, P=PA, **kw), lambda: obj.get_n(V=VA, P=PA, T=T0, **kw))
    std = []
    if not vdw:
        std = [to_dec(_call('get_V', obj.get_V)), to_dec(_call('get_P', obj.get_P)),
               to_dec(_call('get_T', obj.get_T)), to_dec(_call('get_n', obj.get_n))]
    # ---- rebuilt objects
    ctor = []
    cls = vanDerWaalsEOS if vdw else IdealGasEOS
    try:
        rebuilt = [cls.from_dict(obj.to_dict()),
                   json.loads(json.dumps(obj, cls=pmuttEncoder), object_hook=json_to_pmutt)]
        if vdw:
            rebuilt.append(vanDerWaalsEOS(a0, b0))
    except Exception as ex:                      # noqa
        raise _Raised('rebuild: %s: %s' % (type(ex).__name__, ex))
    for o2 in rebuilt:
        if not isinstance(o2, cls):
            raise _Raised('rebuild: %s is not a %s' % (type(o2).__name__, cls.__name__))
        ctor += pairs(calls(o2, TA, PA, nA), refA)
    # ---- repeated use: B on the used object vs on a fresh one, then A again
    TB, PB, nB = B['T'], B['P'], B['n']
    # (fresh objects are called liquid first, so an answer cannot depend on what was asked before)
    again = pairs(calls(obj, TB, PB, nB), calls(build(), TB, PB, nB, order=(False, True))) \
        + pairs(calls(obj, TA, PA, nA), refA) + pairs(calls(build(), TA, PA, nA, order=(False, True)), refA)
    untouched = (not vdw) or (float(obj.a) == a0 and float(obj.b) == b0)
    ev = {'ev': 'forms', 'eos': case['eos'], 'types': types, 'posn': posn, 'dflt': d, 'ctor': ctor,
          'again': again, 'untouched': bool(untouched), 'std': std}
    nroots = len(bracket_roots(a0, b0, TA, PA)) if vdw else 0
    return [ev], {'nroots': nroots, 'pairs': len(types) + len(posn) + len(d) + len(ctor) + len(again)}


def execute(case):
    try:
        if case['kind'] == 'ideal':
            return exec_ideal(case)
        if case['kind'] == 'vdw':
            return exec_vdw(case)
        if case['kind'] == 'array':
            return exec_array(case)
        if case['kind'] == 'forms':
            return exec_forms(case)
        if case['kind'] == 'edit':
            return exec_edit(case)
        return exec_crit(case)
    except _Raised as ex:
        msg = str(ex)
        if msg.startswith('nonfinite:'):
            return [{'ev': 'nonfinite', 'call': msg[10:]}], {'nonfinite': msg[10:]}
        if case['kind'] == 'array':
            # every parameter is documented as float: a library that refuses arrays keeps the property
            return [{'ev': 'arr_refused', 'call': msg.split(':')[0]}], {'array_refused': msg}
        return [{'ev': 'raise', 'call': msg.split(':')[0]}], {'raised': msg}


# --------------------------------------------------------------------------
# case generation
# --------------------------------------------------------------------------
def _state(rnd):
    return logu(rnd, *T_RANGE), logu(rnd, *P_RANGE), logu(rnd, *N_RANGE)


def gen_random(rnd, count):
    out = []
    for _ in range(count):
        T, P, n = _state(rnd)
        a, b = logu(rnd, *A_RANGE), logu(rnd, *B_RANGE)
        for gas in (True, False):
            out.append({'kind': 'vdw', 'src': 'random', 'a': a, 'b': b, 'T': T, 'P': P, 'n': n, 'gas': gas})
    return out


def gen_threeroot(rnd, count):
    """sub-critical isotherms with P between the spinodal pressures: gas and liquid roots differ"""
    out = []
    tries = 0
    while len(out) < 2 * count and tries < 200 * count:
        tries += 1
        a, b = logu(rnd, *A_RANGE), logu(rnd, *B_RANGE)
        Tc = 8.0 * a / (27.0 * b * R_SI)
        T = Tc * rnd.choice([rnd.uniform(0.35, 0.95), rnd.uniform(0.95, 0.999), rnd.uniform(0.3, 0.6), 0.99,
                              logu(rnd, 0.01, 0.3)])
        if not inside(T, T_RANGE):
            continue
        plo, phi = spinodal_pressures(a, b, T)
        plo = max(plo, P_RANGE[0] * BAR)
        phi = min(phi, P_RANGE[1] * BAR)
        if not plo < phi:
            continue
        f = rnd.choice([rnd.uniform(0.02, 0.98), 1.0e-3, 0.999, rnd.uniform(0.0, 1.0) ** 3])
        P = (plo + f * (phi - plo)) / BAR
        if not inside(P, P_RANGE):
            continue
        n = logu(rnd, *N_RANGE)
        for gas in (True, False):
            out.append({'kind': 'vdw', 'src': 'threeroot', 'a': a, 'b': b, 'T': T, 'P': P, 'n': n, 'gas': gas})
    return out


def gen_nearcrit(rnd, count):
    offs = [1.0e-2, -1.0e-2, 1.0e-3, -1.0e-3, 1.0e-4, -1.0e-4, 1.0e-6, -1.0e-6, 0.0]
    out = []
    tries = 0
    while len(out) < 2 * count and tries < 200 * count:
        tries += 1
        a, b = logu(rnd, *A_RANGE), logu(rnd, *B_RANGE)
        Tc = 8.0 * a / (27.0 * b * R_SI)
        Pc = a / (27.0 * b * b) / BAR
        tau, pi = rnd.choice(offs), rnd.choice(offs)
        if tau == 0.0 and pi == 0.0:
            continue                           # the critical point itself is the 'crit' event
        T, P = Tc * (1.0 + tau), Pc * (1.0 + pi)
        if not (inside(T, T_RANGE) and inside(P, P_RANGE)):
            continue
        n = logu(rnd, *N_RANGE)
        for gas in (True, False):
            out.append({'kind': 'vdw', 'src': 'nearcrit', 'a': a, 'b': b, 'T': T, 'P': P, 'n': n, 'gas': gas})
    return out


def gen_fromcrit_states(rnd, count):
    """states of objects built by from_critical, at reduced conditions around the critical point;
    first the 16 objects at the ends (and adjacent doubles) of the (Tc, Pc) ranges"""
    out = []
    for Tc in _edge_values(TC_RANGE):
        for Pc in _edge_values(PC_RANGE):
            T = min(max(Tc * rnd.choice([0.8, 1.3]), T_RANGE[0]), T_RANGE[1])
            P = min(max(Pc * rnd.choice([0.3, 2.0]), P_RANGE[0]), P_RANGE[1])
            for gas in (True, False):
                out.append({'kind': 'vdw', 'src': 'fromcrit', 'from_critical': [Tc, Pc], 'T': T, 'P': P,
                            'n': logu(rnd, *N_RANGE), 'gas': gas})
    tries = 0
    while len(out) < 2 * count + 32 and tries < 200 * count:
        tries += 1
        Tc, Pc = logu(rnd, *TC_RANGE), logu(rnd, *PC_RANGE)
        T, P = Tc * logu(rnd, 0.4, 4.0), Pc * logu(rnd, 0.02, 5.0)
        if not (inside(T, T_RANGE) and inside(P, P_RANGE)):
            continue
        n = logu(rnd, *N_RANGE)
        for gas in (True, False):
            out.append({'kind': 'vdw', 'src': 'fromcrit', 'from_critical': [Tc, Pc], 'T': T, 'P': P, 'n': n,
                        'gas': gas})
    return out


def gen_tlc(rnd, tlc_cases, per_case):
    """(S->C) scale each TLC cubic (roots in units of lambda) into the quantifier's domain:
    a = P lambda^2 s2, b = lambda s3/s2, R T = P lambda (s1 - s3/s2)."""
    out = []
    skipped = 0
    for c in tlc_cases:
        made = 0
        tries = 0
        while made < per_case and tries < 400:
            tries += 1
            b = logu(rnd, *B_RANGE)
            lam = b * c['s2'] / c['s3']
            T = logu(rnd, *T_RANGE)
            P_si = R_SI * T / (lam * (c['s1'] - c['s3'] / c['s2']))
            a = P_si * lam * lam * c['s2']
            if not (inside(P_si / BAR, P_RANGE) and inside(a, A_RANGE)):
                continue
            made += 1
            n = logu(rnd, *N_RANGE)
            for gas in (True, False):
                out.append({'kind': 'vdw', 'src': 'tlc', 'a': a, 'b': b, 'T': T, 'P': P_si / BAR, 'n': n,
                            'gas': gas, 'lam': lam, 'expect': c['gas'] if gas else c['liquid'],
                            'cubic': {'re': c['re'], 'im': c['im']}, 'nreal': c['nreal']})
        if made == 0:
            skipped += 1
    return out, skipped


def gen_ideal(rnd, count):
    out = [{'kind': 'ideal', 'T': 298.15, 'P': 1.0, 'n': 1.0}]
    for _ in range(count):
        T, P, n = _state(rnd)
        out.append({'kind': 'ideal', 'T': T, 'P': P, 'n': n})
    for T in _edge_values(T_RANGE):
        for P in _edge_values(P_RANGE):
            for n in _edge_values(N_RANGE):
                out.append({'kind': 'ideal', 'src': 'ideal_corner', 'T': T, 'P': P, 'n': n})
    return out


def gen_crit(rnd, count):
    out = []
    for _ in range(count):
        out.append({'kind': 'crit', 'a': logu(rnd, *A_RANGE), 'b': logu(rnd, *B_RANGE), 'n': logu(rnd, *N_RANGE)})
        out.append({'kind': 'crit', 'from_critical': [logu(rnd, *TC_RANGE), logu(rnd, *PC_RANGE)],
                    'n': logu(rnd, *N_RANGE)})
    amounts = [1.0e-3, 1.0e3, 1.0, 2.5]
    i = 0
    for Tc in _edge_values(TC_RANGE):
        for Pc in _edge_values(PC_RANGE):
            out.append({'kind': 'crit', 'src': 'crit_corner', 'from_critical': [Tc, Pc], 'n': amounts[i % 4]})
            i += 1
    for a in _edge_values(A_RANGE):
        for b in _edge_values(B_RANGE):
            out.append({'kind': 'crit', 'src': 'crit_corner', 'a': a, 'b': b, 'n': amounts[i % 4]})
            i += 1
    return out


def gen_array(rnd, count):
    """arrays of 2-4 states; vdW states on isotherms with one real root or the gas branch at
    moderate density (the V -> P -> V step is then well conditioned); n != 1 throughout"""
    out = []
    while len(out) < 2 * count:
        k = rnd.choice([2, 3, 4])
        a, b = logu(rnd, *A_RANGE), logu(rnd, *B_RANGE)
        Tc = 8.0 * a / (27.0 * b * R_SI)
        Ts, Ps, ns = [], [], []
        tries = 0
        while len(Ts) < k and tries < 1000:
            tries += 1
            T, P, n = _state(rnd)
            if T < 1.2 * Tc or abs(n - 1.0) < 1e-3:     # super-critical: one real root, smooth in P
                continue
            Ts.append(T), Ps.append(P), ns.append(n)
        if len(Ts) < k:
            continue
        case = {'kind': 'array', 'eos': 'vdw', 'src': 'array', 'a': a, 'b': b, 'T': Ts, 'P': Ps, 'n': ns,
                'gas': len(out) % 4 == 0}
        Tsub = 0.7 * Tc
        if inside(Tsub, T_RANGE):
            plo, phi = spinodal_pressures(a, b, Tsub)
            plo, phi = max(plo, P_RANGE[0] * BAR), min(phi, P_RANGE[1] * BAR)
            if plo < phi:
                case['sub'] = [Tsub, 0.5 * (plo + phi) / BAR]
        out.append(case)
        out.append({'kind': 'array', 'eos': 'ideal', 'src': 'array', 'T': Ts, 'P': Ps, 'n': ns})
    return out


def _edge_values(rng):
    """both ends of a range and the doubles adjacent to them (inside the range)"""
    lo, hi = rng
    return [lo, math.nextafter(lo, math.inf), math.nextafter(hi, -math.inf), hi]


def gen_corners(rnd, sample):
    """every combination of range ends for (T, P, n, a, b) in every run; combinations that
    involve the adjacent doubles: `sample` of the 4^5 by seed (all of them when sample is None)"""
    import itertools
    out = []
    ends = list(itertools.product(T_RANGE, P_RANGE, N_RANGE, A_RANGE, B_RANGE))
    allc = [c for c in itertools.product(*[_edge_values(r) for r in (T_RANGE, P_RANGE, N_RANGE, A_RANGE, B_RANGE)])
            if c not in set(ends)]
    if sample is not None:
        allc = rnd.sample(allc, sample)
    for src, combos in (('corner', ends), ('adjacent', allc)):
        for T, P, n, a, b in combos:
            for gas in (True, False):
                out.append({'kind': 'vdw', 'src': src, 'a': a, 'b': b, 'T': T, 'P': P, 'n': n, 'gas': gas})
    return out


def gen_spinodal(rnd, count):
    """states on (and within 1e-12 .. 1e-6 of) the spinodal pressures, where two roots merge"""
    offs = [0.0, 1e-12, -1e-12, 1e-9, -1e-9, 1e-6, -1e-6]
    out = []
    tries = 0
    while len(out) < 2 * count and tries < 200 * count:
        tries += 1
        a, b = logu(rnd, *A_RANGE), logu(rnd, *B_RANGE)
        Tc = 8.0 * a / (27.0 * b * R_SI)
        T = Tc * rnd.choice([0.99, 0.9, rnd.uniform(0.3, 0.99), rnd.uniform(0.85, 0.999)])
        if not inside(T, T_RANGE):
            continue
        P = rnd.choice(spinodal_pressures(a, b, T)) * (1.0 + rnd.choice(offs)) / BAR
        if not inside(P, P_RANGE):
            continue
        n = logu(rnd, *N_RANGE)
        for gas in (True, False):
            out.append({'kind': 'vdw', 'src': 'spinodal', 'a': a, 'b': b, 'T': T, 'P': P, 'n': n, 'gas': gas})
    return out


def gen_dilute_subcritical(rnd, count):
    """dilute (a P/(RT)^2 < 1e-3, b P/(RT) < 1e-3) states below Tc: three roots, the liquid one far away"""
    out = []
    tries = 0
    while len(out) < 2 * count and tries < 400 * count:
        tries += 1
        a, b = logu(rnd, *A_RANGE), logu(rnd, *B_RANGE)
        Tc = 8.0 * a / (27.0 * b * R_SI)
        T = Tc * rnd.uniform(0.3, 0.84)
        P = logu(rnd, P_RANGE[0], 0.3)
        RT = R_SI * T
        if not inside(T, T_RANGE) or a * P * BAR / RT ** 2 >= 1e-3 or b * P * BAR / RT >= 1e-3:
            continue
        n = logu(rnd, *N_RANGE)
        for gas in (True, False):
            out.append({'kind': 'vdw', 'src': 'dilute', 'a': a, 'b': b, 'T': T, 'P': P, 'n': n, 'gas': gas})
    return out


def gen_dense_supercritical(rnd, count):
    """dense fluid just above Tc (T/Tc 1-1.25, P/Pc 1.05-10): the real root is not the one of largest modulus"""
    out = []
    tries = 0
    while len(out) < 2 * count and tries < 400 * count:
        tries += 1
        a, b = logu(rnd, *A_RANGE), logu(rnd, *B_RANGE)
        T = 8.0 * a / (27.0 * b * R_SI) * rnd.choice([1.0, 1.0 + 1e-9, rnd.uniform(1.0, 1.25)])
        P = a / (27.0 * b * b) / BAR * logu(rnd, 1.05, 10.0)
        if not (inside(T, T_RANGE) and inside(P, P_RANGE)):
            continue
        n = logu(rnd, *N_RANGE)
        for gas in (True, False):
            out.append({'kind': 'vdw', 'src': 'dense', 'a': a, 'b': b, 'T': T, 'P': P, 'n': n, 'gas': gas})
    return out


def gen_forms(rnd, count):
    """integral-valued state A (so int / numpy.int64 arguments denote the same numbers), free state B"""
    out = []
    for i in range(count):
        A = {'T': float(rnd.randint(50, 3000)), 'P': float(rnd.randint(1, 1000)), 'n': float(rnd.randint(2, 1000))}
        T, P, n = _state(rnd)
        B = {'T': T, 'P': P, 'n': n}
        case = {'kind': 'forms', 'src': 'forms', 'eos': 'vdw', 'A': A, 'B': B}
        m = i % 4
        if m == 0:                                # integer a (the upper end of its range), sub-critical A
            case.update(a=3.0, b=logu(rnd, *B_RANGE))
        elif m == 1:                              # from_critical with integral Tc, Pc; A below Tc where possible
            Tc, Pc = float(rnd.randint(5, 1000)), float(rnd.randint(1, 300))
            case['from_critical'] = [Tc, Pc]
            if Tc > 80:
                A['T'] = float(rnd.randint(50, int(Tc) - 1))
                A['P'] = float(rnd.randint(1, max(1, int(Pc * 0.3))))
        else:
            case.update(a=logu(rnd, *A_RANGE), b=logu(rnd, *B_RANGE))
        out.append(case)
        if i % 3 == 0:
            out.append({'kind': 'forms', 'src': 'forms', 'eos': 'ideal', 'A': dict(A), 'B': dict(B)})
    return out


def gen_edit(rnd, count):
    """parameter edits at fixed (T, P): a only, b only, both (the third set = what from_critical gives
    for a random (Tc, Pc)); sub- and super-critical first states"""
    out = []
    while len(out) < count:
        a0, b0 = logu(rnd, *A_RANGE), logu(rnd, *B_RANGE)
        how1 = rnd.choice(['a', 'b', 'ab'])
        a1 = logu(rnd, *A_RANGE) if 'a' in how1 else a0
        b1 = logu(rnd, *B_RANGE) if 'b' in how1 else b0
        Tc, Pc = logu(rnd, 60.0, 1000.0), logu(rnd, *PC_RANGE)
        a2 = 27.0 / 64.0 * (R_SI * Tc) ** 2 / (Pc * BAR)
        b2 = R_SI * Tc / 8.0 / (Pc * BAR)
        Tc0 = 8.0 * a0 / (27.0 * b0 * R_SI)
        T = Tc0 * rnd.choice([rnd.uniform(0.5, 0.95), rnd.uniform(1.05, 3.0)])
        if not inside(T, T_RANGE):
            continue
        P = logu(rnd, *P_RANGE)
        if T < Tc0:
            plo, phi = spinodal_pressures(a0, b0, T)
            plo, phi = max(plo, P_RANGE[0] * BAR), min(phi, P_RANGE[1] * BAR)
            if plo < phi:
                P = rnd.uniform(plo, phi) / BAR
        T2, P2, n = _state(rnd)
        out.append({'kind': 'edit', 'src': 'edit', 'params': [[a0, b0], [a1, b1], [a2, b2]],
                    'how': ['ab', how1, 'ab'], 'T': T, 'P': P, 'T2': T2, 'P2': P2, 'n': n,
                    'gas': len(out) % 2 == 0})
    return out


def _sig(x):
    return '%.3e' % x


def run(ctx):
    ctx.coverage['rule'] = (
        'states drawn log-uniformly from the quantifier (T 50-3000 K, P 1e-3-1e3 bar, n 1e-3-1e3 mol, '
        'a 0.003-3, b 1e-5-2e-4; Tc 5-1000 K, Pc 1-300 bar) plus constructed families: sub-critical isotherms '
        'with P between the spinodal pressures (three real roots), neighbourhoods of the critical point, '
        'objects from from_critical, and every TLC cubic with known roots scaled into the domain; each van der '
        'Waals state is probed for the gas and the liquid root.  Non-trivial: a van der Waals state where the '
        'harness bracketed three distinct real roots (the selection matters), or a gas state satisfying the '
        'low-density antecedent, or a TLC cubic, or any ideal / critical / array case (arrays of 2-4 super-critical '
        'states with n != 1, the same ndarray objects reused across calls); distinct by kind, source, phase '
        'and parameters rounded to 4 digits')
    rnd = random.Random(ctx.seed)
    if ctx.replay_case is not None:
        cases = [ctx.replay_case['case']]
    else:
        ctx.model('MC_EOS', 'MC_EOS')
        for cfg, why in (('MC_EOS_realpart', 'max/min over the real parts of all roots (isreal filter dropped)'),
                         ('MC_EOS_swapped', 'gas = smallest root, liquid = largest root')):
            bad = ctx.model('MC_EOS', cfg, workers=2, expect_ok=False)
            if bad.ok or bad.violated not in ('OnEquation', 'Selected'):
                raise core.MachineryError('selection variant %s should be rejected by the design model:\n%s'
                                          % (cfg, bad.out[-2000:]))
            ctx.notes.append('design model rejects "%s": %s violated' % (why, bad.violated))
        ctx.model('MC_EOS', 'MC_EOS_memo', workers=4)
        bad = ctx.model('MC_EOS', 'MC_EOS_memo_stale', workers=2, expect_ok=False)
        if bad.ok or bad.violated not in ('OnEquation', 'Selected'):
            raise core.MachineryError('a get_Vm memo keyed by (T, P) only should be rejected by the design model:\n%s'
                                      % bad.out[-2000:])
        ctx.notes.append('design model rejects "get_Vm memo keyed by (T, P) only, a/b assigned afterwards": %s violated'
                         % bad.violated)
        tlc_cases, r = core.tlc_cases('MC_EOS', 'MC_EOS_cases')
        if not tlc_cases:
            raise core.MachineryError('no cases emitted by MC_EOS')
        ctx.coverage['tlc_cubics'] = len(tlc_cases)
        tcases, skipped = gen_tlc(rnd, tlc_cases, ctx.pick(2, 20))
        ctx.coverage['tlc_cubics_not_scalable_into_domain'] = skipped
        cases = (tcases
                 + gen_ideal(rnd, ctx.pick(250, 5000))
                 + gen_corners(rnd, ctx.pick(120, None))
                 + gen_random(rnd, ctx.pick(550, 20000))
                 + gen_threeroot(rnd, ctx.pick(500, 15000))
                 + gen_spinodal(rnd, ctx.pick(60, 2000))
                 + gen_dilute_subcritical(rnd, ctx.pick(60, 2000))
                 + gen_dense_supercritical(rnd, ctx.pick(60, 2000))
                 + gen_forms(rnd, ctx.pick(90, 1500))
                 + gen_edit(rnd, ctx.pick(80, 1500))
                 + gen_nearcrit(rnd, ctx.pick(150, 3000))
                 + gen_fromcrit_states(rnd, ctx.pick(250, 6000))
                 + gen_crit(rnd, ctx.pick(150, 3000))
                 + gen_array(rnd, ctx.pick(150, 3000)))
    results = core.pmap(execute, cases)
    traces = []
    stats = {'vdw_three_roots': 0, 'vdw_one_root': 0, 'vdw_low_density': 0, 'critical_states': 0,
             'tlc_replayed': 0, 'array_cases': 0, 'array_refused': 0,
             'range_end_states': 0, 'adjacent_to_range_end_states': 0, 'spinodal_states': 0,
             'dilute_subcritical_liquid_three_roots': 0, 'dense_supercritical_states': 0,
             'forms_cases_vdw': 0, 'forms_cases_ideal': 0, 'forms_three_root_states': 0,
             'ideal_range_end_states': 0, 'critical_range_end_objects': 0, 'critical_amount_not_one': 0,
             'array_liquid_subcritical': 0, 'same_state_resolved_after_parameter_edit': 0,
             'edit_cases_three_roots_first_state': 0}
    for tid, (case, (events, detail)) in enumerate(zip(cases, results)):
        ctx.evaluated()
        tags = {'kind': case['kind'], 'src': case.get('src', case['kind']), 'gas': case.get('gas')}
        sig = [case['kind'], case.get('src'), case.get('gas')] + \
              [_sig(x) for k in ('a', 'b', 'T', 'P', 'n') if k in case
               for x in (case[k] if isinstance(case[k], list) else [case[k]])] + \
              [_sig(x) for x in case.get('from_critical', [])] + \
              [_sig(case[k][q]) for k in ('A', 'B') if k in case for q in ('T', 'P', 'n')] + [case.get('eos')] + \
              [_sig(x) for pr in case.get('params', []) for x in pr]
        if case['kind'] == 'vdw':
            nr = detail.get('nroots', 0)
            if nr == 3:
                stats['vdw_three_roots'] += 1
            elif nr == 1:
                stats['vdw_one_root'] += 1
            if detail.get('lowdens'):
                stats['vdw_low_density'] += 1
            if case.get('src') == 'tlc':
                stats['tlc_replayed'] += 1
            src = case.get('src')
            if src == 'corner':
                stats['range_end_states'] += 1
            elif src == 'adjacent':
                stats['adjacent_to_range_end_states'] += 1
            elif src == 'spinodal':
                stats['spinodal_states'] += 1
            elif src == 'dense':
                stats['dense_supercritical_states'] += 1
            elif src == 'dilute' and nr == 3 and not case['gas']:
                stats['dilute_subcritical_liquid_three_roots'] += 1
            if src in ('corner', 'adjacent', 'spinodal', 'dense', 'dilute'):
                ctx.nontrivial(sig)
            if nr == 3 or detail.get('lowdens') or case.get('src') == 'tlc':
                ctx.nontrivial(sig)
            if 'mismatch' in detail:
                ctx.violation('ReplayState', case, tags=tags, detail=detail)
        else:
            ctx.nontrivial(sig)
            if case['kind'] == 'array':
                stats['array_refused' if 'array_refused' in detail else 'array_cases'] += 1
                if case.get('sub') and not case.get('gas', True):
                    stats['array_liquid_subcritical'] += 1
            if case['kind'] == 'edit' and 'nroots' in detail:
                stats['same_state_resolved_after_parameter_edit'] += 2       # steps 2 and 6 of the plan
                if detail['nroots'][0] == 3:
                    stats['edit_cases_three_roots_first_state'] += 1
            if case['kind'] == 'forms':
                stats['forms_cases_' + case['eos']] += 1
                if detail.get('nroots') == 3:
                    stats['forms_three_root_states'] += 1
            if case.get('src') == 'ideal_corner':
                stats['ideal_range_end_states'] += 1
            if case.get('src') == 'crit_corner':
                stats['critical_range_end_objects'] += 1
            if case['kind'] == 'crit' and case['n'] != 1.0:
                stats['critical_amount_not_one'] += 1
            if detail.get('state'):
                stats['critical_states'] += 1
        traces.append((tid, events))
        if tid % max(1, len(cases) // 6) == 0:
            ctx.sample({'case': case, 'observed': {k: v for k, v in detail.items() if k != 'roots'}})
    fails, vstats = core.validate_traces('Trace_EOS', 'Trace', traces)
    ctx.count('traces_validated_against_impl', len(traces))
    ctx.coverage['trace_lines'] = vstats['lines']
    ctx.coverage.update(stats)
    for tid, idx, clause in fails:
        case = cases[tid]
        if clause == 'WITNESS':
            raise core.MachineryError('a harness witness (bracketed root or V/n) did not verify: case %r detail %r'
                                      % (case, results[tid][1]))
        tags = {'kind': case['kind'], 'src': case.get('src', case['kind']), 'gas': case.get('gas')}
        ctx.violation(clause, case, tags=tags, detail=results[tid][1])
    # vacuity: every input class must have been exercised (counters that need a successful call are
    # only meaningful when the library did not fail - then the run already reports violations)
    if ctx.replay_case is None and not ctx.violations and (stats['vdw_three_roots'] < 100 or stats['vdw_low_density'] < 100
                                    or stats['tlc_replayed'] < 50 or stats['critical_states'] < 20
                                    or stats['array_cases'] + stats['array_refused'] < 50
                                    or stats['range_end_states'] < 64 or stats['adjacent_to_range_end_states'] < 100
                                    or stats['spinodal_states'] < 40 or stats['dense_supercritical_states'] < 40
                                    or stats['dilute_subcritical_liquid_three_roots'] < 20
                                    or stats['forms_cases_vdw'] < 30 or stats['forms_cases_ideal'] < 10
                                    or stats['forms_three_root_states'] < 5
                                    or stats['ideal_range_end_states'] < 64
                                    or stats['critical_range_end_objects'] < 32
                                    or stats['critical_amount_not_one'] < 20
                                    or stats['array_liquid_subcritical'] < 5
                                    or stats['same_state_resolved_after_parameter_edit'] < 100
                                    or stats['edit_cases_three_roots_first_state'] < 5):
        raise core.MachineryError('vacuous run: %r' % (stats,))
    ctx.assume('R = 8.3144598 J/mol/K and 1 bar = 1e5 Pa are fixed in the specification (documented values)')
    ctx.assume('the real roots used by RootSelected are bracketed by the harness (sign changes of the cubic on a '
               'logarithmic grid plus its two stationary points, bisection) and each is verified by TLC through its '
               'residual; a sign counts only above 1e-10 of the term scale, so roots that merge within rounding '
               '(spinodal, critical point) are not used')
    ctx.assume('cubic residuals are compared with the largest of the four terms (1e-6): the pressure round trip on '
               'the liquid root at low pressure is ill conditioned and is only required in that sense')
    ctx.assume('array arguments: the docstrings list every parameter as float; float ndarrays are probed only for the '
               'getters that evaluate element-wise on the unmodified library (get_Vm / get_V with array T or P raise '
               'and are not probed); array = map of scalar is read as agreement to 1e-13 relative')
    ctx.assume('the Dec clauses do not see relative deviations below ~1e-6')


if __name__ == '__main__':
    core.main('C20', 'exploration', run)
