"""C20 - equations of state invert consistently (pmutt.eos).

(D)    spec/EOS.tla: exact rational model of the getters as actions on a state
       (P, RT, n, V, phase); cubics with known integer / Gaussian-integer roots;
       invariants OnEquation, Selected (largest / smallest real root), IdealLimit,
       action properties RoundTrip and LinearInN; critical constants as ASSUMEs.
       Two selection variants that must be rejected ("realpart", "swapped").
(S->C) TLC emits every modelled cubic with distinct real roots together with the
       root each phase must select; the driver scales it into the quantifier's
       domain, calls the real get_Vm and compares the index of the selected root.
(C->S) spec/Trace_EOS.tla judges recorded states: ideal-gas equation and round
       trips, van der Waals residual, root selection against ALL positive real
       roots bracketed here independently of numpy.roots, round trips, linearity
       in n, ideal limit, critical constants, from_critical; array-valued states
       (same ndarray objects reused): InputUntouched, round trips, array = map of scalar.
"""
import math
import random

from harness import core
from harness.core import to_dec, to_dec2

R_SI = 8.3144598            # J/mol/K, the documented value (used only to build cases / bracket roots)
BAR = 1.0e5
T_RANGE = (50.0, 3000.0)
P_RANGE = (1.0e-3, 1.0e3)   # bar
N_RANGE = (1.0e-3, 1.0e3)
A_RANGE = (0.003, 3.0)
B_RANGE = (1.0e-5, 2.0e-4)
TC_RANGE = (5.0, 1000.0)
PC_RANGE = (1.0, 300.0)
SIGN_FLOOR = 1.0e-10        # a sign of the cubic counts only if |p| > SIGN_FLOOR * sum|terms|


def logu(rnd, lo, hi):
    return math.exp(rnd.uniform(math.log(lo), math.log(hi)))


def inside(x, rng):
    return rng[0] <= x <= rng[1]


# --------------------------------------------------------------------------
# independent root bracketing (no numpy.roots): all real roots lie in (b, b + RT/P)
# --------------------------------------------------------------------------
def _cubic(a, b, T, P_si):
    c2 = P_si * b + R_SI * T

    def p(v):
        t3, t2, t1, t0 = P_si * v * v * v, c2 * v * v, a * v, a * b
        return (t3 - t2) + (t1 - t0), abs(t3) + abs(t2) + abs(t1) + abs(t0)
    return p, c2


def bracket_roots(a, b, T, P_bar):
    """All positive real roots of P v^3 - (P b + R T) v^2 + a v - a b whose bracketing
    sign change is robust (both ends exceed SIGN_FLOOR of the term scale)."""
    P_si = P_bar * BAR
    p, c2 = _cubic(a, b, T, P_si)
    top = b + R_SI * T / P_si
    pts = []
    u, umax = b * 1.0e-7, (top - b) * (1.0 + 1.0e-6)
    step = 10.0 ** (1.0 / 60.0)
    while u < umax:
        pts.append(b + u)
        u *= step
    pts.append(b + umax)
    disc = c2 * c2 - 3.0 * P_si * a
    if disc > 0.0:                              # stationary points separate consecutive roots
        s = math.sqrt(disc)
        for e in ((c2 - s) / (3.0 * P_si), (c2 + s) / (3.0 * P_si)):
            if b < e < top * 1.000001:
                pts.append(e)
    pts = sorted(set(pts))
    definite = []
    for v in pts:
        val, scale = p(v)
        if abs(val) > SIGN_FLOOR * scale:
            definite.append((v, val > 0.0))
    roots = []
    for (lo, slo), (hi, shi) in zip(definite, definite[1:]):
        if slo == shi:
            continue
        for _ in range(200):
            mid = 0.5 * (lo + hi)
            if mid <= lo or mid >= hi:
                break
            if (p(mid)[0] > 0.0) == slo:
                lo = mid
            else:
                hi = mid
        roots.append(0.5 * (lo + hi))
    return roots


def spinodal_pressures(a, b, T):
    """(P_low, P_high) in Pa between which the isotherm has three real roots (T < Tc).
    Case construction only - nothing is judged with it."""
    RT = R_SI * T

    def f(v):                                   # dP/dv = 0  <=>  RT v^3 = 2 a (v - b)^2
        return RT * v ** 3 - 2.0 * a * (v - b) ** 2

    def bis(lo, hi):
        flo = f(lo) > 0
        for _ in range(200):
            mid = 0.5 * (lo + hi)
            if (f(mid) > 0) == flo:
                lo = mid
            else:
                hi = mid
        return 0.5 * (lo + hi)

    def pressure(v):
        return RT / (v - b) - a / (v * v)
    v1 = bis(b, 3.0 * b)
    hi = 3.0 * b
    while f(hi) < 0:
        hi *= 2.0
    v2 = bis(3.0 * b, hi)
    return pressure(v1), pressure(v2)


# --------------------------------------------------------------------------
# executing one case against the real library
# --------------------------------------------------------------------------
class _Raised(Exception):
    pass


def _call(name, fn):
    try:
        x = float(fn())
    except Exception as ex:                     # noqa - any exception of the library is an observation
        raise _Raised('%s: %s: %s' % (name, type(ex).__name__, ex))
    if not math.isfinite(x):
        raise _Raised('nonfinite:%s' % name)
    return x


def _vdw_object(case):
    from pmutt.eos import vanDerWaalsEOS
    if case.get('from_critical'):
        Tc, Pc = case['from_critical']
        obj = vanDerWaalsEOS.from_critical(Tc=Tc, Pc=Pc)
        return obj, float(obj.a), float(obj.b)
    return vanDerWaalsEOS(a=case['a'], b=case['b']), case['a'], case['b']


def exec_ideal(case):
    from pmutt.eos import IdealGasEOS
    eos = IdealGasEOS()
    T, P, n = case['T'], case['P'], case['n']
    V = _call('get_V', lambda: eos.get_V(T=T, P=P, n=n))
    ev = {'ev': 'ideal', 'T': to_dec(T), 'P': to_dec(P), 'n': to_dec(n), 'V': to_dec(V),
          'Pb': to_dec(_call('get_P', lambda: eos.get_P(T=T, V=V, n=n))),
          'Tb': to_dec(_call('get_T', lambda: eos.get_T(V=V, P=P, n=n))),
          'nb': to_dec(_call('get_n', lambda: eos.get_n(V=V, P=P, T=T))),
          'V1': to_dec(_call('get_V', lambda: eos.get_V(T=T, P=P, n=1.0)))}
    return [ev], {}


def exec_vdw(case):
    from pmutt.eos import IdealGasEOS
    obj, a, b = _vdw_object(case)
    T, P, n, gas = case['T'], case['P'], case['n'], bool(case['gas'])
    Vm = _call('get_Vm', lambda: obj.get_Vm(T=T, P=P, gas_phase=gas))
    V = _call('get_V', lambda: obj.get_V(T=T, P=P, n=n, gas_phase=gas))
    Pb = _call('get_P', lambda: obj.get_P(T=T, V=V, n=n))
    Tb = _call('get_T', lambda: obj.get_T(V=V, P=P, n=n))
    nb = _call('get_n', lambda: obj.get_n(V=V, P=P, T=T, gas_phase=gas))
    Vig = _call('ideal.get_V', lambda: IdealGasEOS().get_V(T=T, P=P, n=n))
    roots = bracket_roots(a, b, T, P)
    ev = {'ev': 'vdw', 'a': to_dec(a), 'b': to_dec(b), 'T': to_dec(T), 'P': to_dec(P), 'n': to_dec(n),
          'gas': gas, 'Vm': to_dec(Vm), 'V': to_dec(V), 'Vmw': to_dec(V / n), 'Pb': to_dec(Pb),
          'Tb': to_dec(Tb), 'nb': to_dec(nb), 'roots': [to_dec(r) for r in roots], 'Vig': to_dec(Vig)}
    RT = R_SI * T
    detail = {'nroots': len(roots), 'roots': roots, 'Vm': Vm, 'a': a, 'b': b,
              'lowdens': bool(gas and 8.0 * (b * RT + a) * P * BAR <= RT * RT)}
    if case.get('expect') is not None:          # (S->C) discrete projection: index of the selected root
        got = int(round(Vm / case['lam']))
        detail['selected'] = got
        if got != case['expect']:
            detail['mismatch'] = {'expected_root': case['expect'], 'selected_root': got,
                                  'Vm_over_lambda': Vm / case['lam']}
    return [ev], detail


def exec_crit(case):
    obj, a, b = _vdw_object(case)
    n = case['n']
    events = []
    Pc = _call('get_Pc', obj.get_Pc)
    Tc = _call('get_Tc', obj.get_Tc)
    Vc = _call('get_Vc', lambda: obj.get_Vc(n=n))
    if case.get('from_critical'):
        Tc0, Pc0 = case['from_critical']
        events.append({'ev': 'fromcrit', 'Tc': to_dec(Tc0), 'Pc': to_dec(Pc0), 'a': to_dec(a), 'b': to_dec(b),
                       'Tcb': to_dec(Tc), 'Pcb': to_dec(Pc)})
    events.append({'ev': 'crit', 'a': to_dec(a), 'b': to_dec(b), 'n': to_dec(n), 'Pc': to_dec(Pc),
                   'Tc': to_dec(Tc), 'Vc': to_dec(Vc), 'state': False, 'VmG': [0, 0], 'VmL': [0, 0]})
    if inside(Tc, T_RANGE) and inside(Pc, P_RANGE):     # the critical point as a state of the quantifier
        events[-1]['state'] = True
        events[-1]['VmG'] = to_dec(_call('get_Vm', lambda: obj.get_Vm(T=Tc, P=Pc, gas_phase=True)))
        events[-1]['VmL'] = to_dec(_call('get_Vm', lambda: obj.get_Vm(T=Tc, P=Pc, gas_phase=False)))
    return events, {'a': a, 'b': b, 'Tc': Tc, 'Pc': Pc, 'state': events[-1]['state']}


def exec_array(case):
    """Array-valued states: float ndarrays passed where the unmodified library evaluates
    element-wise, the SAME array objects reused from call to call."""
    import numpy as np
    from pmutt.eos import IdealGasEOS
    vdw = case['eos'] == 'vdw'
    if vdw:
        obj, a, b = _vdw_object(case)
    else:
        obj = IdealGasEOS()
    T0, P0, n0 = list(case['T']), list(case['P']), list(case['n'])
    k = len(T0)
    if vdw:      # a volume on the gas branch for every element (scalar calls)
        V0 = [_call('get_V', lambda i=i: obj.get_V(T=T0[i], P=P0[i], n=n0[i], gas_phase=True)) for i in range(k)]
    else:
        V0 = [_call('get_V', lambda i=i: obj.get_V(T=T0[i], P=P0[i], n=n0[i])) for i in range(k)]
    T, V, n = np.array(T0), np.array(V0), np.array(n0)
    touched, pairs = [], []
    shapes = [True]

    def arr_call(name, fn, args):
        before = {kk: vv.copy() for kk, vv in args.items()}
        try:
            out = fn(**args)
        except Exception as ex:                  # noqa
            raise _Raised('%s(array): %s: %s' % (name, type(ex).__name__, ex))
        for kk, vv in args.items():
            if vv.shape != before[kk].shape or vv.tobytes() != before[kk].tobytes():
                touched.append('%s:%s' % (name, kk))
        out = np.asarray(out, dtype=float)
        if out.shape != (k,):
            shapes[0] = False
            return np.full(k, 1.0)
        if not np.all(np.isfinite(out)):
            raise _Raised('nonfinite:%s(array)' % name)
        return out

    def compare(arr, name, scalar_fn):
        for i in range(k):
            pairs.append([to_dec2(arr[i]), to_dec2(_call(name, lambda: scalar_fn(i)))])

    # T -> P -> T on the arrays the caller holds
    Pb = arr_call('get_P', obj.get_P, {'T': T, 'V': V, 'n': n})
    compare(Pb, 'get_P', lambda i: obj.get_P(T=T0[i], V=V0[i], n=n0[i]))
    Pb_held = [float(x) for x in Pb]
    Tb = arr_call('get_T', obj.get_T, {'V': V, 'P': Pb, 'n': n})
    compare(Tb, 'get_T', lambda i: obj.get_T(V=V0[i], P=Pb_held[i], n=n0[i]))
    # V -> P -> V: volume solved again from the returned pressure and the held T, n
    if vdw:
        Vb = [_call('get_V', lambda i=i: obj.get_V(T=float(T[i]), P=float(Pb[i]), n=float(n[i]), gas_phase=True))
              for i in range(k)]
        Vn = arr_call('get_V', lambda n: obj.get_V(T=T0[0], P=P0[0], n=n, gas_phase=True), {'n': n})
        compare(Vn, 'get_V', lambda i: obj.get_V(T=T0[0], P=P0[0], n=n0[i], gas_phase=True))
        nV = arr_call('get_n', lambda V: obj.get_n(V=V, P=P0[0], T=T0[0], gas_phase=True), {'V': V})
        compare(nV, 'get_n', lambda i: obj.get_n(V=V0[i], P=P0[0], T=T0[0], gas_phase=True))
        Vc = arr_call('get_Vc', obj.get_Vc, {'n': n})
        compare(Vc, 'get_Vc', lambda i: obj.get_Vc(n=n0[i]))
    else:
        Vb = arr_call('get_V', obj.get_V, {'T': T, 'P': Pb, 'n': n})
        compare(Vb, 'get_V', lambda i: obj.get_V(T=T0[i], P=Pb_held[i], n=n0[i]))
        nb = arr_call('get_n', obj.get_n, {'V': V, 'P': Pb, 'T': T})
        compare(nb, 'get_n', lambda i: obj.get_n(V=V0[i], P=Pb_held[i], T=T0[i]))
    # what the caller's arrays hold now vs the state before any call
    held_ok = all(float(x) == y for x, y in zip(T, T0)) and all(float(x) == y for x, y in zip(V, V0)) \
        and all(float(x) == y for x, y in zip(n, n0))
    if not held_ok and not touched:
        touched.append('state:changed')
    ev = {'ev': 'arr', 'eos': case['eos'], 'T0': [to_dec(x) for x in T0], 'V0': [to_dec(x) for x in V0],
          'Tb': [to_dec(x) for x in Tb], 'Vb': [to_dec(float(x)) for x in Vb], 'pairs': pairs,
          'touched': touched, 'shapes': shapes[0]}
    return [ev], {'touched': touched, 'V0': V0, 'V_held': [float(x) for x in V], 'T_back': [float(x) for x in Tb]}


def execute(case):
    try:
        if case['kind'] == 'ideal':
            return exec_ideal(case)
        if case['kind'] == 'vdw':
            return exec_vdw(case)
        if case['kind'] == 'array':
            return exec_array(case)
        return exec_crit(case)
    except _Raised as ex:
        msg = str(ex)
        if msg.startswith('nonfinite:'):
            return [{'ev': 'nonfinite', 'call': msg[10:]}], {'nonfinite': msg[10:]}
        if case['kind'] == 'array':
            # every parameter is documented as float: a library that refuses arrays keeps the property
            return [{'ev': 'arr_refused', 'call': msg.split(':')[0]}], {'array_refused': msg}
        return [{'ev': 'raise', 'call': msg.split(':')[0]}], {'raised': msg}


# --------------------------------------------------------------------------
# case generation
# --------------------------------------------------------------------------
def _state(rnd):
    return logu(rnd, *T_RANGE), logu(rnd, *P_RANGE), logu(rnd, *N_RANGE)


def gen_random(rnd, count):
    out = []
    for _ in range(count):
        T, P, n = _state(rnd)
        a, b = logu(rnd, *A_RANGE), logu(rnd, *B_RANGE)
        for gas in (True, False):
            out.append({'kind': 'vdw', 'src': 'random', 'a': a, 'b': b, 'T': T, 'P': P, 'n': n, 'gas': gas})
    return out


def gen_threeroot(rnd, count):
    """sub-critical isotherms with P between the spinodal pressures: gas and liquid roots differ"""
    out = []
    tries = 0
    while len(out) < 2 * count and tries < 200 * count:
        tries += 1
        a, b = logu(rnd, *A_RANGE), logu(rnd, *B_RANGE)
        Tc = 8.0 * a / (27.0 * b * R_SI)
        T = Tc * rnd.choice([rnd.uniform(0.35, 0.95), rnd.uniform(0.95, 0.999), rnd.uniform(0.3, 0.6)])
        if not inside(T, T_RANGE):
            continue
        plo, phi = spinodal_pressures(a, b, T)
        plo = max(plo, P_RANGE[0] * BAR)
        phi = min(phi, P_RANGE[1] * BAR)
        if not plo < phi:
            continue
        f = rnd.choice([rnd.uniform(0.02, 0.98), 1.0e-3, 0.999, rnd.uniform(0.0, 1.0) ** 3])
        P = (plo + f * (phi - plo)) / BAR
        if not inside(P, P_RANGE):
            continue
        n = logu(rnd, *N_RANGE)
        for gas in (True, False):
            out.append({'kind': 'vdw', 'src': 'threeroot', 'a': a, 'b': b, 'T': T, 'P': P, 'n': n, 'gas': gas})
    return out


def gen_nearcrit(rnd, count):
    offs = [1.0e-2, -1.0e-2, 1.0e-3, -1.0e-3, 1.0e-4, -1.0e-4, 1.0e-6, -1.0e-6, 0.0]
    out = []
    tries = 0
    while len(out) < 2 * count and tries < 200 * count:
        tries += 1
        a, b = logu(rnd, *A_RANGE), logu(rnd, *B_RANGE)
        Tc = 8.0 * a / (27.0 * b * R_SI)
        Pc = a / (27.0 * b * b) / BAR
        tau, pi = rnd.choice(offs), rnd.choice(offs)
        if tau == 0.0 and pi == 0.0:
            continue                           # the critical point itself is the 'crit' event
        T, P = Tc * (1.0 + tau), Pc * (1.0 + pi)
        if not (inside(T, T_RANGE) and inside(P, P_RANGE)):
            continue
        n = logu(rnd, *N_RANGE)
        for gas in (True, False):
            out.append({'kind': 'vdw', 'src': 'nearcrit', 'a': a, 'b': b, 'T': T, 'P': P, 'n': n, 'gas': gas})
    return out


def gen_fromcrit_states(rnd, count):
    """states of objects built by from_critical, at reduced conditions around the critical point"""
    out = []
    tries = 0
    while len(out) < 2 * count and tries < 200 * count:
        tries += 1
        Tc, Pc = logu(rnd, *TC_RANGE), logu(rnd, *PC_RANGE)
        T, P = Tc * logu(rnd, 0.4, 4.0), Pc * logu(rnd, 0.02, 5.0)
        if not (inside(T, T_RANGE) and inside(P, P_RANGE)):
            continue
        n = logu(rnd, *N_RANGE)
        for gas in (True, False):
            out.append({'kind': 'vdw', 'src': 'fromcrit', 'from_critical': [Tc, Pc], 'T': T, 'P': P, 'n': n,
                        'gas': gas})
    return out


def gen_tlc(rnd, tlc_cases, per_case):
    """(S->C) scale each TLC cubic (roots in units of lambda) into the quantifier's domain:
    a = P lambda^2 s2, b = lambda s3/s2, R T = P lambda (s1 - s3/s2)."""
    out = []
    skipped = 0
    for c in tlc_cases:
        made = 0
        tries = 0
        while made < per_case and tries < 400:
            tries += 1
            b = logu(rnd, *B_RANGE)
            lam = b * c['s2'] / c['s3']
            T = logu(rnd, *T_RANGE)
            P_si = R_SI * T / (lam * (c['s1'] - c['s3'] / c['s2']))
            a = P_si * lam * lam * c['s2']
            if not (inside(P_si / BAR, P_RANGE) and inside(a, A_RANGE)):
                continue
            made += 1
            n = rnd.choice([1.0, logu(rnd, *N_RANGE)])
            for gas in (True, False):
                out.append({'kind': 'vdw', 'src': 'tlc', 'a': a, 'b': b, 'T': T, 'P': P_si / BAR, 'n': n,
                            'gas': gas, 'lam': lam, 'expect': c['gas'] if gas else c['liquid'],
                            'cubic': {'re': c['re'], 'im': c['im']}, 'nreal': c['nreal']})
        if made == 0:
            skipped += 1
    return out, skipped


def gen_ideal(rnd, count):
    out = [{'kind': 'ideal', 'T': 298.15, 'P': 1.0, 'n': 1.0}]
    for _ in range(count):
        T, P, n = _state(rnd)
        out.append({'kind': 'ideal', 'T': T, 'P': P, 'n': n})
    for T in T_RANGE:
        for P in P_RANGE:
            for n in N_RANGE:
                out.append({'kind': 'ideal', 'T': T, 'P': P, 'n': n})
    return out


def gen_crit(rnd, count):
    out = []
    for _ in range(count):
        out.append({'kind': 'crit', 'a': logu(rnd, *A_RANGE), 'b': logu(rnd, *B_RANGE), 'n': logu(rnd, *N_RANGE)})
        out.append({'kind': 'crit', 'from_critical': [logu(rnd, *TC_RANGE), logu(rnd, *PC_RANGE)],
                    'n': logu(rnd, *N_RANGE)})
    for Tc in TC_RANGE:
        for Pc in PC_RANGE:
            out.append({'kind': 'crit', 'from_critical': [Tc, Pc], 'n': 1.0})
    return out


def gen_array(rnd, count):
    """arrays of 2-4 states; vdW states on isotherms with one real root or the gas branch at
    moderate density (the V -> P -> V step is then well conditioned); n != 1 throughout"""
    out = []
    while len(out) < 2 * count:
        k = rnd.choice([2, 3, 4])
        a, b = logu(rnd, *A_RANGE), logu(rnd, *B_RANGE)
        Tc = 8.0 * a / (27.0 * b * R_SI)
        Ts, Ps, ns = [], [], []
        tries = 0
        while len(Ts) < k and tries < 1000:
            tries += 1
            T, P, n = _state(rnd)
            if T < 1.2 * Tc or abs(n - 1.0) < 1e-3:     # super-critical: one real root, smooth in P
                continue
            Ts.append(T), Ps.append(P), ns.append(n)
        if len(Ts) < k:
            continue
        out.append({'kind': 'array', 'eos': 'vdw', 'src': 'array', 'a': a, 'b': b, 'T': Ts, 'P': Ps, 'n': ns})
        out.append({'kind': 'array', 'eos': 'ideal', 'src': 'array', 'T': Ts, 'P': Ps, 'n': ns})
    return out


def _sig(x):
    return '%.3e' % x


def run(ctx):
    ctx.coverage['rule'] = (
        'states drawn log-uniformly from the quantifier (T 50-3000 K, P 1e-3-1e3 bar, n 1e-3-1e3 mol, '
        'a 0.003-3, b 1e-5-2e-4; Tc 5-1000 K, Pc 1-300 bar) plus constructed families: sub-critical isotherms '
        'with P between the spinodal pressures (three real roots), neighbourhoods of the critical point, '
        'objects from from_critical, and every TLC cubic with known roots scaled into the domain; each van der '
        'Waals state is probed for the gas and the liquid root.  Non-trivial: a van der Waals state where the '
        'harness bracketed three distinct real roots (the selection matters), or a gas state satisfying the '
        'low-density antecedent, or a TLC cubic, or any ideal / critical / array case (arrays of 2-4 super-critical '
        'states with n != 1, the same ndarray objects reused across calls); distinct by kind, source, phase '
        'and parameters rounded to 4 digits')
    rnd = random.Random(ctx.seed)
    if ctx.replay_case is not None:
        cases = [ctx.replay_case['case']]
    else:
        ctx.model('MC_EOS', 'MC_EOS')
        for cfg, why in (('MC_EOS_realpart', 'max/min over the real parts of all roots (isreal filter dropped)'),
                         ('MC_EOS_swapped', 'gas = smallest root, liquid = largest root')):
            bad = ctx.model('MC_EOS', cfg, workers=2, expect_ok=False)
            if bad.ok or bad.violated not in ('OnEquation', 'Selected'):
                raise core.MachineryError('selection variant %s should be rejected by the design model:\n%s'
                                          % (cfg, bad.out[-2000:]))
            ctx.notes.append('design model rejects "%s": %s violated' % (why, bad.violated))
        tlc_cases, r = core.tlc_cases('MC_EOS', 'MC_EOS_cases')
        if not tlc_cases:
            raise core.MachineryError('no cases emitted by MC_EOS')
        ctx.coverage['tlc_cubics'] = len(tlc_cases)
        tcases, skipped = gen_tlc(rnd, tlc_cases, ctx.pick(2, 20))
        ctx.coverage['tlc_cubics_not_scalable_into_domain'] = skipped
        cases = (tcases
                 + gen_ideal(rnd, ctx.pick(300, 5000))
                 + gen_random(rnd, ctx.pick(700, 20000))
                 + gen_threeroot(rnd, ctx.pick(600, 15000))
                 + gen_nearcrit(rnd, ctx.pick(150, 3000))
                 + gen_fromcrit_states(rnd, ctx.pick(250, 6000))
                 + gen_crit(rnd, ctx.pick(150, 3000))
                 + gen_array(rnd, ctx.pick(150, 3000)))
    results = core.pmap(execute, cases)
    traces = []
    stats = {'vdw_three_roots': 0, 'vdw_one_root': 0, 'vdw_low_density': 0, 'critical_states': 0,
             'tlc_replayed': 0, 'array_cases': 0, 'array_refused': 0}
    for tid, (case, (events, detail)) in enumerate(zip(cases, results)):
        ctx.evaluated()
        tags = {'kind': case['kind'], 'src': case.get('src', case['kind']), 'gas': case.get('gas')}
        sig = [case['kind'], case.get('src'), case.get('gas')] + \
              [_sig(x) for k in ('a', 'b', 'T', 'P', 'n') if k in case
               for x in (case[k] if isinstance(case[k], list) else [case[k]])] + \
              [_sig(x) for x in case.get('from_critical', [])]
        if case['kind'] == 'vdw':
            nr = detail.get('nroots', 0)
            if nr == 3:
                stats['vdw_three_roots'] += 1
            elif nr == 1:
                stats['vdw_one_root'] += 1
            if detail.get('lowdens'):
                stats['vdw_low_density'] += 1
            if case.get('src') == 'tlc':
                stats['tlc_replayed'] += 1
            if nr == 3 or detail.get('lowdens') or case.get('src') == 'tlc':
                ctx.nontrivial(sig)
            if 'mismatch' in detail:
                ctx.violation('ReplayState', case, tags=tags, detail=detail)
        else:
            ctx.nontrivial(sig)
            if case['kind'] == 'array':
                stats['array_refused' if 'array_refused' in detail else 'array_cases'] += 1
            if detail.get('state'):
                stats['critical_states'] += 1
        traces.append((tid, events))
        if tid % max(1, len(cases) // 6) == 0:
            ctx.sample({'case': case, 'observed': {k: v for k, v in detail.items() if k != 'roots'}})
    fails, vstats = core.validate_traces('Trace_EOS', 'Trace', traces)
    ctx.count('traces_validated_against_impl', len(traces))
    ctx.coverage['trace_lines'] = vstats['lines']
    ctx.coverage.update(stats)
    if ctx.replay_case is None and (stats['vdw_three_roots'] < 100 or stats['vdw_low_density'] < 100
                                    or stats['tlc_replayed'] < 50 or stats['critical_states'] < 20
                                    or stats['array_cases'] + stats['array_refused'] < 50):
        raise core.MachineryError('vacuous run: %r' % (stats,))
    for tid, idx, clause in fails:
        case = cases[tid]
        if clause == 'WITNESS':
            raise core.MachineryError('a harness witness (bracketed root or V/n) did not verify: case %r detail %r'
                                      % (case, results[tid][1]))
        tags = {'kind': case['kind'], 'src': case.get('src', case['kind']), 'gas': case.get('gas')}
        ctx.violation(clause, case, tags=tags, detail=results[tid][1])
    ctx.assume('R = 8.3144598 J/mol/K and 1 bar = 1e5 Pa are fixed in the specification (documented values)')
    ctx.assume('the real roots used by RootSelected are bracketed by the harness (sign changes of the cubic on a '
               'logarithmic grid plus its two stationary points, bisection) and each is verified by TLC through its '
               'residual; a sign counts only above 1e-10 of the term scale, so roots that merge within rounding '
               '(spinodal, critical point) are not used')
    ctx.assume('cubic residuals are compared with the largest of the four terms (1e-6): the pressure round trip on '
               'the liquid root at low pressure is ill conditioned and is only required in that sense')
    ctx.assume('array arguments: the docstrings list every parameter as float; float ndarrays are probed only for the '
               'getters that evaluate element-wise on the unmodified library (get_Vm / get_V with array T or P raise '
               'and are not probed); array = map of scalar is read as agreement to 1e-13 relative')
    ctx.assume('the Dec clauses do not see relative deviations below ~1e-6')


if __name__ == '__main__':
    core.main('C20', 'exploration', run)
