"""C17 - PiecewiseCovEffect stays continuous piecewise-linear under edits.

(D)   spec/CovEffect.tla checked exhaustively (MC_CovEffect.cfg).
(S->C) every behaviour of MC_CovEffect_beh.cfg (and -simulate behaviours in the
      thorough tier) is stepped through the real object on a dyadic grid; the real
      state after each call must EQUAL the state TLC computed.
(C->S) the same runs plus random real-valued histories are recorded as NDJSON and
      judged by spec/Trace_CovEffect.tla.
"""
import json
import random
import sys

from harness import core
from harness.core import to_dec

Q = 4.0
T_POINTS = (298.15, 650.0)


def _mk(intervals, slopes):
    from pmutt.mixture.cov import PiecewiseCovEffect
    return PiecewiseCovEffect(name_i='A', name_j='B', intervals=list(intervals),
                              slopes=list(slopes), name='AB')


def _state(obj):
    d = obj.to_dict()
    return (list(obj.intervals), list(obj.slopes), list(d['intercepts']))


def _state_ev(ev, obj, extra=None):
    iv, sl, ic = _state(obj)
    e = {'ev': ev, 'iv': [to_dec(v) for v in iv], 'sl': [to_dec(v) for v in sl],
         'ic': [to_dec(v) for v in ic]}
    if extra:
        e.update(extra)
    return e


def _eval_events(obj, xs):
    from pmutt import constants as c
    evs = []
    for x in xs:
        for T in T_POINTS:
            vals = {'U': obj.get_UoRT(x=x, T=T), 'H': obj.get_HoRT(x=x, T=T),
                    'G': obj.get_GoRT(x=x, T=T), 'F': obj.get_FoRT(x=x, T=T),
                    'S': obj.get_SoR(), 'Cp': obj.get_CpoR(), 'Cv': obj.get_CvoR()}
            e = {'ev': 'eval', 'x': to_dec(x), 'T': to_dec(T), 'R': to_dec(c.R('kcal/mol/K'))}
            for k, v in vals.items():
                e[k] = to_dec(v)
            evs.append(e)
    return evs


def _eval_points(intervals, rnd):
    pts = set()
    iv = sorted(set(float(v) for v in intervals))
    for a in iv:
        pts.add(a)
    for a, b in zip(iv, iv[1:]):
        pts.add((a + b) / 2)
    pts.add(iv[-1] + 0.125)
    pts.add(0.0)
    return sorted(pts)


def execute(case):
    """Run one history through the real object.  Returns (events, mismatches) where
    mismatches lists S->C disagreements with the TLC-computed states."""
    import copy
    import json as _json
    from pmutt.mixture.cov import PiecewiseCovEffect
    from pmutt.io.json import pmuttEncoder, json_to_pmutt
    rnd = random.Random(case.get('seed', 0))
    grid = case['kind'] == 'grid'
    sc = (1.0 / Q) if grid else 1.0
    ops = case['ops']
    events, mism = [], []
    obj = None
    frozen = []
    grid_binding = True
    for k, op in enumerate(ops):
        act = op['act']
        extra = {}
        if act == 'construct':
            obj = _mk([v * sc for v in op['iv0']], [float(s) for s in op['sl0']])
        elif act == 'insert':
            x, s = op['x'] * sc, float(op['s'])
            obj.insert(x, s)
            extra = {'x': to_dec(x), 's': to_dec(s)}
        elif act in ('pop', 'pop0'):
            i = int(op['x']) if act == 'pop' else 0
            raised = False
            try:
                obj.pop(i)
            except ValueError:
                raised = True
            extra = {'i': i, 'raised': raised}
            act = 'pop'
        elif act == 'reload':
            # the object that is serialised stays behind; it must never change again (frozen events)
            fx = 0.5 * (max(obj.intervals) + 1.0)
            frozen.append((obj, _state(obj), fx, float(obj.get_UoRT(x=fx, T=T_POINTS[0]))))
            if op.get('via', 'dict') == 'json':
                obj = _json.loads(_json.dumps(obj, cls=pmuttEncoder), object_hook=json_to_pmutt)
            else:
                obj = PiecewiseCovEffect.from_dict(obj.to_dict())
        else:
            raise core.MachineryError('unknown op %r' % (op,))
        events.append(_state_ev(act, obj, extra))
        for (fo, (siv, ssl, sic), fx, sU) in frozen:
            if fo is obj:
                continue
            iv2, sl2, ic2 = _state(fo)
            try:
                U2 = float(fo.get_UoRT(x=fx, T=T_POINTS[0]))
            except Exception:
                U2 = float('inf')
            events.append({'ev': 'frozen', 'iv': [to_dec(v) for v in iv2], 'sl': [to_dec(v) for v in sl2],
                           'ic': [to_dec(v) for v in ic2], 'siv': [to_dec(v) for v in siv],
                           'ssl': [to_dec(v) for v in ssl], 'sic': [to_dec(v) for v in sic],
                           'U': to_dec(U2) if core.finite(U2) else [1, 99], 'sU': to_dec(sU)})
        # An insertion at an existing breakpoint may legitimately go before or after it (both keep the
        # lists ascending and paired; the property does not choose): from that step on the expected
        # states of the deterministic model are no longer binding, the relation InsertOK (trace spec) is.
        if grid and act == 'insert' and k > 0 and op['x'] in ops[k - 1].get('iv', []):
            grid_binding = False
        if grid and grid_binding and 'iv' in op:
            iv, sl, ic = _state(obj)
            exp = ([v / Q for v in op['iv']], [float(v) for v in op['sl']],
                   [v / Q for v in op['ic']])
            if (iv, sl, ic) != exp:
                mism.append({'step': k, 'op': op, 'expected': exp, 'got': (iv, sl, ic)})
        if case.get('eval', True):
            events.extend(_eval_events(obj, _eval_points(obj.intervals, rnd)))
    return events, mism


def _safe_execute(case):
    try:
        return execute(case)
    except core.MachineryError:
        raise
    except Exception as ex:          # the library raised on a valid history
        return [], [{'step': -1, 'raised': '%s: %s' % (type(ex).__name__, ex)}]


def _beh_to_case(h, cid):
    ops = []
    for r in h:
        op = {'act': r['act'], 'x': r['x'], 's': r['s'], 'iv': r['iv'], 'sl': r['sl'],
              'ic': r['ic']}
        if r['act'] == 'construct':
            op['iv0'], op['sl0'] = r['iv'], r['sl']
        ops.append(op)
    return {'cid': cid, 'kind': 'grid', 'ops': ops}


def _random_case(rnd, cid):
    n0 = rnd.randint(1, 4)
    ivs = [0.0] + sorted(round(rnd.uniform(0.01, 1.0), rnd.choice([2, 3, 6])) for _ in range(n0 - 1))
    ops = [{'act': 'construct', 'iv0': ivs, 'sl0': [rnd.uniform(-40, 40) for _ in ivs]}]
    cur = list(ivs)
    for _ in range(rnd.randint(1, 7)):
        r = rnd.random()
        if r < 0.55:
            mode = rnd.random()
            if mode < 0.2:
                x = max(cur) + rnd.uniform(0.0, 0.3)         # at/above the last breakpoint
            elif mode < 0.3:
                x = rnd.choice(cur)                          # duplicate breakpoint
            else:
                x = rnd.uniform(0.0, 1.0)
            ops.append({'act': 'insert', 'x': x, 's': rnd.uniform(-40, 40)})
            cur.append(x)
        elif r < 0.8:
            i = rnd.randint(0, max(0, len(cur) - 1))
            ops.append({'act': 'pop' if i else 'pop0', 'x': i})
            if i and i < len(cur):
                cur.sort()
                cur.pop(i)
        else:
            ops.append({'act': 'reload', 'via': rnd.choice(['dict', 'json'])})
    return {'cid': cid, 'kind': 'real', 'ops': ops, 'seed': rnd.randrange(1 << 30)}


def run(ctx):
    ctx.coverage['rule'] = (
        'a case is one edit history (construct, then insert/pop/reload steps) of a '
        'PiecewiseCovEffect; grid cases are complete TLC behaviours of CovEffect.tla on a dyadic '
        'grid (state equality after each call), real cases are random real-valued histories; '
        'every case is also judged line by line by Trace_CovEffect.tla; non-trivial = contains '
        'at least one insert or pop; distinct by the operation sequence')
    cases = []
    if ctx.replay_case is not None:
        cases = [ctx.replay_case['case']]
    else:
        # (D) design model
        ctx.model('MC_CovEffect', 'MC_CovEffect')
        bad = ctx.model('MC_CovEffect', 'MC_CovEffect_argmax', expect_ok=False)
        if bad.ok or bad.violated is None:
            raise core.MachineryError('the argmax variant should be rejected by the design model')
        ctx.notes.append('design model rejects the numpy.argmax insertion rule: %s violated' % bad.violated)
        bad2 = ctx.model('MC_CovEffect', 'MC_CovEffect_alias', expect_ok=False)
        if bad2.ok or bad2.violated is None:
            raise core.MachineryError('the list-sharing reload variant should be rejected by the design model')
        ctx.notes.append('design model rejects a reload that shares its lists with the original: %s violated' % bad2.violated)
        # (S->C) behaviours
        r = core.run_tlc('MC_CovEffect', 'MC_CovEffect_beh', workers=1, timeout=900)
        if not r.ok:
            raise core.MachineryError('behaviour generation failed:\n' + r.out[-2000:])
        behs = [core.parse_tla(p)[1] for p in r.prints() if core.tagged(p, 'BEH')]
        ctx.coverage['tlc_behaviours'] = len(behs)
        rnd = random.Random(ctx.seed)
        if ctx.quick:
            rnd.shuffle(behs)
            behs = behs[:2500]
        else:
            rs = core.run_tlc('MC_CovEffect', 'MC_CovEffect_sim', workers=1, timeout=1500,
                              extra=['-simulate', 'num=4000', '-depth', '9', '-seed', str(ctx.seed + 1)])
            sim = [core.parse_tla(p)[1] for p in rs.prints() if core.tagged(p, 'BEH')]
            if not sim:
                raise core.MachineryError('simulation produced no behaviours:\n' + rs.out[-2000:])
            ctx.coverage['tlc_simulated_behaviours'] = len(sim)
            behs += sim
        for k, h in enumerate(behs):
            cases.append(_beh_to_case(h, 'g%d' % k))
        for k in range(ctx.pick(800, 12000)):
            cases.append(_random_case(rnd, 'r%d' % k))
    results = core.pmap(_safe_execute, cases)
    traces = []
    for tid, (case, (events, mism)) in enumerate(zip(cases, results)):
        ctx.evaluated()
        sig = json.dumps([[o['act'], o.get('x'), o.get('s'), o.get('iv0')] for o in case['ops']])
        if any(o['act'] in ('insert', 'pop') for o in case['ops']):
            ctx.nontrivial(sig)
        for m in mism:
            clause = 'Raises' if 'raised' in m else 'ReplayState'
            ctx.violation(clause, case, tags={'kind': case['kind']}, detail=m)
        traces.append((tid, events))
        if tid % 997 == 0:
            ctx.sample({'ops': [{k: v for k, v in o.items() if k in ('act', 'x', 's', 'iv0', 'sl0')}
                                for o in case['ops']], 'kind': case['kind']})
    fails, stats = core.validate_traces('Trace_CovEffect', 'Trace', traces)
    ctx.count('traces_validated_against_impl', len(traces))
    ctx.coverage['trace_lines'] = stats['lines']
    by_case = {}
    for tid, idx, clause in fails:
        by_case.setdefault((tid, clause), []).append(idx)
    for (tid, clause), idxs in sorted(by_case.items()):
        ctx.violation(clause, cases[tid], tags={'kind': cases[tid]['kind']},
                      detail={'event_indices': idxs[:10]})
    ctx.assume('grid replays rely on dyadic breakpoints and integer slopes being exact in IEEE doubles')
    ctx.assume('Dec arithmetic: clauses on real-valued histories hold to ~1e-6 relative of the largest operand')


if __name__ == '__main__':
    core.main('C17', 'model_checking', run)
