"""C17 - PiecewiseCovEffect stays continuous piecewise-linear under edits.

(D)   spec/CovEffect.tla checked exhaustively (MC_CovEffect.cfg: short initial lists, <= 4 edits;
      MC_CovEffect_long.cfg: initial lists of 4, 5 and 6 breakpoints, <= 2 edits); the named variants
      argmax / alias / dictalias / ctoralias must be rejected.
(S->C) behaviours of MC_CovEffect_beh.cfg (all of them) and MC_CovEffect_sim6.cfg (-simulate: 6 edits from
      initial lists of every length 1..6) - and MC_CovEffect_sim.cfg in the thorough tier - are stepped
      through the real object on a dyadic grid; the real state after each call must EQUAL the state TLC computed.
(C->S) the same runs plus random real-valued histories are recorded as NDJSON and judged by
      spec/Trace_CovEffect.tla.

Input space (notes/C17.md, "Quantifier audit"): every case fixes, besides its history, HOW the calls are made -
container and number types of the constructor arguments, the three names, positional / keyword / defaulted
arguments, the type of each coverage and temperature, the unit of the dimensional getters - by rotation, so that
every form is exercised in every run; VACUITY lists the classes that must have been seen (else exit 2).
"""
import json
import random
import sys

from harness import core
from harness.core import to_dec

Q = 4.0
T0 = 298.15                      # documented default temperature (not read from the library)
NONE = '<None>'
# temperatures: (tag, value, type)  - float / int / numpy scalars, 0.5 K .. 10000 K
T_LIST = [('T298', 298.15, 'float'), ('T650', 650.0, 'float'), ('T1', 1.0, 'float'), ('T77', 77.0, 'float'),
          ('T300int', 300, 'int'), ('T1200int', 1200, 'int'), ('T3000', 3000.0, 'float'),
          ('T500npf', 500.0, 'npfloat'), ('T400npi', 400, 'npint'), ('T0p5', 0.5, 'float'),
          ('T10000', 10000.0, 'float')]
# energy units of the dimensional getters: the whole table of pmutt.constants.R without its '/K'
UNITS = ['J/mol', 'kJ/mol', 'L kPa/mol', 'cm3 kPa/mol', 'm3 Pa/mol', 'cm3 MPa/mol', 'm3 bar/mol', 'L bar/mol',
         'L torr/mol', 'cal/mol', 'kcal/mol', 'L atm/mol', 'cm3 atm/mol', 'eV', 'Eh', 'Ha']
CONTAINERS = ['list', 'tuple', 'ndarray']
NUMS = ['float', 'int', 'npfloat', 'npint']
NAMES = [('A', 'B', 'AB'), ('CO(S)', 'H2O(S)', None), ('H(S)', 'H(S)', 'H-H self'),
         ('NH3(S-2)', 'N2_TS(S)', ''), ('CH3CH2OH(T)', 'O2(T)', 'r_0001')]

VACUITY = (['init_len_%d' % n for n in range(1, 7)] + ['init_duplicate', 'init_last_is_one']
           + ['container_' + c for c in CONTAINERS] + ['num_' + n for n in NUMS]
           + ['name_omitted', 'name_empty', 'name_given', 'ctor_positional', 'ctor_keyword', 'sibling']
           + ['insert_between', 'insert_equal', 'insert_equal_zero', 'insert_equal_last', 'insert_above_last',
              'insert_at_one', 'insert_repeated_slope', 'insert_zero_slope', 'insert_x_int', 'insert_x_np']
           + ['pop_middle', 'pop_last', 'pop_zero_refused', 'pop_zero_single', 'pop_negative', 'pop_npindex',
              'pop_repeated_slope', 'pop_to_single']
           + ['edits_%d' % n for n in range(1, 7)]
           + ['x_on', 'x_zero', 'x_one', 'x_between', 'x_beyond_last', 'x_beyond_one', 'x_adj_above',
              'x_adj_below', 'x_on_duplicate', 'xtype_float', 'xtype_int', 'xtype_npfloat', 'xtype_npint']
           + [t[0] for t in T_LIST]
           + ['form_kw', 'form_pos', 'form_defT', 'form_defx', 'form_none', 'eval_after_eval_then_edit']
           + ['dim_' + u for u in UNITS] + ['dim_defT', 'dim_posT', 'dim_kwT']
           + ['reload_dict', 'reload_json', 'reload_final', 'reload_then_edit',
              'frozen_orig', 'frozen_dict', 'frozen_twin', 'frozen_sibling'])


def _np():
    import numpy
    return numpy


def _cast(v, num):
    """The value v as python float / python int / numpy.float64 / numpy.int64 (the integer types only when v is
    a whole number; otherwise the float type of the same family)."""
    whole = float(v).is_integer()
    if num == 'int':
        return int(v) if whole else float(v)
    if num == 'npfloat':
        return _np().float64(v)
    if num == 'npint':
        return _np().int64(v) if whole else _np().float64(v)
    return float(v)


def _container(vals, kind):
    if kind == 'tuple':
        return tuple(vals)
    if kind == 'ndarray':
        return _np().array([float(v) for v in vals], dtype=float)
    return list(vals)


def _name(s):
    return NONE if s is None else s


def _state(obj):
    d = obj.to_dict()
    return (list(obj.intervals), list(obj.slopes), list(d['intercepts']))


def _state_ev(ev, obj, extra=None):
    iv, sl, ic = _state(obj)
    e = {'ev': ev, 'iv': [to_dec(v) for v in iv], 'sl': [to_dec(v) for v in sl],
         'ic': [to_dec(v) for v in ic], 'ni': _name(obj.name_i), 'nj': _name(obj.name_j), 'nm': _name(obj.name)}
    if extra:
        e.update(extra)
    return e


def _eval_points(intervals, ctr):
    """Coverages at which the function is evaluated after a call: 0, the breakpoints, the midpoints, 1, beyond
    the last breakpoint (and beyond 1), and the doubles adjacent to two of the breakpoints.  With more than three
    breakpoints every other breakpoint/midpoint is taken, alternating from call to call (ctr is odd/even in
    turn), so that consecutive calls of one history cover all of them.  [(x, kinds)]"""
    np = _np()
    raw = [float(v) for v in intervals]
    iv = sorted(set(raw))
    thin = len(iv) > 3
    pts = [(0.0, {'zero'})]
    for j, a in enumerate(iv):
        if thin and (j + ctr) % 2:
            continue
        k = {'on'}
        if raw.count(a) > 1:
            k.add('on_duplicate')
        pts.append((a, k))
    for j, (a, b) in enumerate(zip(iv, iv[1:])):
        if thin and (j + ctr) % 2 == 0:
            continue
        pts.append(((a + b) / 2, {'between'}))
    pts.append((1.0, {'one'}))
    pts.append((iv[-1] + 0.125, {'beyond_last'}))
    if ctr % 4 < 2:
        pts.append((2.0 if ctr % 4 else 1.0 + 2.0 ** -20, {'beyond_one'}))
    a = iv[ctr % len(iv)]
    # (above 0 the next double is a denormal, which carries no relative precision: the smallest power of two
    # that keeps slope * x / (R T) a normal double stands in for it)
    pts.append((float(np.nextafter(a, 4.0)) if a > 0.0 else 2.0 ** -1000, {'adj_above'}))
    b = iv[(ctr // 3) % len(iv)]
    if b > 0.0:
        pts.append((float(np.nextafter(b, -1.0)), {'adj_below'}))
    out = []
    for x, k in pts:
        if x == 0.0:
            k = k | {'zero'}
        if x == 1.0:
            k = k | {'one'}
        if x > iv[-1]:
            k = k | {'beyond_last'}
        if x > 1.0:
            k = k | {'beyond_one'}
        out.append((x, k))
    return out


def _call(fn, form, x, T):
    if form == 'kw':
        return fn(x=x, T=T)
    if form == 'pos':
        return fn(x, T)
    if form == 'defT':
        return fn(x=x)
    if form == 'defx':
        return fn(T=T)
    return fn()


def _eval_events(obj, ctr, cnt):
    """One 'eval' line per coverage (every getter at that coverage and one temperature; temperature, argument
    types and call form rotate with ctr) and one 'dim' line (dimensional getters in one unit)."""
    from pmutt import constants as c
    evs = []
    pts = _eval_points(obj.intervals, ctr)
    R = to_dec(c.R('kcal/mol/K'))
    for j, (x, kinds) in enumerate(pts):
        r = ctr + j
        ttag, Tv, ttyp = T_LIST[r % len(T_LIST)]
        if j == 0:                   # the coverage 0: also through the default of x
            form = ('defx', 'none', 'kw')[r % 3]
        else:
            form = ('kw', 'pos', 'defT')[r % 3]
        whole = float(x).is_integer()
        xtyp = (('float', 'int', 'npfloat', 'npint') if whole else ('float', 'npfloat', 'float', 'npfloat'))[(r // 3) % 4]
        xa, Ta = _cast(x, xtyp), _cast(Tv, ttyp)
        if form in ('defT', 'none'):
            Tv, ttag = T0, None
        if form in ('defx', 'none'):
            xtyp = None
        vals = {'U': _call(obj.get_UoRT, form, xa, Ta), 'H': _call(obj.get_HoRT, form, xa, Ta),
                'G': _call(obj.get_GoRT, form, xa, Ta), 'F': _call(obj.get_FoRT, form, xa, Ta),
                'S': obj.get_SoR(), 'Cp': obj.get_CpoR(), 'Cv': obj.get_CvoR()}
        e = {'ev': 'eval', 'x': to_dec(x), 'T': to_dec(Tv), 'R': R, 'form': form}
        for k, v in vals.items():
            e[k] = to_dec(v)
        evs.append(e)
        for k in kinds:
            cnt['x_' + k] = cnt.get('x_' + k, 0) + 1
        if xtyp:
            cnt['xtype_' + xtyp] = cnt.get('xtype_' + xtyp, 0) + 1
        if ttag:
            cnt[ttag] = cnt.get(ttag, 0) + 1
        cnt['form_' + form] = cnt.get('form_' + form, 0) + 1
    # dimensional getters of _ModelBase: one unit per call site, rotating through the whole table
    u = UNITS[ctr % len(UNITS)]
    x, _ = pts[1 + (ctr // 2) % (len(pts) - 1)]
    ttag, Tv, ttyp = T_LIST[(ctr // 5) % len(T_LIST)]
    Ta = _cast(Tv, ttyp)
    tform = ('kwT', 'posT', 'defT')[ctr % 3]
    vals = {}
    for q in 'UHGF':
        fn = getattr(obj, 'get_' + q)
        if tform == 'kwT':
            vals[q] = fn(units=u, T=Ta, x=x)
        elif tform == 'posT':
            vals[q] = fn(u, Ta, x=x)
        else:
            vals[q] = fn(u, x=x)
    vals['S'] = obj.get_S(u + '/K')
    vals['Cp'] = obj.get_Cp(units=u + '/K')
    vals['Cv'] = obj.get_Cv(u + '/K')
    e = {'ev': 'dim', 'x': to_dec(x), 'T': to_dec(T0 if tform == 'defT' else Tv), 'units': u}
    for k, v in vals.items():
        e[k] = to_dec(v)
    evs.append(e)
    cnt['dim_' + u] = cnt.get('dim_' + u, 0) + 1
    cnt['dim_' + tform] = cnt.get('dim_' + tform, 0) + 1
    return evs


def _frozen_now(who, ref):
    """(state, evaluator) of something left behind.  A serialised record is evaluated through a fresh load of a
    deep copy (which cannot touch the record)."""
    import copy
    from pmutt.mixture.cov import PiecewiseCovEffect
    if who == 'dict':
        st = (list(ref['intervals']), list(ref['slopes']), list(ref['intercepts']))
        return st, (lambda: PiecewiseCovEffect.from_dict(copy.deepcopy(ref)))
    return _state(ref), (lambda: ref)


def execute(case):
    """Run one history through the real object.  Returns (events, mismatches, counters) where mismatches lists
    S->C disagreements with the TLC-computed states.  When the library raises on a valid history what was
    recorded up to that call is kept (and judged) and the exception is one more mismatch ('raised')."""
    events, mism, cnt = [], [], {}
    try:
        _execute(case, events, mism, cnt)
    except core.MachineryError:
        raise
    except Exception as ex:
        mism.append({'step': -1, 'raised': '%s: %s' % (type(ex).__name__, ex), 'after_events': len(events)})
    return events, mism, cnt


def _execute(case, events, mism, cnt):
    import json as _json
    from pmutt.mixture.cov import PiecewiseCovEffect
    from pmutt.io.json import pmuttEncoder, json_to_pmutt
    grid = case['kind'] == 'grid'
    sc = (1.0 / float(case.get('q', Q))) if grid else 1.0
    ops = case['ops']
    ctor = case.get('ctor', {})
    num = ctor.get('num', 'float')
    ctr = int(case.get('rot', 0))
    obj = None
    frozen = []                      # [who, ref, state, fx, U]
    grid_binding = True
    evaluated = False
    n_edits = 0

    def hit(k):
        cnt[k] = cnt.get(k, 0) + 1

    def leave(who, ref, fx):
        st, getter = _frozen_now(who, ref)
        frozen.append([who, ref, st, fx, float(getter().get_UoRT(x=fx, T=T0))])

    for k, op in enumerate(ops):
        act = op['act']
        extra = {}
        if act == 'construct':
            ni, nj, nm = ctor.get('names', ['A', 'B', 'AB'])
            cont = ctor.get('container', 'list')
            ivs = [_cast(v * sc, num) for v in op['iv0']]
            sls = [_cast(s, num) for s in op['sl0']]
            aiv, asl = _container(ivs, cont), _container(sls, cont)
            if ctor.get('positional'):
                obj = (PiecewiseCovEffect(ni, nj, aiv, asl) if ctor.get('name_omitted')
                       else PiecewiseCovEffect(ni, nj, aiv, asl, nm))
                hit('ctor_positional')
            else:
                kw = dict(name_i=ni, name_j=nj, intervals=aiv, slopes=asl)
                if not ctor.get('name_omitted'):
                    kw['name'] = nm
                obj = PiecewiseCovEffect(**kw)
                hit('ctor_keyword')
            if ctor.get('name_omitted'):
                nm = None
                hit('name_omitted')
            elif nm == '':
                hit('name_empty')
            else:
                hit('name_given')
            extra = {'aiv': [to_dec(v) for v in ivs], 'asl': [to_dec(v) for v in sls],
                     'ani': _name(ni), 'anj': _name(nj), 'anm': _name(nm)}
            hit('init_len_%d' % len(ivs))
            hit('container_' + cont)
            hit('num_' + num)
            if len(set(float(v) for v in ivs)) < len(ivs):
                hit('init_duplicate')
            if len(ivs) > 1 and float(ivs[-1]) == 1.0:
                hit('init_last_is_one')
            if ctor.get('sibling') and cont == 'list':
                # a second object constructed from the very same argument lists: it must not notice the edits
                sib = PiecewiseCovEffect(nj, ni, aiv, asl)
                leave('sibling', sib, 0.5 * (float(max(ivs)) + 1.0))
                hit('sibling')
        elif act == 'insert':
            x, s = _cast(op['x'] * sc, op.get('xt', num)), _cast(op['s'], op.get('st', num))
            cur = [float(v) for v in obj.intervals]
            if float(x) in cur:
                hit('insert_equal')
                if float(x) == 0.0:
                    hit('insert_equal_zero')
                if float(x) == cur[-1]:
                    hit('insert_equal_last')
            elif float(x) > cur[-1]:
                hit('insert_above_last')
            else:
                hit('insert_between')
            if float(x) == 1.0:
                hit('insert_at_one')
            if float(s) in [float(v) for v in obj.slopes]:
                hit('insert_repeated_slope')
            if float(s) == 0.0:
                hit('insert_zero_slope')
            if isinstance(x, int):
                hit('insert_x_int')
            if type(x).__module__ == 'numpy':
                hit('insert_x_np')
            obj.insert(x, s)
            extra = {'x': to_dec(x), 's': to_dec(s)}
            n_edits += 1
        elif act in ('pop', 'pop0'):
            i = int(op['x']) if act == 'pop' else 0
            n = len(obj.intervals)
            sl_before = [float(v) for v in obj.slopes]
            ia = _np().int64(i) if op.get('it') == 'npint' else i
            raised = False
            try:
                obj.pop(ia)
            except ValueError:
                raised = True
            extra = {'i': i, 'raised': raised}
            act = 'pop'
            n_edits += 1
            if i == 0:
                hit('pop_zero_refused')
                if n == 1:
                    hit('pop_zero_single')
            else:
                pi = i + n if i < 0 else i
                hit('pop_last' if pi == n - 1 else 'pop_middle')
                if i < 0:
                    hit('pop_negative')
                if 0 < pi < n and sl_before[pi] in sl_before[:pi]:
                    hit('pop_repeated_slope')
                if len(obj.intervals) == 1:
                    hit('pop_to_single')
            if op.get('it') == 'npint':
                hit('pop_npindex')
        elif act == 'reload':
            # what is serialised stays behind and must never change again (frozen events): the object itself, and
            # for the in-memory route the record and a second object loaded from the same record
            fx = 0.5 * (float(max(obj.intervals)) + 1.0)
            via = op.get('via', 'dict')
            if via == 'json' and any(type(v).__name__ == 'int64' for v in list(obj.intervals) + list(obj.slopes)):
                via = 'dict'         # json.dumps has no encoding for numpy integers (pmuttEncoder: property C11)
            orig = obj
            if via == 'json':
                obj = _json.loads(_json.dumps(orig, cls=pmuttEncoder), object_hook=json_to_pmutt)
                leave('orig', orig, fx)
            else:
                d = orig.to_dict()
                obj = PiecewiseCovEffect.from_dict(d)
                twin = PiecewiseCovEffect.from_dict(d)
                leave('orig', orig, fx)
                leave('dict', d, fx)
                leave('twin', twin, fx)
            hit('reload_' + via)
            if op.get('final'):
                hit('reload_final')
        else:
            raise core.MachineryError('unknown op %r' % (op,))
        if act in ('insert', 'pop'):
            if evaluated:
                hit('eval_after_eval_then_edit')
            if any(f[0] == 'orig' for f in frozen):
                hit('reload_then_edit')
        events.append(_state_ev(act, obj, extra))
        # what was left behind is looked at again after every edit and at the end of the history
        for (who, ref, (siv, ssl, sic), fx, sU) in (frozen if act != 'reload' or k == len(ops) - 1 else ()):
            if ref is obj:
                continue
            (iv2, sl2, ic2), getter = _frozen_now(who, ref)
            try:
                U2 = float(getter().get_UoRT(x=fx, T=T0))
            except Exception:
                U2 = float('inf')
            events.append({'ev': 'frozen', 'who': who,
                           'iv': [to_dec(v) for v in iv2], 'sl': [to_dec(v) for v in sl2],
                           'ic': [to_dec(v) for v in ic2], 'siv': [to_dec(v) for v in siv],
                           'ssl': [to_dec(v) for v in ssl], 'sic': [to_dec(v) for v in sic],
                           'U': to_dec(U2) if core.finite(U2) else [1, 99], 'sU': to_dec(sU)})
            if act in ('insert', 'pop'):
                hit('frozen_' + who)
        # An insertion at an existing breakpoint may legitimately go before or after it (both keep the
        # lists ascending and paired; the property does not choose): from that step on the expected
        # states of the deterministic model are no longer binding, the relation InsertOK (trace spec) is.
        if grid and act == 'insert' and k > 0 and op['x'] in ops[k - 1].get('iv', []):
            grid_binding = False
        if grid and grid_binding and 'iv' in op:
            iv, sl, ic = _state(obj)
            exp = ([v * sc for v in op['iv']], [float(v) for v in op['sl']],
                   [v * sc for v in op['ic']])
            if (iv, sl, ic) != exp:
                mism.append({'step': k, 'op': op, 'expected': exp,
                             'got': ([float(v) for v in iv], [float(v) for v in sl], [float(v) for v in ic])})
        if case.get('eval', True):
            events.extend(_eval_events(obj, ctr, cnt))
            evaluated = True
            ctr += 7
    if 1 <= n_edits <= 6:
        hit('edits_%d' % n_edits)


def _ctor_for(rnd, ops):
    """How the constructor is called.  A tuple / ndarray argument is documented nowhere as editable (the class
    documents lists; insert/pop are list methods): those containers are only chosen when the first edit comes
    after a reload (which always yields lists)."""
    first_edit = next((k for k, o in enumerate(ops) if o['act'] in ('insert', 'pop', 'pop0')), None)
    first_reload = next((k for k, o in enumerate(ops) if o['act'] == 'reload'), None)
    editable_later = first_edit is None or (first_reload is not None and first_reload < first_edit)
    cont = rnd.choice(CONTAINERS) if editable_later else 'list'
    names = list(rnd.choice(NAMES))
    return {'container': cont, 'num': rnd.choice(NUMS), 'names': names,
            'name_omitted': names[2] is None, 'positional': rnd.random() < 0.4,
            'sibling': cont == 'list' and rnd.random() < 0.3}


def _beh_to_case(h, cid, rnd, q=Q):
    ops = []
    for r in h:
        op = {'act': r['act'], 'x': r['x'], 's': r['s'], 'iv': r['iv'], 'sl': r['sl'],
              'ic': r['ic']}
        if r['act'] == 'construct':
            op['iv0'], op['sl0'] = r['iv'], r['sl']
        if r['act'] == 'pop' and rnd.random() < 0.25:
            op['it'] = 'npint'
        ops.append(op)
    # serialise and reload after every history
    ops.append({'act': 'reload', 'via': rnd.choice(['dict', 'json']), 'final': True})
    return {'cid': cid, 'kind': 'grid', 'q': q, 'ops': ops, 'ctor': _ctor_for(rnd, ops),
            'rot': rnd.randrange(1 << 16)}


def _random_case(rnd, cid, k):
    """A real-valued history: 1-6 initial breakpoints in [0,1] (k rotates the length), 1-6 edits (k rotates the
    count) with reloads in between and one at the end."""
    n0 = 1 + k % 6
    n_edits = 1 + (k // 6) % 6
    ivs = [0.0] + sorted(round(rnd.uniform(0.01, 0.99), rnd.choice([2, 3, 6])) for _ in range(n0 - 1))
    if n0 > 1 and rnd.random() < 0.3:
        ivs[-1] = 1.0                                        # the upper end of the coverage range
    if n0 > 2 and rnd.random() < 0.15:
        j = rnd.randrange(1, n0 - 1)
        ivs[j] = ivs[j + 1]                                  # ascending, not strictly
    mode = rnd.randrange(4)
    two = [rnd.uniform(-40, 40), rnd.uniform(-40, 40)]

    def slope():
        if mode == 0:
            return rnd.uniform(-40, 40)
        if mode == 1:
            return float(rnd.choice([-3, -1, 0, 2, 5]))      # whole numbers, repeated, zero
        if mode == 2:
            return rnd.choice(two)                           # the same slope on several segments
        return rnd.choice([-1, 1]) * 10 ** rnd.uniform(-4, 4)
    ops = [{'act': 'construct', 'iv0': ivs, 'sl0': [slope() for _ in ivs]}]
    cur = list(ivs)
    edits = 0
    if rnd.random() < 0.25:
        ops.append({'act': 'reload', 'via': rnd.choice(['dict', 'json'])})
    while edits < n_edits:
        r = rnd.random()
        if r < 0.55 or (len(cur) == 1 and r < 0.85):
            m = rnd.random()
            if m < 0.12:
                x = min(1.0, max(cur) + rnd.uniform(0.0, 0.3))   # at/above the last breakpoint, within [0,1]
            elif m < 0.2:
                x = 1.0
            elif m < 0.35:
                x = rnd.choice(cur)                              # equal to an existing breakpoint
            elif m < 0.4:
                x = 0.0                                          # equal to the first breakpoint
            elif m < 0.45:
                x = max(cur)                                     # equal to the last breakpoint
            else:
                x = rnd.uniform(0.0, 1.0)
            op = {'act': 'insert', 'x': x, 's': slope()}
            if rnd.random() < 0.3:
                op['xt'] = rnd.choice(NUMS)
            if rnd.random() < 0.3:
                op['st'] = rnd.choice(NUMS)
            ops.append(op)
            cur.append(x)
            cur.sort()
        else:
            n = len(cur)
            m = rnd.random()
            if m < 0.25 or n == 1:
                i = 0
            elif m < 0.5:
                i = -rnd.randint(1, n - 1)                       # from the end; -n (the first pair) is not offered
            elif m < 0.65:
                i = n - 1
            else:
                i = rnd.randint(1, n - 1)
            op = {'act': 'pop' if i else 'pop0', 'x': i}
            if rnd.random() < 0.3:
                op['it'] = 'npint'
            ops.append(op)
            if i:
                cur.pop(i)
        edits += 1
        if rnd.random() < 0.2:
            ops.append({'act': 'reload', 'via': rnd.choice(['dict', 'json'])})
    ops.append({'act': 'reload', 'via': rnd.choice(['dict', 'json']), 'final': True})
    return {'cid': cid, 'kind': 'real', 'ops': ops, 'seed': rnd.randrange(1 << 30),
            'ctor': _ctor_for(rnd, ops), 'rot': rnd.randrange(1 << 16)}


def _register(ctx, module, cfg, r):
    """What Ctx.model records, for a TLC run that was started on a thread."""
    ctx.count('states', r.distinct)
    ctx.count('transitions', r.states)
    ctx.coverage.setdefault('models', []).append(
        {'module': module, 'cfg': cfg, 'distinct_states': r.distinct, 'states_generated': r.states,
         'depth': r.depth, 'ok': r.ok, 'violated': r.violated, 'wall_s': round(r.wall, 1)})


def _behaviours(r, what, need_ok=False):
    if need_ok and not r.ok:
        raise core.MachineryError('%s failed:\n%s' % (what, r.out[-2000:]))
    behs = [core.parse_tla(p)[1] for p in r.prints() if core.tagged(p, 'BEH')]
    if not behs:
        raise core.MachineryError('%s produced no behaviours:\n%s' % (what, r.out[-2000:]))
    return behs


def run(ctx):
    import concurrent.futures as cf
    ctx.coverage['rule'] = (
        'a case is one edit history (construct, then insert/pop/reload steps, a reload at the end) of a '
        'PiecewiseCovEffect together with the form of every call (container and number types, names, '
        'positional/keyword/defaulted arguments, coverage and temperature types, unit of the dimensional '
        'getters); grid cases are complete TLC behaviours of CovEffect.tla on a dyadic grid (state equality '
        'after each call), real cases are random real-valued histories; every case is also judged line by '
        'line by Trace_CovEffect.tla; non-trivial = contains at least one insert or pop; distinct by the '
        'operation sequence')
    cases = []
    if ctx.replay_case is not None:
        cases = [ctx.replay_case['case']]
    else:
        rnd = random.Random(ctx.seed)
        nsim6 = ctx.pick(250, 3000)
        jobs = {
            # (D) design model: the main instance gets most of the cores, everything else is small
            'main': ('MC_CovEffect', 'MC_CovEffect', dict(workers=max(2, core.NCPU - 4))),
            'long': ('MC_CovEffect', 'MC_CovEffect_long', dict(workers=2)),
            'argmax': ('MC_CovEffect', 'MC_CovEffect_argmax', dict(workers=1)),
            'alias': ('MC_CovEffect', 'MC_CovEffect_alias', dict(workers=1)),
            'dictalias': ('MC_CovEffect', 'MC_CovEffect_dictalias', dict(workers=1)),
            'ctoralias': ('MC_CovEffect', 'MC_CovEffect_ctoralias', dict(workers=1)),
            # (S->C) behaviours
            'beh': ('MC_CovEffect', 'MC_CovEffect_beh', dict(workers=1, timeout=900)),
            'sim6': ('MC_CovEffect', 'MC_CovEffect_sim6',
                     dict(workers=1, timeout=1500,
                          extra=['-simulate', 'num=%d' % nsim6, '-depth', '7', '-seed', str(ctx.seed + 2)])),
        }
        if not ctx.quick:
            jobs['sim'] = ('MC_CovEffect', 'MC_CovEffect_sim',
                           dict(workers=1, timeout=1500,
                                extra=['-simulate', 'num=3000', '-depth', '9', '-seed', str(ctx.seed + 1)]))
        with cf.ThreadPoolExecutor(max_workers=len(jobs)) as ex:
            futs = {k: ex.submit(core.run_tlc, m, c, **kw) for k, (m, c, kw) in jobs.items()}
            res = {k: f.result() for k, f in futs.items()}
        for k in ('main', 'long'):
            _register(ctx, jobs[k][0], jobs[k][1], res[k])
            if not res[k].ok:
                raise core.MachineryError('design model %s failed:\n%s' % (jobs[k][1], res[k].out[-4000:]))
        for k, what in (('argmax', 'the numpy.argmax insertion rule'),
                        ('alias', 'a reload that shares its lists with the original'),
                        ('dictalias', 'a reload that shares its lists with the serialised record'),
                        ('ctoralias', 'a constructor that shares its argument lists with a second object')):
            _register(ctx, jobs[k][0], jobs[k][1], res[k])
            if res[k].ok or res[k].violated is None:
                raise core.MachineryError('the %s variant should be rejected by the design model' % k)
            ctx.notes.append('design model rejects %s: %s violated' % (what, res[k].violated))
        behs = _behaviours(res['beh'], 'behaviour generation', need_ok=True)
        ctx.coverage['tlc_behaviours'] = len(behs)
        sim6 = _behaviours(res['sim6'], 'simulation (6 edits)')
        ctx.coverage['tlc_simulated_behaviours_6_edits'] = len(sim6)
        if ctx.quick:
            rnd.shuffle(behs)
            behs = behs[:1200]
        for k, h in enumerate(behs):
            cases.append(_beh_to_case(h, 'g%d' % k, rnd))
        for k, h in enumerate(sim6):
            cases.append(_beh_to_case(h, 's%d' % k, rnd, q=8.0))
        if not ctx.quick:
            sim = _behaviours(res['sim'], 'simulation')
            ctx.coverage['tlc_simulated_behaviours'] = len(sim)
            for k, h in enumerate(sim):
                cases.append(_beh_to_case(h, 'S%d' % k, rnd))
        for k in range(ctx.pick(700, 8000)):
            cases.append(_random_case(rnd, 'r%d' % k, k + ctx.seed))
    import time
    t_tlc = time.time()
    results = core.pmap(execute, cases)
    t_exec = time.time()
    traces = []
    totals = {}
    for tid, (case, (events, mism, cnt)) in enumerate(zip(cases, results)):
        ctx.evaluated()
        for k, v in cnt.items():
            totals[k] = totals.get(k, 0) + v
        sig = json.dumps([[o['act'], o.get('x'), o.get('s'), o.get('iv0')] for o in case['ops']])
        if any(o['act'] in ('insert', 'pop') for o in case['ops']):
            ctx.nontrivial(sig)
        for m in mism:
            clause = 'Raises' if 'raised' in m else 'ReplayState'
            ctx.violation(clause, case, tags={'kind': case['kind']}, detail=m)
        traces.append((tid, events))
        if tid % 997 == 0:
            ctx.sample({'ops': [{k: v for k, v in o.items() if k in ('act', 'x', 's', 'iv0', 'sl0', 'via', 'it')}
                                for o in case['ops']], 'kind': case['kind'], 'ctor': case.get('ctor')})
    ctx.coverage['input_classes'] = {k: totals.get(k, 0) for k in VACUITY}
    if ctx.replay_case is None:
        empty = [k for k in VACUITY if not totals.get(k)]
        raised = sum(1 for (_, m, _) in results if any('raised' in x for x in m))
        if empty and not raised:
            raise core.MachineryError('input classes never exercised in this run: %s' % ', '.join(empty))
        if empty:
            # histories cut short by a library exception (each one a Raises violation) do not reach their classes
            ctx.notes.append('%d histories raised; input classes not reached: %s' % (raised, ', '.join(empty)))
    fails, stats = core.validate_traces('Trace_CovEffect', 'Trace', traces)
    ctx.count('traces_validated_against_impl', len(traces))
    ctx.coverage['phase_wall_s'] = {'tlc_models_and_behaviours': round(t_tlc - ctx.t0, 1),
                                    'execution': round(t_exec - t_tlc, 1),
                                    'trace_validation': round(time.time() - t_exec, 1)}
    ctx.coverage['trace_lines'] = stats['lines']
    by_case = {}
    for tid, idx, clause in fails:
        ev = traces[tid][1][idx]
        by_case.setdefault((tid, clause, ev.get('who', ev['ev'])), []).append(idx)
    for (tid, clause, who), idxs in sorted(by_case.items()):
        ev = traces[tid][1][idxs[0]]
        ctx.violation(clause, cases[tid], tags={'kind': cases[tid]['kind'], 'who': who},
                      detail={'event_indices': idxs[:10],
                              'first_event': {k: v for k, v in ev.items() if k in ('ev', 'who', 'x', 'T', 'units', 'form', 'i')}})
    ctx.assume('grid replays rely on dyadic breakpoints and integer slopes being exact in IEEE doubles')
    ctx.assume('Dec arithmetic: clauses on real-valued histories hold to ~1e-6 relative of the largest operand')
    ctx.assume('the unit factors of the dimensional clauses are the SI definitions written in Trace_CovEffect.tla; '
               'the ratios of the tabulated gas constants agree with them to 1.3e-8')


if __name__ == '__main__':
    core.main('C17', 'model_checking', run)
