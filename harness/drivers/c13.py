"""C13 - pressure and coverage corrections are added exactly once per attached model.

(D)   spec/MiscModels.tla (lifecycle of misc_models lists: construct / sibling / copy /
      deepcopy / reload / attach) checked exhaustively with MC_MiscModels.cfg; four
      configurations that switch on one trait of the pinned implementation each must be
      rejected.  spec/MiscEval.tla (bare + sum over attached models, per temperature, with
      name_j routing) checked at constant level with MC_MiscEval.cfg; the pinned Shomate
      algorithm must be rejected (MC_MiscEval_shomate.cfg).
(S->C) every evaluation case of MC_MiscEval (family x list of models in every order x T shape
      x conditions, totals computed by TLC on a dyadic grid) is replayed into the real
      classes and compared by equality wherever every contribution is dyadic; every TLC
      behaviour of MC_MiscModels_beh.cfg is stepped through the real classes and the kinds
      carried by every live species are compared after each call.
(C->S) all those runs plus random real-valued lifecycles are recorded as NDJSON and judged
      line by line by spec/Trace_MiscModels.tla.
"""
import json
import math
import random
import warnings

from harness import core
from harness.core import to_dec

PADJ_DICT = {'class': "<class 'pmutt.empirical.GasPressureAdj'>"}
QS = ('Cp', 'H', 'S', 'G')
GETTER = {'Cp': 'get_CpoR', 'H': 'get_HoRT', 'S': 'get_SoR', 'G': 'get_GoRT'}
A_OF = {'Cp': 1.0, 'H': 2.0, 'S': 3.0}

_LIB = None
DEFAULT_NAMES = {'A': 'A', 'B': 'B', 'C': 'C', 'D': 'D'}
NAMES = dict(DEFAULT_NAMES)     # abstract species (A = the carrier, B / C = affecting species, D = not attached) -> real names of this case


def _lib():
    """Import pmutt, define the harness probe models, extend the JSON class registry with
    them (rebinding pmutt.io.json.type_to_class in this process only)."""
    global _LIB
    if _LIB is not None:
        return _LIB
    import pmutt.io.json as pj
    from pmutt import _ModelBase
    from pmutt.empirical import GasPressureAdj
    from pmutt.empirical.nasa import Nasa, Nasa9, SingleNasa9
    from pmutt.empirical.shomate import Shomate
    from pmutt.mixture.cov import PiecewiseCovEffect
    from pmutt.empirical.references import Reference
    from pmutt.statmech import StatMech
    from pmutt.statmech.vib import HarmonicVib
    from pmutt import constants as pc

    class ProbeTP(_ModelBase):
        """Harness probe without name_j: value (8 a + (T/256)(4 P)) / 64."""

        def __init__(self, tag='P1'):
            self.tag = tag

        def _v(self, a, T, P):
            return (8.0 * a + (T / 256.0) * (4.0 * P)) / 64.0

        def get_CpoR(self, T, P=1.0):
            return self._v(1.0, T, P)

        def get_HoRT(self, T, P=1.0):
            return self._v(2.0, T, P)

        def get_SoR(self, T, P=1.0):
            return self._v(3.0, T, P)

        def get_GoRT(self, T, P=1.0):
            return self.get_HoRT(T=T, P=P) - self.get_SoR(T=T, P=P)

        def to_dict(self):
            return {'class': str(self.__class__), 'tag': self.tag}

    class ProbeTx(_ModelBase):
        """Harness probe routed by name_j: value scale (a + (T/256)(1 + 4 x)) / 64."""

        def __init__(self, name_j, scale):
            self.name_j = name_j
            self.scale = scale

        def _v(self, a, T, x):
            return self.scale * (a + (T / 256.0) * (1.0 + 4.0 * x)) / 64.0

        def get_CpoR(self, T, x=0.0):
            return self._v(1.0, T, x)

        def get_HoRT(self, T, x=0.0):
            return self._v(2.0, T, x)

        def get_SoR(self, T, x=0.0):
            return self._v(3.0, T, x)

        def get_GoRT(self, T, x=0.0):
            return self.get_HoRT(T=T, x=x) - self.get_SoR(T=T, x=x)

        def to_dict(self):
            return {'class': str(self.__class__), 'name_j': self.name_j, 'scale': self.scale}

    orig = pj.type_to_class

    def type_to_class(class_str):
        if class_str == str(ProbeTP):
            return ProbeTP
        if class_str == str(ProbeTx):
            return ProbeTx
        return orig(class_str)

    pj.type_to_class = type_to_class

    class L:
        pass

    L.pj = pj
    L.GasPressureAdj, L.Nasa, L.Nasa9, L.SingleNasa9 = GasPressureAdj, Nasa, Nasa9, SingleNasa9
    L.Shomate, L.Cov, L.ProbeTP, L.ProbeTx = Shomate, PiecewiseCovEffect, ProbeTP, ProbeTx
    L.Reference, L.StatMech, L.HarmonicVib, L.const = Reference, StatMech, HarmonicVib, pc
    _LIB = L
    return L


# --------------------------------------------------------------------------
# species, models, projection
# --------------------------------------------------------------------------
GRID_COEF = {'Nasa': {'a_low': [0.0, 2.0 ** -9, 0.0, 0.0, 0.0, 256.0, 3.0],
                      'a_high': [0.0, 2.0 ** -9, 0.0, 0.0, 0.0, 256.0, 3.0]},
             'Nasa9': {'a_low': [0.0, 0.0, 0.0, 2.0 ** -9, 0.0, 0.0, 0.0, 256.0, 3.0],
                       'a_high': [0.0, 0.0, 0.0, 2.0 ** -9, 0.0, 0.0, 0.0, 256.0, 3.0]},
             'Shomate': {'a': [0.0] * 8}}
GRID_SLOPES = {'B': [8.0, -4.0, 2.0], 'C': [-16.0, 6.0, 1.0]}
T_LOW, T_MID, T_HIGH = 100.0, 600.0, 5000.0


EMPIRICAL = ('Nasa', 'Nasa9', 'Shomate')
GRID_COEF['StatMech'] = {'wn': [500.0, 1200.0]}
GRID_COEF['Reference'] = {}
DIM_UNITS = ('J/mol/K', 'kJ/mol/K', 'L kPa/mol/K', 'cm3 kPa/mol/K', 'm3 Pa/mol/K', 'cm3 MPa/mol/K',
             'm3 bar/mol/K', 'L bar/mol/K', 'L torr/mol/K', 'cal/mol/K', 'kcal/mol/K', 'L atm/mol/K',
             'cm3 atm/mol/K', 'eV/K', 'Eh/K', 'Ha/K')           # every key of pmutt.constants.R


def _mk(fam, coef, via='direct', **kw):
    """Build a carrier of misc_models.  via='from_data' goes through the family's alternative
    constructor (fit of data sampled from the directly constructed bare polynomial)."""
    import numpy as np
    L = _lib()
    if fam == 'StatMech':                                  # no phase / add_gas_P_adj there
        kw = {k: v for k, v in kw.items() if k in ('misc_models', 'elements')}
        return L.StatMech(name=NAMES['A'], vib_model=L.HarmonicVib(vib_wavenumbers=list(coef['wn'])), **kw)
    if fam == 'Reference':
        return L.Reference(name=NAMES['A'], T_ref=298.15, HoRT_ref=1.0, **kw)
    if via == 'from_data':
        src = _mk(fam, coef, phase=None, misc_models=None)
        Td = np.linspace(T_LOW, T_HIGH, 60)
        cp = np.array([_flat(src.get_CpoR(T=float(t)))[0] for t in Td])
        h0, s0 = _flat(src.get_HoRT(T=298.15))[0], _flat(src.get_SoR(T=298.15))[0]
        cls = {'Nasa': L.Nasa, 'Nasa9': L.Nasa9, 'Shomate': L.Shomate}[fam]
        return cls.from_data(name=NAMES['A'], T=Td, CpoR=cp, T_ref=298.15, HoRT_ref=h0, SoR_ref=s0, **kw)
    if fam == 'Nasa':
        return L.Nasa(name=NAMES['A'], T_low=T_LOW, T_mid=T_MID, T_high=T_HIGH,
                      a_low=list(coef['a_low']), a_high=list(coef['a_high']), **kw)
    if fam == 'Nasa9':
        return L.Nasa9(name=NAMES['A'], nasas=[
            L.SingleNasa9(T_low=T_LOW, T_high=T_MID, a=np.array(coef['a_low'])),
            L.SingleNasa9(T_low=T_MID, T_high=T_HIGH, a=np.array(coef['a_high']))], **kw)
    if fam == 'Shomate':
        return L.Shomate(name=NAMES['A'], T_low=T_LOW, T_high=T_HIGH, a=np.array(coef['a']), **kw)
    raise core.MachineryError('unknown family %r' % (fam,))


def _twin(obj, fam):
    """The same polynomial / modes without any attached model (built from the object's own
    coefficients, so it also fits species that came out of from_data)."""
    import copy
    import numpy as np
    L = _lib()
    if fam == 'Nasa':
        return L.Nasa(name=NAMES['A'], T_low=obj.T_low, T_mid=obj.T_mid, T_high=obj.T_high,
                      a_low=np.array(obj.a_low), a_high=np.array(obj.a_high), elements=obj.elements)
    if fam == 'Nasa9':
        return L.Nasa9(name=NAMES['A'], nasas=[L.SingleNasa9(T_low=n.T_low, T_high=n.T_high, a=np.array(n.a))
                                        for n in obj.nasas], elements=obj.elements)
    if fam == 'Shomate':
        return L.Shomate(name=NAMES['A'], T_low=obj.T_low, T_high=obj.T_high, a=np.array(obj.a),
                         units=obj.units, elements=obj.elements)
    if fam == 'StatMech':
        return L.StatMech(name=NAMES['A'], vib_model=copy.deepcopy(obj.vib_model), elements=obj.elements)
    raise core.MachineryError('no twin for family %r' % (fam,))


def _model(kind, slopes, occ=0):
    L = _lib()
    if kind == 'PAdj':
        return L.GasPressureAdj()
    if kind == 'PAdjDict':
        return dict(PADJ_DICT)
    if kind in ('CovB', 'CovC'):
        j = kind[-1]
        sl = list(slopes[j]) if occ == 0 else [v * (-0.5 - 0.25 * occ) for v in slopes[j]]
        return L.Cov(name_i=NAMES['A'], name_j=NAMES[j], intervals=[0.0, 0.3, 0.6], slopes=sl,
                     name=NAMES['A'] + '/' + NAMES[j] + (str(occ) if occ else ''))
    if kind == 'P1':
        return L.ProbeTP()
    if kind == 'P2B':
        return L.ProbeTx(NAMES['B'], 32.0)
    if kind == 'P2C':
        return L.ProbeTx(NAMES['C'], 512.0)
    raise core.MachineryError('unknown model kind %r' % (kind,))


def _route(name_j):
    for r in ('B', 'C'):
        if NAMES[r] == name_j:
            return r
    return '?' + str(name_j)


def _kind(m):
    L = _lib()
    if isinstance(m, L.GasPressureAdj):
        return 'PAdj'
    if isinstance(m, L.Cov):
        return 'Cov' + _route(m.name_j)
    if isinstance(m, L.ProbeTP):
        return 'P1'
    if isinstance(m, L.ProbeTx):
        return 'P2' + _route(m.name_j)
    if isinstance(m, dict):
        return 'dict'
    return 'other'


def _proj(obj):
    mm = obj.misc_models
    if mm is None:
        return []
    return [_kind(m) for m in mm]


def _flat(v):
    import numpy as np
    return [float(x) for x in np.asarray(v, dtype=float).reshape(-1)]


def _call(fn, **kw):
    """Returns (ok, values, exception name)."""
    try:
        with warnings.catch_warnings():
            warnings.simplefilter('ignore')
            return True, _flat(fn(**kw)), ''
    except core.MachineryError:
        raise
    except Exception as ex:              # the library raised on a valid call
        return False, [], '%s' % type(ex).__name__


def _contrib(m, kind, Ts, P, x):
    """The model's own values (Cp, H, S) at every T for coverage x and pressure P,
    obtained by calling the model object directly."""
    out = {'Cp': [], 'H': [], 'S': []}
    for T in Ts:
        if kind == 'PAdj':
            v = (m.get_CpoR(), m.get_HoRT(), m.get_SoR(P=P))
        elif kind in ('CovB', 'CovC'):
            v = (m.get_CpoR(), m.get_HoRT(x=x, T=T), m.get_SoR())
        elif kind == 'P1':
            v = (m.get_CpoR(T=T, P=P), m.get_HoRT(T=T, P=P), m.get_SoR(T=T, P=P))
        else:
            v = (m.get_CpoR(T=T, x=x), m.get_HoRT(T=T, x=x), m.get_SoR(T=T, x=x))
        for q, val in zip(('Cp', 'H', 'S'), v):
            out[q].append(to_dec(val))
    return out


INT_TYPES = ('intarray', 'arange', 'intlist', 'intscalar')


def _typed_T(Ts, scalar, ttype):
    """The temperature argument as the user would pass it.  Integer-typed inputs (int ndarray,
    np.arange, list of ints, scalar int) denote the same temperatures as their float values:
    the bare twin and the per-model terms are always evaluated at float(T)."""
    import numpy as np
    if ttype == 'float':
        return Ts[0] if scalar else np.array(Ts)
    if ttype == 'npfloat':
        return np.float64(Ts[0]) if scalar else np.array(Ts)
    if ttype == 'floatlist':
        return Ts[0] if scalar else list(Ts)
    if ttype == 'tuple':
        return Ts[0] if scalar else tuple(Ts)
    if any(t != int(t) for t in Ts):
        raise core.MachineryError('integer-typed T needs integer temperatures: %r' % (Ts,))
    ints = [int(t) for t in Ts]
    if ttype == 'intscalar':
        if not scalar:
            raise core.MachineryError('intscalar needs a scalar evaluation')
        return ints[0]
    if scalar:
        raise core.MachineryError('%s needs an array evaluation' % ttype)
    if ttype == 'intarray':
        return np.array(ints)
    if ttype == 'intlist':
        return list(ints)
    if ttype == 'arange':
        step = ints[1] - ints[0] if len(ints) > 1 else 1
        arr = np.arange(ints[0], ints[-1] + 1, step)
        if list(arr) != ints:
            raise core.MachineryError('temperatures are not an arange: %r' % (ints,))
        return arr
    raise core.MachineryError('unknown ttype %r' % (ttype,))


def _dec_is_int(d):
    m, e = d
    return e >= 0 or m % (10 ** (-e)) == 0 if -e < 18 else m == 0


def _nonint_contribution(ms):
    """Does some attached model contribute a non-integer value (under the route of its name_j)?"""
    for m in ms:
        k = m['k']
        c = m.get('c0') or (m.get('cB') if k.endswith('B') else m.get('cC'))
        if not c:
            continue
        for q in ('Cp', 'H', 'S'):
            if any(not _dec_is_int(d) for d in c[q]):
                return True
    return False


FLOAT_TYPES = ('float', 'npfloat', 'floatlist', 'tuple')
DIM_GETTER = {'Cp': 'get_Cp', 'H': 'get_H', 'S': 'get_S', 'G': 'get_G'}


def _typed_P(P, ptype):
    import numpy as np
    if ptype == 'float':
        return float(P)
    if ptype == 'npfloat':
        return np.float64(P)
    if P != int(P):
        raise core.MachineryError('integer-typed P needs an integer pressure: %r' % (P,))
    return int(P) if ptype == 'int' else np.int64(int(P))


def _conditions(op):
    """kwargs that carry the coverages, and the coverage each name_j effectively gets: the entry
    '<name_j>_kwargs': {'x': ...} of THAT species, the documented default x = 0 when the
    dictionary has no entry for it.  The dictionary may be partial in every way: entries for all
    affecting species (routed), only B (missingC), none (missingBoth), only the carrier itself
    (ownOnly), the carrier and B (ownAndB), all plus a species that is not attached (extra);
    toplevel: x=xB for every model."""
    xB, xC = float(op['xB']), float(op['xC'])
    xA = float(op.get('xA', 0.45))
    kA, kB, kC, kD = (NAMES[r] + '_kwargs' for r in ('A', 'B', 'C', 'D'))
    form = op.get('xform', 'routed')
    if form == 'routed':
        return {kB: {'x': xB}, kC: {'x': xC}}, xB, xC
    if form == 'toplevel':
        return {'x': xB}, xB, xB
    if form == 'missingC':
        return {kB: {'x': xB}}, xB, 0.0
    if form == 'missingBoth':
        return {}, 0.0, 0.0
    if form == 'ownOnly':
        return {kA: {'x': xA}}, 0.0, 0.0
    if form == 'ownAndB':
        return {kA: {'x': xA}, kB: {'x': xB}}, xB, 0.0
    if form == 'extra':
        return {kD: {'x': xA}, kB: {'x': xB}, kC: {'x': xC}, kA: {'x': xA}}, xB, xC
    raise core.MachineryError('unknown xform %r' % (form,))


def _eval_event(case, objs, op):
    """Evaluate species op['o'] and build the trace event; also returns the raw values."""
    fam = case['fam']
    obj = objs[op['o'] - 1]
    Ts = [float(t) for t in op['Ts']]
    P = float(op['P'])
    ttype = op.get('ttype', 'float')
    ptype = op.get('ptype', 'float')
    Targ = _typed_T(Ts, bool(op['scalar']), ttype)
    Parg = _typed_P(P, ptype)
    cond, xB, xC = _conditions(op)
    opts = {'S_elements': True} if op.get('S_el') else {}
    raw, ok, exc = {}, {}, {}
    for q in QS:
        kw = dict(cond, **(opts if q in ('S', 'G') else {}))
        ok[q], raw[q], exc[q] = _call(getattr(obj, GETTER[q]), T=Targ, P=Parg, **kw)
    for q, name in (('S1', 'get_SoR'), ('G1', 'get_GoRT')):       # default pressure
        ok[q], raw[q], exc[q] = _call(getattr(obj, name), T=Targ, **dict(cond, **opts))
    fin = all(core.finite(v) for q in raw for v in raw[q])
    twin = _twin(obj, fam)
    bare = {'Cp': [], 'H': [], 'S': []}
    for T in Ts:
        for q in ('Cp', 'H', 'S'):
            okb, vb, eb = _call(getattr(twin, GETTER[q]), T=T, **(opts if q == 'S' else {}))
            if not okb or len(vb) != 1:
                raise core.MachineryError('bare twin failed: %s %s at T=%r (%s)' % (fam, q, T, eb))
            bare[q].append(to_dec(vb[0]))
    ms = []
    for m in (obj.misc_models or []):
        k = _kind(m)
        ent = {'k': k}
        if k in ('PAdj', 'P1'):
            ent['c0'] = _contrib(m, k, Ts, P, 0.0)
        elif k in ('CovB', 'CovC', 'P2B', 'P2C'):
            ent['cB'] = _contrib(m, k, Ts, P, xB)
            ent['cC'] = _contrib(m, k, Ts, P, xC)
        ms.append(ent)
    ev = {'ev': 'eval', 'o': op['o'], 'scalar': bool(op['scalar']), 'ttype': ttype, 'ptype': ptype,
          'xform': op.get('xform', 'routed'), 'S_el': bool(op.get('S_el')),
          'intT_nonint': ttype not in FLOAT_TYPES and _nonint_contribution(ms),
          'Ts': [to_dec(t) for t in Ts], 'P': to_dec(P), 'lnP': to_dec(math.log(P)),
          'xB': to_dec(xB), 'xC': to_dec(xC), 'ok': ok, 'fin': fin,
          'r': {q: [to_dec(v) if core.finite(v) else [0, 0] for v in raw[q]] for q in raw},
          'bare': bare, 'ms': ms, 'after': _proj(obj),     # non-finite values: Finite fails instead
          'hasdim': False, 'hasverb': False, 'misc_none': obj.misc_models is None}
    # dimensional getters in one unit: same T, P and coverages must reach the attached models
    units = op.get('units')
    if units:
        L = _lib()
        ev['hasdim'] = True
        ev['units'] = units
        ev['R'] = to_dec(L.const.R(units))
        ev['okd'], ev['dim'] = {}, {}
        for q in QS:
            u = units if q in ('Cp', 'S') else units[:-2]          # H and G: without '/K'
            kw = dict(cond, **(opts if q in ('S', 'G') else {}))
            okd, vd, ed = _call(getattr(obj, DIM_GETTER[q]), T=Targ, units=u, P=Parg, **kw)
            ev['okd'][q] = okd
            ev['dim'][q] = [to_dec(v) if core.finite(v) else [0, 0] for v in vd]
            exc['dim' + q] = ed
            fin = fin and all(core.finite(v) for v in vd)
        ev['fin'] = fin
    # StatMech: verbose=True places every attached model's own value after the six mode entries
    if fam == 'StatMech':
        ev['hasverb'] = True
        ev['okv'], ev['verb'] = {}, {}
        for q in QS:
            okv, vv, evx = _call(getattr(obj, GETTER[q]), T=Targ, P=Parg, verbose=True, **cond)
            ev['okv'][q] = okv
            ev['verb'][q] = [to_dec(v) if core.finite(v) else [0, 0] for v in vv]
            exc['verb' + q] = evx
    return ev, raw, ok, exc


# --------------------------------------------------------------------------
# one case = one history of species sharing a family and coefficients
# --------------------------------------------------------------------------
def _reload(obj, via):
    """Returns (new object, note).  Nasa9.from_dict and SingleNasa9.from_dict look up 'nasas'
    while to_dict writes 'nasa' (a defect that belongs to C11): it is reported, then worked
    around (key renamed, SingleNasa9 built from its own dictionary) so that the C13 clauses are
    still evaluated on reloaded Nasa9 species."""
    import numpy as np
    L = _lib()
    cls = type(obj)

    def single(n):
        return L.SingleNasa9(T_low=n['T_low'], T_high=n['T_high'], a=np.array(n['a']))

    def ours(ex):
        return cls is L.Nasa9 and isinstance(ex, KeyError) and 'nasas' in str(ex)

    if via == 'dict':
        try:
            return cls.from_dict(obj.to_dict()), None
        except KeyError as ex:
            if not ours(ex):
                raise
            d = obj.to_dict()
            d['nasas'] = [single(n) for n in d.pop('nasa')]
            return cls.from_dict(d), 'KeyError'
    text = json.dumps(obj, cls=L.pj.pmuttEncoder)
    try:
        return json.loads(text, object_hook=L.pj.json_to_pmutt), None
    except KeyError as ex:
        if not ours(ex):
            raise

        def hook(d):
            if d.get('class') == str(L.SingleNasa9):
                return single(d)
            if d.get('class') == str(L.Nasa9) and 'nasas' not in d and 'nasa' in d:
                d['nasas'] = d.pop('nasa')
            return L.pj.json_to_pmutt(d)
        return json.loads(text, object_hook=hook), 'KeyError'


def execute(case):
    """Run one history through the real classes.  Returns (events, mismatches)."""
    import copy
    fam, coef = case['fam'], case['coef']
    NAMES.clear()
    NAMES.update(case.get('names', DEFAULT_NAMES))
    slopes = case.get('slopes', GRID_SLOPES)
    events, mism = [], []
    objs = []
    caller = None                      # the list object handed to the constructors
    for k, op in enumerate(case['ops']):
        act = op['act']
        if act == 'eval':
            ev, raw, ok, exc = _eval_event(case, objs, op)
            ev['exc'] = exc
            events.append(ev)
            exp = op.get('exp')
            if exp:
                for q in QS:
                    want = [v / 64.0 for v in exp[q]['v']]
                    if not ok[q]:
                        continue        # reported by the trace spec as Raises<q>
                    if len(raw[q]) != len(want):
                        continue        # reported by the trace spec as Shape<q>
                    bad = [i for i in range(len(want)) if exp[q]['ex'][i] and raw[q][i] != want[i]]
                    if bad:
                        mism.append({'clause': 'ReplayTotal', 'q': q, 'step': k,
                                     'tshape': 'scalar' if op['scalar'] else 'array',
                                     'ttype': op.get('ttype', 'float'),
                                     'nmodels': len(ev['ms']),
                                     'detail': {'index': bad[:5], 'expected': [want[i] for i in bad[:5]],
                                                'got': [raw[q][i] for i in bad[:5]]}})
            continue
        ev = {'ev': act, 'raised': False}
        try:
            with warnings.catch_warnings():
                warnings.simplefilter('ignore')
                if act in ('construct', 'sibling'):
                    if act == 'construct':
                        if op['none']:
                            caller = None
                        else:
                            seen_k, caller = {}, []
                            for g in op['given']:
                                caller.append(_model(g, slopes, seen_k.get(g, 0)))
                                seen_k[g] = seen_k.get(g, 0) + 1
                            cont = op.get('container', 'list')
                            if cont == 'tuple':
                                caller = tuple(caller)
                            elif cont == 'single':         # one model, not wrapped in a list
                                if len(caller) != 1:
                                    raise core.MachineryError('single needs exactly one model')
                                caller = caller[0]
                    phase = None if op['phase'] == 'None' else op['phase']
                    kw = {'phase': phase, 'misc_models': caller, 'elements': {'H': 2}}
                    if not op['flag']:
                        kw['add_gas_P_adj'] = False
                    ev.update({'ev': 'construct', 'phase': op['phase'], 'flag': bool(op['flag']),
                               'none': bool(op.get('none', False)),
                               'given': list(op.get('given', [])), 'sib': act == 'sibling'})
                    objs.append(_mk(fam, coef, via=op.get('via', 'direct'), **kw))
                elif act == 'copy':
                    ev['src'] = op['src']
                    objs.append(copy.copy(objs[op['src'] - 1]))
                elif act == 'deepcopy':
                    ev['src'] = op['src']
                    objs.append(copy.deepcopy(objs[op['src'] - 1]))
                elif act == 'reload':
                    ev.update({'src': op['src'], 'via': op['via']})
                    new, note = _reload(objs[op['src'] - 1], op['via'])
                    objs.append(new)
                    if note:
                        mism.append({'clause': 'ReloadRaises', 'step': k, 'exc': note,
                                     'detail': "Nasa9.from_dict: KeyError 'nasas' (worked around)"})
                elif act == 'attach':
                    ev.update({'src': op['src'], 'kind': op['kind']})
                    tgt = objs[op['src'] - 1].misc_models
                    tgt.append(_model(op['kind'], slopes, sum(1 for m in tgt if _kind(m) == op['kind'])))
                else:
                    raise core.MachineryError('unknown op %r' % (op,))
        except core.MachineryError:
            raise
        except Exception as ex:        # the library raised on a valid lifecycle step
            ev['raised'] = True
            ev['exc'] = type(ex).__name__
            ev['objs'] = [_proj(o) for o in objs]
            events.append(ev)
            mism.append({'clause': 'LifecycleRaises', 'step': k, 'exc': type(ex).__name__,
                         'detail': '%s: %s' % (type(ex).__name__, ex)})
            break                       # the history cannot continue without the object
        ev['objs'] = [_proj(o) for o in objs]
        events.append(ev)
        if 'exp_objs' in op and ev['objs'] != op['exp_objs']:
            mism.append({'clause': 'ReplayState', 'step': k,
                         'detail': {'op': {a: b for a, b in op.items() if a != 'exp_objs'},
                                    'expected': op['exp_objs'], 'got': ev['objs']}})
    return events, mism


def _safe_execute(case):
    try:
        return execute(case)
    except core.MachineryError as ex:
        return None, str(ex)


# --------------------------------------------------------------------------
# case construction
# --------------------------------------------------------------------------
# species names: endings in every character of '_kwargs', names that are prefixes / suffixes of
# each other, parentheses, hyphens, underscores, digits
NAME_POOL = ('Na', 'Os', 'CO_ads', 'H_ads', 'args', 'kwargs', 'N_', 'bulk', 'Nw', 'Zr', 'Ag', 'Mg', 'Ar',
             'CO', 'CO2', 'C', 'H', 'H2', 'H2O', 'O', 'OH', 'O-H', 'N', 'NO', 'NO2', 'CH3(S)', 'Pt(111)',
             'CH3-CH2(S)', 'A', 'B', 'x', 'ads', 'CO_ad', 'O_')
SUFFIX_CHARS = '_kwargs'


def _rand_names(rnd, k=0):
    """Distinct real names for the carrier A, the affecting species B, C and the unattached D;
    B (every 2nd case) ends in the k-th character of '_kwargs' so that all endings occur."""
    names = list(NAME_POOL)
    rnd.shuffle(names)
    if k % 2 == 0:
        ch = SUFFIX_CHARS[(k // 2) % len(SUFFIX_CHARS)]
        b = rnd.choice([n for n in NAME_POOL if n.endswith(ch)])
        names.remove(b)
        names.insert(1, b)
    return {'A': names[0], 'B': names[1], 'C': names[2], 'D': names[3]}


def _rand_coef(rnd, fam):
    if fam == 'Reference':
        return {}
    def nasa7():
        return [rnd.uniform(2.5, 8.0), rnd.uniform(-2e-3, 2e-3), rnd.uniform(-2e-6, 2e-6),
                rnd.uniform(-2e-10, 2e-10), rnd.uniform(-2e-14, 2e-14),
                rnd.uniform(-1e4, 1e4), rnd.uniform(-10.0, 10.0)]
    if fam == 'Nasa':
        return {'a_low': nasa7(), 'a_high': nasa7()}
    if fam == 'Nasa9':
        def n9():
            return [rnd.uniform(-1e4, 1e4), rnd.uniform(-100.0, 100.0)] + nasa7()
        return {'a_low': n9(), 'a_high': n9()}
    return {'a': [rnd.uniform(20.0, 60.0), rnd.uniform(-30.0, 30.0), rnd.uniform(-10.0, 10.0),
                  rnd.uniform(-3.0, 3.0), rnd.uniform(-1.0, 1.0), rnd.uniform(-300.0, 300.0),
                  rnd.uniform(100.0, 300.0), rnd.uniform(-300.0, 300.0)]}


def _rand_slopes(rnd):
    return {'B': [rnd.choice([-1, 1]) * rnd.uniform(2.0, 40.0) for _ in range(3)],
            'C': [rnd.choice([-1, 1]) * rnd.uniform(2.0, 40.0) for _ in range(3)]}


def _nextafter(x, to):
    import numpy as np
    return float(np.nextafter(x, to))


def _rand_x(rnd):
    """A coverage in [0, 1] and its class: both ends, the breakpoints of the coverage models
    (0.3, 0.6), the doubles adjacent to a breakpoint, the interior."""
    r = rnd.random()
    if r < 0.10:
        return 0.0, 'zero'
    if r < 0.20:
        return 1.0, 'one'
    if r < 0.30:
        return rnd.choice([0.3, 0.6]), 'break'
    if r < 0.40:
        b = rnd.choice([0.3, 0.6])
        return _nextafter(b, rnd.choice([0.0, 1.0])), 'adjacent'
    if r < 0.45:
        return _nextafter(rnd.choice([0.0, 1.0]), 0.5), 'adjacent_end'
    return round(rnd.uniform(0.0, 1.0), 3), 'interior'


def _rand_eval(rnd, o, big=False, fam='Nasa', k=0):
    """One evaluation op.  k (a running number) rotates the units of the dimensional getters so
    that every unit of pmutt.constants.R is used in every run."""
    r = rnd.random()
    if fam == 'StatMech':
        n, scalar = 1, True                                    # StatMech evaluates one T
    elif big:
        n, scalar = rnd.choice([50, 50, rnd.randint(20, 49)]), False
    elif r < 0.3:
        n, scalar = 1, True
    elif r < 0.45:
        n, scalar = 1, False
    else:
        n, scalar = rnd.randint(2, 6), False
    Ts = [round(rnd.uniform(150.0, 3000.0), rnd.choice([0, 1, 3])) for _ in range(n)]
    ttype, order = 'float', 'shuffled'
    on_break = rnd.random() < 0.25      # one temperature exactly ON the break between the two segments (T_MID)
    if rnd.random() < 0.3:              # integer-typed temperatures
        if scalar:
            ttype, Ts = 'intscalar', [float(rnd.randint(150, 3000))]
        else:
            ttype = rnd.choice(['intarray', 'intlist', 'arange'])
            if ttype == 'arange':
                step = rnd.randint(1, max(1, 2500 // n))
                start = rnd.randint(150, 3000 - step * (n - 1))
                Ts = [float(start + step * i) for i in range(n)]
                order = 'ascending'
            else:
                Ts = [float(rnd.randint(150, 3000)) for _ in range(n)]
    else:
        ttype = rnd.choice(['float', 'float', 'npfloat', 'floatlist', 'tuple'])
    if on_break and ttype != 'arange':
        Ts[rnd.randrange(n)] = T_MID
    if n > 1 and ttype != 'arange':     # order of the array: ascending, descending, with duplicates
        r = rnd.random()
        if r < 0.2:
            Ts, order = sorted(Ts), 'ascending'
        elif r < 0.4:
            Ts, order = sorted(Ts, reverse=True), 'descending'
        elif r < 0.6:
            Ts[rnd.randrange(1, n)] = Ts[0]
            order = 'duplicates'
    # pressure: both ends of 1e-3..1e2, 1 bar, the interior; integer-typed for integer pressures
    r = rnd.random()
    ptype = rnd.choice(['float', 'float', 'npfloat'])
    if r < 0.1:
        P = 1.0
    elif r < 0.2:
        P = rnd.choice([1e-3, 1e2])
    elif r < 0.4:
        P = float(rnd.choice([1, 2, 3, 5, 10, 50, 100]))
        ptype = rnd.choice(['int', 'npint'])
    else:
        P = 10.0 ** rnd.uniform(-3.0, 2.0)
        if abs(math.log(P)) < 0.05:
            P = 2.5
    (xB, clsB), (xC, clsC) = _rand_x(rnd), _rand_x(rnd)
    r = rnd.random()
    xform = ('routed' if r < 0.5 else 'toplevel' if r < 0.58 else 'missingC' if r < 0.66 else
             'missingBoth' if r < 0.72 else 'ownOnly' if r < 0.82 else 'ownAndB' if r < 0.91 else 'extra')
    op = {'act': 'eval', 'o': o, 'scalar': scalar, 'Ts': Ts, 'P': P, 'ttype': ttype, 'ptype': ptype,
          'order': order if n > 1 else 'single', 'xB': xB, 'xC': xC, 'xcls': [clsB, clsC], 'xform': xform,
          'xA': round(rnd.uniform(0.2, 1.0), 3)}
    if rnd.random() < 0.6:
        op['units'] = DIM_UNITS[k % len(DIM_UNITS)]
    if fam in EMPIRICAL and rnd.random() < 0.15:
        op['S_el'] = True
    return op


def _grid_case(c, cid):
    """An evaluation case of MC_MiscEval: the species is built so that it carries exactly
    c['misc'] (gas with the flag on when the list holds the adjustment, surface otherwise)."""
    misc = list(c['misc'])
    phase = 'g' if 'PAdj' in misc else 's'
    n = len(c['ts'])
    ops = [{'act': 'construct', 'phase': phase, 'flag': True, 'none': bool(c['none']), 'given': misc,
            'exp_objs': [misc]},
           {'act': 'eval', 'o': 1, 'scalar': bool(c['scalar']), 'Ts': [256.0 * t for t in c['ts']],
            'P': c['P4'] / 4.0, 'xB': c['xB'] / 4.0, 'xC': c['xC'] / 4.0,
            'exp': {q: c[q] for q in QS}}]
    # the grid temperatures 256 tau are integers: the same totals must come back when they are
    # passed integer-typed (every 2nd Shomate case, every 4th Nasa/Nasa9 case, types in rotation)
    k = int(cid[1:]) if cid[1:].isdigit() else 0
    if k % 4 == 1:
        ops[1]['units'] = DIM_UNITS[(k // 4) % len(DIM_UNITS)]
    if k % (2 if c['fam'] == 'Shomate' else 4) == 0:
        if c['scalar']:
            tt = 'intscalar'
        else:
            ts = [256 * t for t in c['ts']]
            eq = len(ts) > 1 and len(set(b - a for a, b in zip(ts, ts[1:]))) == 1 and ts[1] > ts[0]
            tt = ['intarray', 'intlist', 'arange' if eq else 'intarray'][(k // 4) % 3]
        ops.append(dict(ops[1], ttype=tt))
    return {'cid': cid, 'kind': 'grid', 'fam': c['fam'], 'coef': GRID_COEF[c['fam']], 'ops': ops,
            'names': _rand_names(random.Random(k), k),
            'sig': [c['fam'], misc, n, bool(c['scalar']), c['P4'], c['xB'], c['xC']]}


def _beh_case(h, cid, rnd, k=0):
    """A TLC lifecycle behaviour.  Every 8th one is replayed on pmutt.empirical.references.Reference,
    the other class that inherits EmpiricalBase.__init__ (no thermodynamic getters of its own
    that take attached models: lifecycle clauses only)."""
    fam = 'Reference' if k % 8 == 7 else rnd.choice(['Nasa', 'Nasa9', 'Shomate'])
    if fam == 'Reference' and any(r['act'] == 'reload' for r in h):
        fam = 'Nasa'                       # Reference serialisation is C11's subject
    ops = []
    ne = 0
    for r in h:
        a = r['args']
        op = {'act': r['act'], 'exp_objs': r['objs']}
        op.update(a)
        if r['act'] == 'construct' and not a['none']:
            c = rnd.random()
            op['container'] = ('tuple' if c < 0.25 else
                               'single' if (c < 0.5 and len(a['given']) == 1 and a['given'][0] != 'PAdjDict')
                               else 'list')      # the to_dict() form only occurs inside a list
        if r['act'] == 'construct' and fam in EMPIRICAL and rnd.random() < 0.2:
            op['via'] = 'from_data'
        ops.append(op)
        if fam == 'Reference':
            continue
        o = len(r['objs'])
        ops.append(_rand_eval(rnd, o, fam=fam, k=k + ne))
        ne += 1
        if o > 1 and rnd.random() < 0.5:
            ops.append(_rand_eval(rnd, rnd.randint(1, o - 1), fam=fam, k=k + ne))
            ne += 1
    return {'cid': cid, 'kind': 'beh', 'fam': fam, 'coef': _rand_coef(rnd, fam), 'names': _rand_names(rnd, k),
            'slopes': _rand_slopes(rnd), 'ops': ops,
            'sig': [fam, [[r['act'], r['args']] for r in h]]}


KINDS_ALL = ['PAdj', 'CovB', 'CovC', 'P1', 'P2B', 'P2C']


GAS_PHASES = ('g', 'gas', 'G')
OTHER_PHASES = ('s', 'S', 'None', 'l', 'L', 'surface', 'solid', 'aq', 'a', 'as', 'ga', 'sa', '', ' g')


def _statmech_case(rnd, cid, k):
    """StatMech as a carrier of misc_models (coverage models and probes; a GasPressureAdj is
    documented for empirical objects only): construct, evaluate at one T (also verbose=True and
    with units), deepcopy / reload, evaluate again."""
    pool = ['CovB', 'CovC', 'P1', 'P2B', 'P2C', 'CovB', 'CovC']
    rnd.shuffle(pool)
    none = rnd.random() < 0.1
    given = [] if none else pool[:rnd.randint(0, 4)]
    c = rnd.random()
    ops = [{'act': 'construct', 'phase': 'None', 'flag': True, 'none': none, 'given': given,
            'container': 'tuple' if (c < 0.3 and not none) else 'list'},
           _rand_eval(rnd, 1, fam='StatMech', k=k)]
    for j in range(rnd.randint(0, 2)):
        r = rnd.random()
        ops.append({'act': 'deepcopy', 'src': 1} if r < 0.4 else
                   {'act': 'reload', 'src': 1, 'via': 'dict' if r < 0.7 else 'json'})
        ops.append(_rand_eval(rnd, j + 2, fam='StatMech', k=k + j + 1))
    return {'cid': cid, 'kind': 'real', 'fam': 'StatMech', 'names': _rand_names(rnd, k),
            'coef': {'wn': [round(rnd.uniform(200.0, 3000.0), 1) for _ in range(rnd.randint(1, 4))]},
            'slopes': _rand_slopes(rnd), 'ops': ops,
            'sig': ['StatMech', given, [[o['act'], o.get('via')] for o in ops if o['act'] != 'eval']]}


def _random_case(rnd, cid, k=0):
    if k % 6 == 5:
        return _statmech_case(rnd, cid, k)
    fam = rnd.choice(['Nasa', 'Nasa9', 'Shomate'])
    phase = rnd.choice(GAS_PHASES + GAS_PHASES + OTHER_PHASES[:3] * 2 + OTHER_PHASES[3:])
    gas = phase in GAS_PHASES
    flag = rnd.random() < 0.75
    none = rnd.random() < 0.15
    given = []
    if not none:
        # coverage kinds may repeat: two coverage models with the same name_j
        pool = [k_ for k_ in KINDS_ALL if k_ != 'PAdj'] + ['CovB', 'CovC']
        rnd.shuffle(pool)
        given = pool[:rnd.randint(0, 4)]
        if gas and rnd.random() < 0.4 and len(given) < 4:
            given.insert(rnd.randint(0, len(given)), 'PAdjDict' if (flag and rnd.random() < 0.4) else 'PAdj')
    c = rnd.random()
    cons = {'act': 'construct', 'phase': phase, 'flag': flag, 'none': none, 'given': given,
            'container': 'list' if none or c < 0.6 else
                         'single' if (len(given) == 1 and c < 0.8 and given[0] != 'PAdjDict') else 'tuple'}
    if rnd.random() < 0.12:
        cons['via'] = 'from_data'
    ops = [cons]
    ne = [k]

    def ev(o, big=False):
        ne[0] += 1
        return _rand_eval(rnd, o, big=big, fam=fam, k=ne[0])
    ops.append(ev(1, big=rnd.random() < 0.08))
    nobj = 1
    for _ in range(rnd.randint(0, 5)):
        r = rnd.random()
        src = rnd.randint(1, nobj)
        if r < 0.4:
            ops.append({'act': 'reload', 'src': src, 'via': rnd.choice(['dict', 'json'])})
        elif r < 0.55 and not none and 'PAdjDict' not in given:
            p2 = rnd.choice(GAS_PHASES + OTHER_PHASES)
            ops.append({'act': 'sibling', 'phase': p2, 'flag': rnd.random() < 0.75})
        elif r < 0.7:
            ops.append({'act': 'copy', 'src': src})
        elif r < 0.85:
            ops.append({'act': 'deepcopy', 'src': src})
        else:
            if none:                    # misc_models may be None: nothing to append to
                continue
            ops.append({'act': 'attach', 'src': src,
                        'kind': rnd.choice(['CovB', 'CovC', 'P1', 'P2B', 'P2C'])})
            ops.append(ev(ops[-1]['src']))
            continue
        nobj += 1
        ops.append(ev(nobj))
    return {'cid': cid, 'kind': 'real', 'fam': fam, 'coef': _rand_coef(rnd, fam), 'names': _rand_names(rnd, k),
            'slopes': _rand_slopes(rnd), 'ops': ops,
            'sig': [fam, [[o['act'], o.get('phase'), o.get('flag'), o.get('given'), o.get('src'),
                           o.get('via'), o.get('kind'), o.get('container')] for o in ops if o['act'] != 'eval']]}


# --------------------------------------------------------------------------
def _tags(case, ev=None, clause='', extra=None):
    t = {'fam': case['fam'], 'kind': case['kind']}
    if ev is not None:
        t['ev'] = ev.get('ev')
        if ev.get('ev') == 'eval':
            t['tshape'] = 'scalar' if ev.get('scalar') else 'array'
            t['ttype'] = ev.get('ttype', 'float')
            t['ptype'] = ev.get('ptype', 'float')
            t['nT'] = len(ev.get('Ts', []))
            t['xform'] = ev.get('xform', 'routed')
            if clause.startswith(('DimFollows', 'RaisesDim')):
                t['units'] = ev.get('units', '')
            if clause == 'RaisesDim':
                ex_ = ev.get('exc') or {}
                t['exc'] = '/'.join('%s:%s' % (q_, ex_.get('dim' + q_)) for q_ in ('Cp', 'H', 'S', 'G') if ex_.get('dim' + q_))
            for q in ('Cp', 'H', 'S', 'G'):
                if clause.endswith(q) and clause[:-len(q)] in ('Raises', 'Shape', 'SumOnce', 'DimFollows'):
                    t['q'] = q
                    if clause.startswith('Raises'):
                        t['exc'] = (ev.get('exc') or {}).get(q, '')
        elif ev.get('ev') == 'reload':
            t['via'] = ev.get('via')
        if ev.get('raised'):
            t['exc'] = ev.get('exc', '')
    if extra:
        t.update(extra)
    return t


def run(ctx):
    ctx.coverage['rule'] = (
        'a case is one history of species of one family sharing coefficients: construct, then '
        'sibling/copy/deepcopy/reload/attach steps, with evaluations (Cp, H, S, G at P and at the '
        'default pressure; scalar T or arrays of 1-50, float or integer-typed: int ndarray, arange, list of '
        'ints, scalar int) in between.  grid cases = every evaluation '
        'case of MC_MiscEval (totals computed by TLC, equality where dyadic); beh cases = complete '
        'TLC behaviours of MC_MiscModels_beh (kinds carried by every live species compared after '
        'each call); real cases = random real-valued histories.  Every case is also judged line by '
        'line by Trace_MiscModels.tla.  non-trivial = at least one evaluated species carries a '
        'model, or the history has a lifecycle step after construct; distinct by signature '
        '(family, list, T shape, conditions / operation sequence)')
    import time
    t0 = time.time()
    phase = {}
    rnd = random.Random(ctx.seed)
    if ctx.replay_case is not None:
        cases = [ctx.replay_case['case']]
    else:
        cases = []
        import concurrent.futures as cf
        traits = (('alias', 'PAdjCount'), ('ignoreflag', 'PAdjCount'),
                  ('dictreload', 'AllDecoded'), ('loseflag', 'PAdjCount'))
        evalcfg = ctx.pick('MC_MiscEval', 'MC_MiscEval_thorough')
        maincfg = ctx.pick('MC_MiscModels', 'MC_MiscModels_thorough')
        with cf.ThreadPoolExecutor(max_workers=8) as ex:      # the TLC runs are independent
            f_main = ex.submit(core.run_tlc, 'MC_MiscModels', maincfg, None, 8, None, 3000)
            f_trait = [ex.submit(core.run_tlc, 'MC_MiscModels', 'MC_MiscModels_' + t, None, 1)
                       for t, _ in traits]
            f_eval = ex.submit(core.tlc_cases, 'MC_MiscEval', evalcfg, None, 1500)
            f_shom = ex.submit(core.run_tlc, 'MC_MiscEval', 'MC_MiscEval_shomate')
            f_beh = ex.submit(core.run_tlc, 'MC_MiscModels', 'MC_MiscModels_beh', None, 1)

        def record(cfg, r):
            ctx.count('states', r.distinct)
            ctx.count('transitions', r.states)
            ctx.coverage.setdefault('models', []).append(
                {'module': 'MC_MiscModels', 'cfg': cfg, 'distinct_states': r.distinct,
                 'states_generated': r.states, 'depth': r.depth, 'ok': r.ok,
                 'violated': r.violated, 'wall_s': round(r.wall, 1)})
        # (D) lifecycle model, and the four pinned traits which the design must reject
        r = f_main.result()
        record(maincfg, r)
        if not r.ok:
            raise core.MachineryError('design model MC_MiscModels failed:\n' + r.out[-4000:])
        for (trait, want), f in zip(traits, f_trait):
            bad = f.result()
            record('MC_MiscModels_' + trait, bad)
            if bad.ok or bad.violated != want:
                raise core.MachineryError('trait %s should be rejected by the design model (%s):\n%s'
                                          % (trait, want, bad.out[-1500:]))
            ctx.notes.append('design model rejects the pinned trait "%s": %s violated' % (trait, bad.violated))
        # (D) evaluation relation at constant level + (S->C) its cases
        gcases, r = f_eval.result()
        if not r.ok:
            raise core.MachineryError('MC_MiscEval failed:\n' + r.out[-2000:])
        ctx.coverage.setdefault('models', []).append(
            {'module': 'MC_MiscEval', 'cfg': evalcfg,
             'constant_level_cases': len(gcases), 'ok': True, 'wall_s': round(r.wall, 1)})
        ctx.coverage['constant_level_eval_cases'] = len(gcases)
        bad = f_shom.result()
        if bad.ok or 'is false' not in bad.out:
            raise core.MachineryError('the pinned Shomate algorithm should be rejected:\n' + bad.out[-1500:])
        wit = [core.parse_tla(p)[1] for p in bad.prints() if core.tagged(p, 'WITNESS')]
        ctx.notes.append('design model rejects the pinned Shomate summation (mix array of the last '
                         'T added unsummed): assumption EvalRefines is false, e.g. %s'
                         % (json.dumps(wit[0], sort_keys=True) if wit else '?'))
        gcases.sort(key=lambda c: json.dumps(c, sort_keys=True))
        # lists one longer than the exhaustive bound: a sample rotating with the seed in the quick
        # tier (the thorough tier enumerates them: MaxLen = 4)
        longest = max(len(c['misc']) for c in gcases)
        if ctx.quick:
            longc = [c for c in gcases if len(c['misc']) == longest]
            rnd.shuffle(longc)
            keep = set(id(c) for c in longc[:700])
            gcases = [c for c in gcases if len(c['misc']) < longest or id(c) in keep]
        for k, c in enumerate(gcases):
            cases.append(_grid_case(c, 'e%d' % k))
        # (S->C) lifecycle behaviours
        rb = f_beh.result()
        if not rb.ok:
            raise core.MachineryError('behaviour generation failed:\n' + rb.out[-2000:])
        behs = [core.parse_tla(p)[1] for p in rb.prints() if core.tagged(p, 'BEH')]
        ctx.coverage['tlc_behaviours'] = len(behs)
        if ctx.quick:
            rnd.shuffle(behs)
            behs = behs[:1500]
        else:
            rs = core.run_tlc('MC_MiscModels', 'MC_MiscModels_sim', workers=1, timeout=1500,
                              extra=['-simulate', 'num=600', '-depth', '8', '-seed', str(ctx.seed + 1)])
            sim = [core.parse_tla(p)[1] for p in rs.prints() if core.tagged(p, 'BEH')]
            if not sim:
                raise core.MachineryError('simulation produced no behaviours:\n' + rs.out[-2000:])
            ctx.coverage['tlc_simulated_behaviours'] = len(sim)
            behs += sim
        for k, h in enumerate(behs):
            cases.append(_beh_case(h, 'b%d' % k, rnd, k))
        for k in range(ctx.pick(600, 8000)):
            cases.append(_random_case(rnd, 'r%d' % k, k))
    phase['tlc_models_and_cases'] = round(time.time() - t0, 1)
    t1 = time.time()
    results = core.pmap(_safe_execute, cases)
    phase['execute'] = round(time.time() - t1, 1)
    traces = []
    n_ep = 0
    n_int = {}
    cnt = {}

    def bump(group, key):
        g = cnt.setdefault(group, {})
        g[str(key)] = g.get(str(key), 0) + 1
    for tid, (case, (events, mism)) in enumerate(zip(cases, results)):
        if events is None:
            raise core.MachineryError('driver failure in case %s: %s' % (case.get('cid'), mism))
        ctx.evaluated()
        carries = any(e['ev'] == 'eval' and e['ms'] for e in events)
        steps = sum(1 for o in case['ops'] if o['act'] not in ('eval', 'construct'))
        if carries or steps:
            ctx.nontrivial(json.dumps(case.get('sig', case['ops']), sort_keys=True, default=str))
        n_ep += sum(1 for e in events if e['ev'] == 'eval' and e['ms']
                    and all(m['k'] != 'P1' for m in e['ms']) and e['ok']['S'] and e['ok']['S1'])
        for e in events:
            if e['ev'] == 'eval' and e.get('intT_nonint'):
                n_int[case['fam']] = n_int.get(case['fam'], 0) + 1
            if e['ev'] == 'eval':
                carries = bool(e['ms'])
                bump('eval_family', case['fam'])
                bump('T_type', e['ttype'])
                bump('P_type', e['ptype'])
                if carries:
                    bump('coverage_form_with_models', e['xform'])
                ks_ = [m['k'] for m in e['ms']]
                nm = case.get('names', DEFAULT_NAMES)
                xb_nz = e['xB'] != [0, 0] and e['xform'] in ('routed', 'missingC', 'ownAndB', 'extra')
                if ('CovB' in ks_ or 'P2B' in ks_) and xb_nz:
                    bump('name_j_ending_with_nonzero_routed_coverage', nm['B'][-1])
                if ('CovB' in ks_ or 'CovC' in ks_) and e['xform'] in ('ownOnly', 'ownAndB'):
                    bump('own_entry_without_entry_for_an_attached_cov', case['fam'])
                if ('CovB' in ks_ or 'CovC' in ks_) and e['xform'] == 'extra':
                    bump('entry_for_unattached_species', case['fam'])
                    bump('nmodels', len(e['ms']))
                if e['hasdim'] and carries:
                    bump('dimensional_units_with_models', e['units'])
                if e['S_el'] and carries:
                    bump('options', 'S_elements')
                if e['hasverb'] and carries:
                    bump('options', 'verbose')
                ks = [m['k'] for m in e['ms']]
                if any(ks.count(c_) > 1 for c_ in ('CovB', 'CovC')):
                    bump('two_cov_same_name_j', case['fam'])
                if 'CovB' in ks and 'CovC' in ks:
                    bump('two_cov_different_name_j', case['fam'])
            elif e['ev'] == 'construct' and not e['raised']:
                bump('phase', e['phase'])
                bump('carrier_constructed', case['fam'])
            elif e['ev'] == 'reload' and not e['raised']:
                bump('reload_family', case['fam'] + '/' + e['via'])
        for o in case['ops']:
            if o['act'] == 'construct':
                bump('container', 'None' if o['none'] else o.get('container', 'list'))
                bump('constructor', o.get('via', 'direct'))
                bump('flag', bool(o['flag']))
            elif o['act'] == 'eval':
                bump('T_order', o.get('order', 'grid'))
                bump('T_count', 'scalar' if o['scalar'] else min(len(o['Ts']), 50) if len(o['Ts']) in (1, 50) else '2-49')
                for c_ in o.get('xcls', []):
                    bump('coverage_class', c_)
                P_ = float(o['P'])
                bump('P_class', '1bar' if P_ == 1.0 else 'low_end' if P_ == 1e-3 else 'high_end' if P_ == 1e2 else 'interior')
        for m in mism:
            ev = None
            tags = _tags(case, None, m['clause'],
                         {k: m[k] for k in ('q', 'exc', 'tshape', 'ttype') if k in m})
            ctx.violation(m['clause'], case, tags=tags, detail=m.get('detail'))
        traces.append((tid, events))
        if tid % 1499 == 0:
            ctx.sample({'fam': case['fam'], 'kind': case['kind'],
                        'ops': [{k: v for k, v in o.items() if k not in ('exp', 'exp_objs')}
                                for o in case['ops']][:6]})
    t2 = time.time()
    fails, stats = core.validate_traces('Trace_MiscModels', 'Trace', traces)
    phase['trace_validation'] = round(time.time() - t2, 1)
    ctx.coverage['phase_wall_s'] = phase
    ctx.count('traces_validated_against_impl', len(traces))
    ctx.coverage['trace_lines'] = stats['lines']
    ctx.coverage['entropy_pressure_antecedent_true'] = n_ep
    ctx.coverage['integer_typed_T_with_noninteger_contribution'] = n_int
    ctx.coverage['input_classes'] = cnt
    if ctx.replay_case is None:
        need = {'eval_family': ['Nasa', 'Nasa9', 'Shomate', 'StatMech'],
                'carrier_constructed': ['Nasa', 'Nasa9', 'Shomate', 'StatMech', 'Reference'],
                'T_type': list(FLOAT_TYPES) + list(INT_TYPES), 'P_type': ['float', 'npfloat', 'int', 'npint'],
                'coverage_form_with_models': ['routed', 'toplevel', 'missingC', 'missingBoth', 'ownOnly', 'ownAndB', 'extra'],
                'name_j_ending_with_nonzero_routed_coverage': list(SUFFIX_CHARS),
                'own_entry_without_entry_for_an_attached_cov': ['Nasa', 'Nasa9', 'Shomate', 'StatMech'],
                'entry_for_unattached_species': ['Nasa', 'Nasa9', 'Shomate', 'StatMech'],
                'dimensional_units_with_models': list(DIM_UNITS), 'options': ['S_elements', 'verbose'],
                'two_cov_same_name_j': ['Nasa', 'Nasa9', 'Shomate', 'StatMech'],
                'two_cov_different_name_j': ['Nasa', 'Nasa9', 'Shomate', 'StatMech'],
                'phase': list(GAS_PHASES) + list(OTHER_PHASES),
                'container': ['None', 'list', 'tuple', 'single'], 'constructor': ['direct', 'from_data'],
                'flag': ['True', 'False'], 'T_order': ['ascending', 'descending', 'duplicates', 'shuffled'],
                'T_count': ['scalar', '1', '2-49', '50'],
                'coverage_class': ['zero', 'one', 'break', 'adjacent', 'adjacent_end', 'interior'],
                'P_class': ['1bar', 'low_end', 'high_end', 'interior'], 'nmodels': ['1', '2', '3', '4', '5'],
                'reload_family': [f + '/' + v for f in ('Nasa', 'Nasa9', 'Shomate', 'StatMech') for v in ('dict', 'json')]}
        empty = ['%s:%s' % (g, k_) for g, ks_ in need.items() for k_ in ks_ if not cnt.get(g, {}).get(k_)]
        if empty:
            raise core.MachineryError('vacuous input classes (never exercised this run): %s' % ', '.join(empty))
    if ctx.replay_case is None and min(n_int.get(f, 0) for f in ('Nasa', 'Nasa9', 'Shomate')) < 50:
        raise core.MachineryError('vacuous: too few evaluations with integer-typed T and a non-integer '
                                  'contribution: %r' % (n_int,))
    by_case = {}
    ev_of = dict(traces)
    for tid, idx, clause in fails:
        by_case.setdefault((tid, clause), []).append(idx)
    for (tid, clause), idxs in sorted(by_case.items()):
        ev = ev_of[tid][idxs[0]]
        ctx.violation(clause, cases[tid], tags=_tags(cases[tid], ev, clause),
                      detail={'event_indices': idxs[:10],
                              'first_event': {k: v for k, v in ev.items()
                                              if k in ('ev', 'o', 'scalar', 'Ts', 'P', 'ok', 'exc', 'objs',
                                                       'src', 'via', 'phase', 'flag', 'given', 'sib', 'after')}})
    # put one observation of every distinct (clause, tags) first: replay files are capped
    rank, seen_n = [], {}
    for v in ctx.violations:
        key = (v['clause'], json.dumps(v['tags'], sort_keys=True, default=str))
        rank.append(seen_n.get(key, 0))
        seen_n[key] = rank[-1] + 1
    ctx.violations = [v for _, _, v in sorted(zip(rank, range(len(rank)), ctx.violations),
                                              key=lambda t: (t[0], t[1]))]
    ctx.assume('grid replays rely on the dyadic grid (T = 256 tau, P = P4/4, x = x4/4, bare polynomials '
               'with a2 = 2^-9, a6 = 256, a7 = 3 or zero Shomate coefficients) being exact in IEEE doubles')
    ctx.assume('Dec arithmetic: SumOnce/EntropyPressure clauses hold to ~1e-6 relative of the largest term')
    ctx.assume('ln P is a sensor (math.log of the logged pressure); bare values come from a twin species '
               'without models evaluated at scalar T; model values from calling each attached model directly')
    ctx.assume('harness probe models are registered in pmutt.io.json.type_to_class inside the driver '
               'process so that they survive to_dict/from_dict; Nasa9.from_dict (KeyError nasas, C11) is '
               'reported and then worked around by renaming the key')
    ctx.assume('a size-1 array is accepted where a scalar is expected and vice versa (shape is C02)')


if __name__ == '__main__':
    core.main('C13', 'model_checking', run)
