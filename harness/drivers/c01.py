"""C01 - statistical-mechanical species are thermodynamically self-consistent.

(D)    spec/StatMech.tla: the vibrational cache as a state machine (exhaustive) and the
       mode aggregator on formal linear combinations (G = H - S, F = U - S,
       H - U = [trans] for all 160 mode-kind configurations); TLC emits the
       configurations and the cache behaviours.
(S->C) cache behaviours are stepped through real HarmonicVib / QRRHOVib objects
       (getter equality with a fresh object built from the list TLC computed);
       every configuration is instantiated as a real StatMech.
(C->S) spec/Trace_StatMech.tla judges the recorded values: identities, Richardson
       derivative relations, pressure dependence of S, sum/product of the verbose
       vector, per-mode textbook closed forms from verified witnesses and libm
       sensors, and invariance of geometry-derived parameters.
"""
import inspect
import math
import random

from harness import core
from harness.core import to_dec

H_STEP = 2.0 ** -7
G7 = ('get_CvoR', 'get_CpoR', 'get_UoRT', 'get_HoRT', 'get_SoR', 'get_FoRT', 'get_GoRT')
OPT_SKIPS = []
GNAME = {'q': 'get_q', 'Cv': 'get_CvoR', 'Cp': 'get_CpoR', 'U': 'get_UoRT', 'H': 'get_HoRT',
         'S': 'get_SoR', 'F': 'get_FoRT', 'G': 'get_GoRT'}

# physical constants of the harness sensors (CODATA 2014, SI)
KB_J = 1.38064852e-23
H_JS = 6.626070040e-34
NA = 6.022140857e23
C2_CMK = 1.43877736
KB_EV = 8.6173303e-5


def call(obj, name, **kw):
    fn = getattr(obj, name)
    params = inspect.signature(fn).parameters
    if any(p.kind == p.VAR_KEYWORD for p in params.values()):
        return float(fn(**kw))
    return float(fn(**{k: v for k, v in kw.items() if k in params}))


# --------------------------------------------------------------------------
# building real objects from abstract descriptions
# --------------------------------------------------------------------------
def draw_params(rnd, cfg):
    p = {}
    if cfg['trans'] == 'FreeTrans':
        p['trans'] = {'n': rnd.choice([3, 3, 3, 2, 1]), 'M': rnd.choice([1.008, 2.016, 18.015, 44.01, rnd.uniform(1, 500)])}
    v = cfg['vib']
    if v in ('Harmonic', 'QRRHO'):
        n = rnd.randint(1, 9)
        wn = [rnd.choice([rnd.uniform(10, 200), rnd.uniform(200, 1500), rnd.uniform(1500, 4500)]) for _ in range(n)]
        k = rnd.random()
        if k < 0.4:
            wn[rnd.randrange(n)] = -rnd.uniform(20, 1500)          # imaginary frequency
        if k < 0.1:
            wn.append(0.0)
        sub = rnd.choice([None, None, 50.0, 100.0, 75.5])
        int_wn = rnd.random() < 0.3                  # integer-typed input (list of ints / int ndarray)
        if int_wn:
            wn = [int(round(w)) for w in wn]
            sub = rnd.choice([None, 75.5, 62.25])
        p['vib'] = {'wn': wn, 'sub': sub, 'int_wn': int_wn}
        if v == 'QRRHO':
            p['vib'].update({'Bav': rnd.choice([1e-44, 5e-45, 3e-44]), 'v0': rnd.choice([100.0, 50.0, 150.0])})
    elif v in ('Einstein', 'Debye'):
        p['vib'] = {'theta': rnd.uniform(50, 2000), 'u': rnd.uniform(-2, 0.5)}
    r = cfg['rot']
    if r == 'RotLinear':
        p['rot'] = {'sigma': rnd.choice([1, 2]), 'thetas': [rnd.uniform(0.01, 100)]}
    elif r == 'RotNonlinear':
        p['rot'] = {'sigma': rnd.choice([1, 2, 3, 6, 12]), 'thetas': [rnd.uniform(0.01, 100) for _ in range(3)]}
    elif r == 'RotMono':
        p['rot'] = {'sigma': 1, 'thetas': [0.0]}
    if cfg['elec'] == 'GroundState':
        p['elec'] = {'E': rnd.choice([0.0, rnd.uniform(-2, 2), rnd.uniform(-40, 0)]), 'spin': rnd.choice([0, 0.5, 1, 1.5, 2])}
    return p


def build_modes(cfg, p):
    from pmutt.statmech import EmptyMode, trans, vib, rot, elec, nucl
    m = {}
    m['trans'] = trans.FreeTrans(n_degrees=p['trans']['n'], molecular_weight=p['trans']['M']) \
        if cfg['trans'] == 'FreeTrans' else EmptyMode()
    v = cfg['vib']
    if v == 'Harmonic':
        # ints stay ints (a list of Python ints), floats stay floats
        m['vib'] = vib.HarmonicVib(vib_wavenumbers=list(p['vib']['wn']), imaginary_substitute=p['vib']['sub'])
    elif v == 'QRRHO':
        import numpy as np
        m['vib'] = vib.QRRHOVib(vib_wavenumbers=np.array(p['vib']['wn']), Bav=p['vib']['Bav'], v0=p['vib']['v0'],
                                alpha=4, imaginary_substitute=p['vib']['sub'])
    elif v == 'Einstein':
        m['vib'] = vib.EinsteinVib(einstein_temperature=p['vib']['theta'], interaction_energy=p['vib']['u'])
    elif v == 'Debye':
        m['vib'] = vib.DebyeVib(debye_temperature=p['vib']['theta'], interaction_energy=p['vib']['u'])
    else:
        m['vib'] = EmptyMode()
    geom = {'RotMono': 'monatomic', 'RotLinear': 'linear', 'RotNonlinear': 'nonlinear'}
    if cfg['rot'] in geom:
        m['rot'] = rot.RigidRotor(symmetrynumber=p['rot']['sigma'], rot_temperatures=list(p['rot']['thetas']),
                                  geometry=geom[cfg['rot']])
    else:
        m['rot'] = EmptyMode()
    m['elec'] = elec.GroundStateElec(potentialenergy=p['elec']['E'], spin=p['elec']['spin']) \
        if cfg['elec'] == 'GroundState' else EmptyMode()
    m['nucl'] = nucl.EmptyNucl() if cfg['nucl'] == 'EmptyNucl' else EmptyMode()
    return m


def thermo_event(obj, kind, has_trans, T, P, P2, debye_theta=None):
    h = H_STEP
    Ts = [T * (1 - 2 * h), T * (1 - h), T * (1 + h), T * (1 + 2 * h)]
    v = [call(obj, g, T=T, P=P) for g in G7]
    return {'ev': 'thermo', 'kind': kind, 'hasTrans': bool(has_trans), 'T': to_dec(T), 'P': to_dec(P),
            'h': to_dec(h), 'lnP': to_dec(math.log(P2 / P)),
            'debyeX': to_dec(debye_theta / T) if debye_theta else [0, 0],
            'v': [to_dec(x) for x in v],
            'u4': [to_dec(call(obj, 'get_UoRT', T=t, P=P)) for t in Ts],
            'h4': [to_dec(call(obj, 'get_HoRT', T=t, P=P)) for t in Ts],
            's4': [to_dec(call(obj, 'get_SoR', T=t, P=P)) for t in Ts],
            'sP2': to_dec(call(obj, 'get_SoR', T=T, P=P2))}


def _ho_sensors(thetas, T):
    xs = [th / T for th in thetas]
    ex = [math.exp(-x) for x in xs]
    return {'x': [to_dec(x) for x in xs], 'ex': [to_dec(e) for e in ex],
            'y': [to_dec(e / -math.expm1(-x)) for e, x in zip(ex, xs)],
            'lg': [to_dec(math.log1p(-e)) for e in ex],
            'om': [to_dec(-math.expm1(-x)) for x in xs],
            'eh': [to_dec(math.exp(-x / 2)) for x in xs]}


def _valid(wn, sub):
    out = []
    for w in wn:
        if w > 0:
            out.append(w)
        elif sub is not None:
            out.append(sub)
    return out


def _debye3(x):
    from scipy.integrate import quad
    val = quad(lambda t: t ** 3 / math.expm1(t) if t > 0 else 0.0, 0.0, x, epsabs=1e-14, epsrel=1e-13, limit=400)[0]
    return 3.0 * val / x ** 3


def mode_events(slot, kind, mode, p, T, P):
    """closed-form event for one mode (textbook expression judged by the trace spec)"""
    e = None
    if kind in ('Harmonic', 'QRRHO'):
        wn, sub = p['vib']['wn'], p['vib']['sub']
        nu = _valid(wn, sub)
        thetas = [C2_CMK * w for w in nu]
        e = {'ev': 'harmonic' if kind == 'Harmonic' else 'qrrho', 'T': to_dec(T),
             'wn': [to_dec(w) for w in wn], 'hasSub': sub is not None, 'sub': to_dec(sub or 0.0),
             'U': to_dec(call(mode, 'get_UoRT', T=T)), 'S': to_dec(call(mode, 'get_SoR', T=T)),
             'Cv': to_dec(call(mode, 'get_CvoR', T=T))}
        e.update(_ho_sensors(thetas, T))
        if kind == 'Harmonic':
            e['q'] = to_dec(call(mode, 'get_q', T=T, include_ZPE=True))
            e['qnz'] = to_dec(call(mode, 'get_q', T=T, include_ZPE=False))
            e['ZPE'] = to_dec(mode.get_ZPE())
        else:
            v0, Bav = p['vib']['v0'], p['vib']['Bav']
            e['v0'] = to_dec(v0)
            ws, ls, omw = [], [], []
            for w in nu:
                ws.append(1.0 / (1.0 + (v0 / w) ** 4))
                omw.append((v0 / w) ** 4 / (1.0 + (v0 / w) ** 4))
                mu = H_JS / (8.0 * math.pi ** 2 * (w * 100.0) * 299792458.0)
                mu1 = mu * Bav / (mu + Bav)
                ls.append(0.5 * math.log(8.0 * math.pi ** 3 * mu1 * KB_J * T / H_JS ** 2))
            e['w'] = [to_dec(x) for x in ws]
            e['ls'] = [to_dec(x) for x in ls]
            e['omw'] = [to_dec(x) for x in omw]
    elif kind in ('Einstein', 'Debye'):
        th, u = p['vib']['theta'], p['vib']['u']
        x = th / T
        ex = math.exp(-x)
        e = {'ev': kind.lower(), 'T': to_dec(T), 'theta': to_dec(th), 'u': to_dec(u), 'x': to_dec(x),
             'ex': to_dec(ex), 'om': to_dec(-math.expm1(-x)), 'y': to_dec(ex / -math.expm1(-x)),
             'lg': to_dec(math.log1p(-ex)),
             'U': to_dec(call(mode, 'get_UoRT', T=T)), 'S': to_dec(call(mode, 'get_SoR', T=T)),
             'Cv': to_dec(call(mode, 'get_CvoR', T=T))}
        if kind == 'Debye':
            e['D3'] = to_dec(_debye3(x))
    elif kind in ('RotMono', 'RotLinear', 'RotNonlinear'):
        sig, ths = p['rot']['sigma'], p['rot']['thetas']
        geom = {'RotMono': 'monatomic', 'RotLinear': 'linear', 'RotNonlinear': 'nonlinear'}[kind]
        if geom == 'linear':
            lq = math.log(T / sig / ths[0])
        elif geom == 'nonlinear':
            lq = math.log(math.sqrt(math.pi) / sig * math.sqrt(T ** 3 / (ths[0] * ths[1] * ths[2])))
        else:
            lq = 0.0
        e = {'ev': 'rotor', 'geom': geom, 'sigma': to_dec(sig), 'thetas': [to_dec(t) for t in ths],
             'T': to_dec(T), 'lq': to_dec(lq), 'q': to_dec(call(mode, 'get_q', T=T)),
             'U': to_dec(call(mode, 'get_UoRT')), 'S': to_dec(call(mode, 'get_SoR', T=T)),
             'Cv': to_dec(call(mode, 'get_CvoR'))}
    elif kind == 'FreeTrans':
        n, M = p['trans']['n'], p['trans']['M']
        m = M * 1e-3 / NA
        V = KB_J * T / (P * 1e5)
        st = 1.0 + n / 2.0 + math.log((2 * math.pi * m * KB_J * T / H_JS ** 2) ** (n / 2.0) * V)
        e = {'ev': 'trans', 'n': n, 'T': to_dec(T), 'P': to_dec(P), 'st': to_dec(st),
             'U': to_dec(call(mode, 'get_UoRT')), 'H': to_dec(call(mode, 'get_HoRT')),
             'Cv': to_dec(call(mode, 'get_CvoR')), 'Cp': to_dec(call(mode, 'get_CpoR')),
             'S': to_dec(call(mode, 'get_SoR', T=T, P=P))}
    elif kind == 'GroundState':
        E, spin = p['elec']['E'], p['elec']['spin']
        e = {'ev': 'elec', 'T': to_dec(T), 'E': to_dec(E), 'lg': to_dec(math.log(2 * spin + 1)),
             'U': to_dec(call(mode, 'get_UoRT', T=T)), 'H': to_dec(call(mode, 'get_HoRT', T=T)),
             'S': to_dec(call(mode, 'get_SoR')), 'Cv': to_dec(call(mode, 'get_CvoR')),
             'Cp': to_dec(call(mode, 'get_CpoR'))}
    return [e] if e else []


def exec_config(case):
    import warnings
    warnings.simplefilter('ignore')
    from pmutt.statmech import StatMech
    rnd = random.Random(case['cseed'])
    cfg = case['cfg']
    p = draw_params(rnd, cfg)
    modes = build_modes(cfg, p)
    elements = rnd.choice([{'C': 1, 'O': 2}, {'H': 2, 'O': 1}, {'N': 2}, {'C': 2, 'H': 6, 'O': 1}])
    sp = StatMech(name='sp', trans_model=modes['trans'], vib_model=modes['vib'], rot_model=modes['rot'],
                  elec_model=modes['elec'], nucl_model=modes['nucl'], elements=elements)
    events = []
    thetas_char = []
    if 'vib' in p:
        thetas_char = [C2_CMK * abs(w) for w in p['vib'].get('wn', [])] or [p['vib'].get('theta', 300.0)]
    for k in range(case['npoints']):
        mode_pick = rnd.random()
        if thetas_char and mode_pick < 0.3:
            T = min(5000.0, max(50.0, rnd.choice(thetas_char) * rnd.uniform(0.7, 1.4)))      # theta ~ T
        elif mode_pick < 0.45:
            T = rnd.uniform(50, 120)                                                         # theta >> T
        elif mode_pick < 0.6:
            T = rnd.uniform(3000, 4900)                                                      # theta << T
        else:
            T = rnd.choice([298.15, rnd.uniform(50, 4900)])
        P = 10 ** rnd.uniform(-4, 3)
        P2 = 10 ** rnd.uniform(-4, 3)
        dth = p['vib']['theta'] if cfg['vib'] == 'Debye' else None
        events.append(thermo_event(sp, 'total', case['hasTrans'], T, P, P2, dth))
        order = ('trans', 'vib', 'rot', 'elec', 'nucl')
        for g, name in GNAME.items():
            if g == 'q' and case['qMissing']:
                continue
            kw = {'T': T, 'P': P}
            parts = [float(x) for x in getattr(sp, name)(verbose=True, **kw)]
            tot = float(getattr(sp, name)(verbose=False, **kw))
            norefs = float(getattr(sp, name)(verbose=False, use_references=False, **kw))
            direct = [call(modes[s], name, **kw) for s in order]
            events.append({'ev': 'verbose', 'g': g, 'tot': to_dec(tot), 'norefs': to_dec(norefs),
                           'parts': [to_dec(x) for x in parts], 'direct': [to_dec(x) for x in direct]})
        # entropy of the elements as an option of S, F and G: the total drops by S_ele and stays the sum of
        # the verbose vector (S_ele for the reference: the library's own element table, judged by C12)
        from pmutt import constants as c
        selref = sum(c.S_elements[el] * n for el, n in elements.items())      # table entries are S/R
        for g in ('S', 'F', 'G'):
            name = GNAME[g]
            kw = {'T': T, 'P': P}
            try:
                tot0 = float(getattr(sp, name)(verbose=False, **kw))
                parts0 = [float(x) for x in getattr(sp, name)(verbose=True, **kw)]
                tot = float(getattr(sp, name)(verbose=False, S_elements=True, **kw))
                parts = [float(x) for x in getattr(sp, name)(verbose=True, S_elements=True, **kw)]
            except TypeError:
                continue
            sr = selref if g == 'S' else -selref
            events.append({'ev': 'verbose_sel', 'g': g, 'tot': to_dec(tot), 'tot0': to_dec(tot0),
                           'parts': [to_dec(x) for x in parts], 'parts0': [to_dec(x) for x in parts0],
                           'selref': to_dec(sr)})
        # option combinations on a twin species that carries a References object (an enthalpy offset):
        # the defining relations under every (use_references, S_elements) combination, dimensionless and in J/mol
        if k == 0:
            from pmutt.empirical.references import References
            off = {el: rnd.uniform(-3.0, 3.0) for el in elements}
            T_ref = rnd.choice([298.15, 500.0, rnd.uniform(200, 900)])
            sp_ref = StatMech(name='spr', trans_model=modes['trans'], vib_model=modes['vib'], rot_model=modes['rot'],
                              elec_model=modes['elec'], nucl_model=modes['nucl'], elements=elements,
                              references=References(offset=dict(off), T_ref=T_ref))
            rows = []
            try:
                for ur in (True, False):
                    for se in (True, False):
                        kw = {'T': T, 'P': P, 'use_references': ur}
                        kws = dict(kw, S_elements=se)
                        rows.append({'ur': ur, 'se': se,
                                     'G': to_dec(float(sp_ref.get_GoRT(**kws))), 'H': to_dec(float(sp_ref.get_HoRT(**kw))),
                                     'S': to_dec(float(sp_ref.get_SoR(**kws))), 'U': to_dec(float(sp_ref.get_UoRT(**kw))),
                                     'F': to_dec(float(sp_ref.get_FoRT(**kws))),
                                     'Gd': to_dec(float(sp_ref.get_G(units='J/mol', **kws))),
                                     'Hd': to_dec(float(sp_ref.get_H(units='J/mol', **kw))),
                                     'Sd': to_dec(float(sp_ref.get_S(units='J/mol/K', **kws))),
                                     'Ud': to_dec(float(sp_ref.get_U(units='J/mol', **kw))),
                                     'Fd': to_dec(float(sp_ref.get_F(units='J/mol', **kws)))})
            except (TypeError, AttributeError, ValueError) as ex:
                # a mode without q (no F) etc.: the plain species raises the same way and is judged elsewhere
                rows = None
                OPT_SKIPS.append(type(ex).__name__)
            if rows is not None:
                refoff = -sum(off[el] * n for el, n in elements.items()) * T_ref / T
                events.append({'ev': 'opt', 'T': to_dec(T), 'refoff': to_dec(refoff), 'rows': rows})
        for slot in order:
            kind = cfg[slot]
            if kind in ('Empty', 'EmptyNucl'):
                continue
            events.append(thermo_event(modes[slot], kind, kind == 'FreeTrans', T, P, P2, dth if kind == 'Debye' else None))
            events.extend(mode_events(slot, kind, modes[slot], p, T, P))
    return events, {'params': p}


POINT_GROUPS = ['C1', 'Cs', 'C2', 'C2v', 'C3v', 'Cinfv', 'D2h', 'D3h', 'D5h', 'Dinfh', 'D3d', 'Td', 'Oh']


def exec_labels(case):
    """symmetry numbers given as point-group labels: every documented label, plus labels that are not documented"""
    import warnings
    warnings.simplefilter('ignore')
    from pmutt.statmech import rot, StatMech
    rnd = random.Random(case['cseed'])
    events = []
    for label in POINT_GROUPS + ['C7x', 'td', '']:
        linear = label in ('Cinfv', 'Dinfh')
        thetas = [rnd.uniform(0.5, 80)] if linear else [rnd.uniform(0.05, 60) for _ in range(3)]
        geom = 'linear' if linear else 'nonlinear'
        T = rnd.uniform(100, 3000)
        try:
            if case['via'] == 'statmech':          # through the species constructor's keyword routing
                sp = StatMech(rot_model=rot.RigidRotor, symmetrynumber=label, rot_temperatures=thetas, geometry=geom)
                r = sp.rot_model
            else:
                r = rot.RigidRotor(symmetrynumber=label, rot_temperatures=thetas, geometry=geom)
            sigma = r.symmetrynumber
            q = float(r.get_q(T=T))
            qnum = float(rot.RigidRotor(symmetrynumber=sigma, rot_temperatures=thetas, geometry=geom).get_q(T=T))
            events.append({'ev': 'pointgroup', 'label': label, 'st': 'ok', 'sigma': to_dec(float(sigma)),
                           'q': to_dec(q), 'qnum': to_dec(qnum)})
        except ValueError:
            events.append({'ev': 'pointgroup', 'label': label, 'st': 'raise', 'sigma': [0, 0], 'q': [0, 0], 'qnum': [0, 0]})
    return events, {}


def exec_cache(case):
    """VibCache behaviour -> real object; getter equality with a fresh object built from TLC's valid list"""
    import warnings
    warnings.simplefilter('ignore')
    import numpy as np
    from pmutt.statmech import vib
    kind = case['vibkind']

    as_int = case.get('int_wn', False)          # integer-typed wavenumber input
    frac = 0.5 if case.get('fracsub', False) else 0.0   # the model's substitute 50 stands for 50.5

    def num(w):
        return int(w) if as_int else float(w)

    def mk(wn, sub):
        if kind == 'harmonic':
            return vib.HarmonicVib(vib_wavenumbers=[num(w) for w in wn], imaginary_substitute=sub)
        return vib.QRRHOVib(vib_wavenumbers=np.array([num(w) for w in wn]), imaginary_substitute=sub)

    def mk_fresh(valid, subint):
        vals = [float(v) + (frac if (subint and v == subint) else 0.0) for v in valid]
        if kind == 'harmonic':
            return vib.HarmonicVib(vib_wavenumbers=vals, imaginary_substitute=None)
        return vib.QRRHOVib(vib_wavenumbers=np.array(vals), imaginary_substitute=None)

    def obs(o):
        out = [float(o.get_ZPE())]
        for T in (150.0, 900.0):
            out += [float(o.get_CvoR(T=T)), float(o.get_UoRT(T=T)), float(o.get_SoR(T=T))]
        return out

    events, mism = [], []
    obj = None
    sub_at_refresh = 0
    for k, st in enumerate(case['steps']):
        sub = (float(st['sub']) + frac) if st['sub'] else None
        if st['act'] == 'construct':
            obj = mk(st['wn'], sub)
        elif st['act'] == 'set_wn':
            obj.vib_wavenumbers = np.array([num(w) for w in st['wn']])
        elif st['act'] == 'set_sub':
            obj.imaginary_substitute = sub
        # which substitute value the cached list was built with: the one in force at the last refresh
        if st['act'] in ('construct', 'set_wn'):
            sub_at_refresh = st['sub']
        fresh = mk_fresh(st['valid'], sub_at_refresh)
        a, b = obs(obj), obs(fresh)
        if a != b:
            mism.append({'step': k, 'op': st, 'got': a, 'expected': b})
        if not st['stale'] and kind == 'harmonic':
            T = 400.0
            p = {'vib': {'wn': [float(w) for w in st['wn']], 'sub': sub}}
            events.extend(mode_events('vib', 'Harmonic', obj, p, T, 1.0))
    return events, {'mism': mism}


def exec_geometry(case):
    import warnings
    warnings.simplefilter('ignore')
    import numpy as np
    from ase.collections import g2
    from pmutt import get_molecular_weight, parse_formula
    from pmutt.statmech.rot import get_geometry_from_atoms, get_rot_temperatures_from_atoms
    rnd = random.Random(case['cseed'])
    atoms = g2[case['mol']]

    def derived(a):
        geom = get_geometry_from_atoms(a)
        ths = sorted(float(t) for t in get_rot_temperatures_from_atoms(a))
        comp = parse_formula(a.get_chemical_formula('hill'))
        return {'geom': geom, 'thetas': [to_dec(t) for t in ths],
                'mass': to_dec(get_molecular_weight(a.get_chemical_formula('hill'))),
                'comp': sorted([k, int(v)] for k, v in comp.items())}

    a0 = derived(atoms)
    events = []
    cur = atoms.copy()
    for _ in range(case['nsteps']):
        op = rnd.choice(['rotate', 'translate', 'permute'])
        if op == 'rotate':
            v = [rnd.gauss(0, 1) for _ in range(3)]
            cur.rotate(rnd.uniform(0, 360), v, center=(rnd.uniform(-1, 1), 0, 0))
        elif op == 'translate':
            cur.translate([rnd.uniform(-20, 20) for _ in range(3)])
        else:
            idx = list(range(len(cur)))
            rnd.shuffle(idx)
            cur = cur[idx]
        events.append({'ev': 'geometry', 'op': op, 'a': a0, 'b': derived(cur)})
    return events, {}


def execute(case):
    try:
        if case['kind'] == 'config':
            return exec_config(case)
        if case['kind'] == 'cache':
            return exec_cache(case)
        if case['kind'] == 'labels':
            return exec_labels(case)
        return exec_geometry(case)
    except core.MachineryError:
        raise
    except Exception as ex:
        import traceback
        return [], {'raised': '%s: %s' % (type(ex).__name__, ex), 'tb': traceback.format_exc()[-600:]}


def run(ctx):
    ctx.coverage['rule'] = (
        'config cases: every one of the 160 mode-kind configurations emitted by TLC, instantiated with random '
        'parameters over the property ranges and evaluated at several (T, P) with the regimes theta<<T, theta~T, '
        'theta>>T forced; cache cases: TLC behaviours of the vibrational cache replayed on HarmonicVib and QRRHOVib; '
        'geometry cases: G2 molecules under random rotations, translations and atom permutations; non-trivial: a '
        'config with at least one non-empty mode, a cache behaviour with a mutation, a geometry case with >= 2 atoms; '
        'distinct by (kind, configuration or behaviour or molecule, seed)')
    rnd = random.Random(ctx.seed)
    if ctx.replay_case is not None:
        cases = [ctx.replay_case['case']]
    else:
        cfgs, r = core.tlc_cases('MC_StatMech', 'MC_StatMech')
        if not r.ok:
            raise core.MachineryError('StatMech design model failed:\n' + r.out[-3000:])
        ctx.count('states', r.distinct)
        ctx.count('transitions', r.states)
        ctx.coverage.setdefault('models', []).append(
            {'module': 'MC_StatMech', 'cfg': 'MC_StatMech', 'distinct_states': r.distinct,
             'states_generated': r.states, 'ok': r.ok,
             'assumes': ['AggregatorOK over 160 configurations', 'PressureOnlyTrans']})
        rb = core.run_tlc('MC_StatMech', 'MC_StatMech_beh', workers=1, timeout=900)
        behs = [core.parse_tla(p)[1] for p in rb.prints() if core.tagged(p, 'BEH')]
        if not rb.ok or not behs:
            raise core.MachineryError('cache behaviour generation failed:\n' + rb.out[-2000:])
        ctx.coverage['tlc_cache_behaviours'] = len(behs)
        if not ctx.quick:
            rs = core.run_tlc('MC_StatMech', 'MC_StatMech_sim', workers=1, timeout=1500,
                              extra=['-simulate', 'num=3000', '-depth', '8', '-seed', str(ctx.seed + 7)])
            behs += [core.parse_tla(p)[1] for p in rs.prints() if core.tagged(p, 'BEH')]
        rnd.shuffle(behs)
        if ctx.quick:
            behs = behs[:1200]
        cases = []
        for rep in range(ctx.pick(2, 25)):
            for cfg in cfgs:
                cases.append({'kind': 'config',
                              'cfg': {k: cfg[k] for k in ('trans', 'vib', 'rot', 'elec', 'nucl')},
                              'hasTrans': cfg['hasTrans'], 'qMissing': cfg['qMissing'],
                              'npoints': ctx.pick(2, 4), 'cseed': rnd.randrange(1 << 30)})
        for i, h in enumerate(behs):
            cases.append({'kind': 'cache', 'vibkind': 'harmonic' if i % 2 == 0 else 'qrrho',
                          'int_wn': (i // 2) % 2 == 1, 'fracsub': (i // 4) % 2 == 1,
                          'steps': [{'act': s['act'], 'wn': s['wn'], 'sub': s['sub'], 'valid': s['valid'],
                                     'stale': s['stale']} for s in h]})
        from ase.collections import g2
        names = list(g2.names)
        rnd.shuffle(names)
        for mol in names[:ctx.pick(60, len(names))]:
            cases.append({'kind': 'geometry', 'mol': mol, 'nsteps': ctx.pick(4, 12), 'cseed': rnd.randrange(1 << 30)})
    if ctx.replay_case is None:
        for via in ('direct', 'statmech'):
            cases.append({'kind': 'labels', 'via': via, 'cseed': rnd.randrange(1 << 30)})
    results = core.pmap(execute, cases)
    traces = []
    for tid, (case, (events, info)) in enumerate(zip(cases, results)):
        ctx.evaluated()
        tags = {'kind': case['kind']}
        if case['kind'] == 'config':
            tags.update(case['cfg'])
            if any(v not in ('Empty',) for v in case['cfg'].values()):
                ctx.nontrivial(['config', case['cfg'], case['cseed']])
        elif case['kind'] == 'cache':
            if len(case['steps']) > 1:
                ctx.nontrivial(['cache', case['vibkind'], case['steps']])
        elif case['kind'] == 'labels':
            ctx.nontrivial(['labels', case['via']])
        else:
            ctx.nontrivial(['geometry', case['mol'], case['cseed']])
        if 'raised' in info:
            ctx.violation('Raises', case, tags=tags, detail=info)
        for m in info.get('mism', []):
            ctx.violation('CacheFresh', case, tags=tags, detail=m)
        traces.append((tid, events))
        if tid % 401 == 0:
            ctx.sample(case)
    n_opt = sum(1 for _, evs in traces for e in evs if e.get('ev') == 'opt')
    ctx.coverage['option_events_with_references'] = n_opt
    if ctx.replay_case is None and n_opt < 50:
        raise core.MachineryError('vacuous run: only %d option events (species with a References object)' % n_opt)
    fails, stats = core.validate_traces('Trace_StatMech', 'Trace', traces)
    ctx.count('traces_validated_against_impl', len(traces))
    ctx.coverage['trace_lines'] = stats['lines']
    seen = set()
    for tid, idx, clause in fails:
        case = cases[tid]
        ev = traces[tid][1][idx]
        tags = {'kind': case['kind'], 'ev': ev['ev'], 'obj': ev.get('kind', ev['ev']),
                'vib': case.get('cfg', {}).get('vib')}
        key = (tid, clause, tags['obj'])
        if key in seen:
            continue
        seen.add(key)
        ctx.violation(clause, case, tags=tags, detail={'event_index': idx, 'params': results[tid][1].get('params')})
    ctx.assume('exp and ln values are libm sensors computed from the logged arguments; quotients are witnesses verified '
               'by multiplication in TLA+; the Debye integral is a quadrature witness of the textbook integrand')
    ctx.assume('derivative relations are Richardson central differences (h = 2^-7) of recorded values')
    ctx.assume('CODATA 2014 constants in the specification; clauses hold to ~1e-6 relative of the largest operand')


if __name__ == '__main__':
    core.main('C01', 'exploration', run)
