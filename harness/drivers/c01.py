"""C01 - statistical-mechanical species are thermodynamically self-consistent.

(D)    spec/StatMech.tla: the vibrational cache as a state machine (exhaustive) and the
       mode aggregator on formal linear combinations (G = H - S, F = U - S,
       H - U = [trans] exactly for the 240 configurations of physical mode kinds and for
       none of the 3120 that hold a user-set mode); option outcomes (raise_error) on the
       shared signature table spec/StatMechSig.tla; TLC emits the configurations and the
       cache behaviours.
(S->C) cache behaviours are stepped through real HarmonicVib / QRRHOVib objects
       (getter equality with a fresh object built from the list TLC computed);
       every configuration is instantiated as a real StatMech (from instances, through
       the constructor's keyword routing with classes, through every preset).
(C->S) spec/Trace_StatMech.tla judges the recorded values: identities, Richardson
       derivative relations, pressure dependence of S, sum/product of the verbose
       vector, per-mode textbook closed forms from verified witnesses and libm
       sensors, option behaviour (raise_error / raise_warning / include_ZPE /
       use_references / S_elements / units), argument types, and invariance of
       geometry-derived parameters.
"""
import inspect
import math
import os
import random
import warnings

from harness import core
from harness.core import to_dec

H_STEP = 2.0 ** -7
G7 = ('get_CvoR', 'get_CpoR', 'get_UoRT', 'get_HoRT', 'get_SoR', 'get_FoRT', 'get_GoRT')
GNAME = {'q': 'get_q', 'Cv': 'get_CvoR', 'Cp': 'get_CpoR', 'U': 'get_UoRT', 'H': 'get_HoRT',
         'S': 'get_SoR', 'F': 'get_FoRT', 'G': 'get_GoRT'}
DIMNAME = {'Cv': 'get_Cv', 'Cp': 'get_Cp', 'U': 'get_U', 'H': 'get_H', 'S': 'get_S', 'F': 'get_F', 'G': 'get_G'}
ORDER = ('trans', 'vib', 'rot', 'elec', 'nucl')
ZD = [0, 0]

# physical constants of the harness sensors (CODATA 2014, SI)
KB_J = 1.38064852e-23
H_JS = 6.626070040e-34
NA = 6.022140857e23
C2_CMK = 1.43877736
KB_EV = 8.6173303e-5

# every unit of the documented table of pmutt.constants.R, then three per-mass forms
R_UNITS = ['J/mol/K', 'kJ/mol/K', 'L kPa/mol/K', 'cm3 kPa/mol/K', 'm3 Pa/mol/K', 'cm3 MPa/mol/K', 'm3 bar/mol/K',
           'L bar/mol/K', 'L torr/mol/K', 'cal/mol/K', 'kcal/mol/K', 'L atm/mol/K', 'cm3 atm/mol/K', 'eV/K', 'Eh/K',
           'Ha/K']
MASS_UNITS = ['J/g/K', 'kJ/kg/K', 'cal/g/K']
ALL_UNITS = R_UNITS + MASS_UNITS

# ranges of the property's quantifier
RANGES = {'wn': (10.0, 4500.0), 'rotT': (0.01, 100.0), 'M': (1.0, 500.0), 'theta': (50.0, 2000.0),
          'T': (50.0, 5000.0), 'P': (1e-4, 1e3)}
EDGES = ('interior', 'lo', 'hi', 'adj_lo', 'adj_hi', 'mixed')


def call(obj, name, **kw):
    fn = getattr(obj, name)
    params = inspect.signature(fn).parameters
    if any(p.kind == p.VAR_KEYWORD for p in params.values()):
        return float(fn(**kw))
    return float(fn(**{k: v for k, v in kw.items() if k in params}))


def call_or(obj, name, default, **kw):
    """direct call of a mode's getter; the default value when the mode has no such method"""
    if not hasattr(obj, name):
        return default
    return call(obj, name, **kw)


class PartialMode:
    """a user-written mode object (not a pmutt class) that defines only some of the getters"""

    def __init__(self, have=(), vals=None):
        self.have = tuple(have)
        self.vals = dict(vals or {})
        for g in self.have:
            v = self.vals[g]
            # the library passes arguments by reflection over co_varnames[:co_argcount]: plain closures
            if g in ('U', 'H', 'F', 'G'):
                fn = (lambda vv: (lambda T: vv / T))(v)
            else:
                fn = (lambda vv: (lambda: vv))(v)
            setattr(self, GNAME[g], fn)


def edge_value(rnd, key, edge, interior):
    """a value of one ranged quantity: on a bound, adjacent to a bound, or in the interior"""
    lo, hi = RANGES[key]
    if edge == 'mixed':
        edge = rnd.choice(['interior', 'interior', 'lo', 'hi', 'adj_lo', 'adj_hi'])
    if edge == 'lo':
        return lo
    if edge == 'hi':
        return hi
    if edge == 'adj_lo':
        return rnd.choice([math.nextafter(lo, math.inf), lo * (1 + 1e-6)])
    if edge == 'adj_hi':
        return rnd.choice([math.nextafter(hi, -math.inf), hi * (1 - 1e-6)])
    return interior()


# --------------------------------------------------------------------------
# building real objects from abstract descriptions
# --------------------------------------------------------------------------
def draw_constant(rnd):
    return {'q': rnd.choice([1.0, rnd.uniform(0.5, 50.0)]), 'Cv': rnd.choice([0.0, rnd.uniform(0, 5e-4)]),
            'Cp': rnd.uniform(0, 6e-4), 'U': rnd.uniform(-2, 2), 'H': rnd.choice([0.0, rnd.uniform(-2, 2)]),
            'S': rnd.uniform(0, 2e-3), 'F': rnd.uniform(-3, 1), 'G': rnd.uniform(-3, 1)}


def draw_partial(rnd):
    have = rnd.choice([[], ['H', 'S'], ['U', 'H', 'S', 'Cv', 'Cp'], ['q'], ['Cv', 'Cp', 'U', 'H', 'S', 'F', 'G'],
                       ['q', 'Cv', 'Cp', 'U', 'H', 'S', 'F', 'G']])
    vals = {g: (rnd.uniform(0.5, 5.0) if g == 'q' else rnd.uniform(-300.0, 300.0) if g in 'UHFG' else rnd.uniform(0, 6))
            for g in have}
    return {'have': have, 'vals': vals}


def draw_species_energy(rnd):
    """a small species with an electronic ground state (for LSR reference reactions / surfaces / gases)"""
    return {'E': rnd.choice([0.0, rnd.uniform(-40, 0), rnd.uniform(-2, 2)]), 'wn': rnd.choice([None, [rnd.uniform(100, 3000)]])}


def draw_lsr(rnd):
    """pmutt.statmech.lsr.LSR, or ExtendedLSR (several reference reactions); every component given as a float
    (kcal/mol) or as an object (a Reaction of species / a species), the surface and gas left at their default"""
    form = rnd.choice(['float', 'objects', 'mixed'])
    ext = rnd.random() < 0.3
    nterm = rnd.randint(2, 3) if ext else 1

    def comp(kind, as_obj):
        if kind == 'reaction':
            if not as_obj:
                return rnd.choice([0.0, rnd.uniform(-150, 20)])
            nreac, nprod = rnd.randint(1, 2), rnd.randint(1, 2)
            return {'reactants': [draw_species_energy(rnd) for _ in range(nreac)],
                    'rstoich': [rnd.choice([1.0, 1.0, 2.0, 0.5]) for _ in range(nreac)],
                    'products': [draw_species_energy(rnd) for _ in range(nprod)],
                    'pstoich': [rnd.choice([1.0, 1.0, 2.0]) for _ in range(nprod)]}
        return draw_species_energy(rnd) if as_obj else rnd.choice([0.0, rnd.uniform(-500, 0)])

    terms = []
    for t in range(nterm):
        if form == 'mixed':
            objs = [rnd.random() < 0.5 for _ in range(3)]
            if t == 0:
                objs = rnd.choice([[True, False, True], [False, True, False], [True, True, False]])
        else:
            objs = [form == 'objects'] * 3
        terms.append({'slope': rnd.choice([0.0, 1.0, 0.5, rnd.uniform(0, 1)]), 'reaction': comp('reaction', objs[0]),
                      'surf': comp('surf', objs[1]), 'gas': comp('gas', objs[2])})
    return {'form': form, 'extended': ext, 'intercept': rnd.choice([0.0, rnd.uniform(-30, 30)]), 'terms': terms,
            # the surface / gas argument omitted (documented default: 0)
            'surf_default': form == 'float' and rnd.random() < 0.4, 'gas_default': form == 'float' and rnd.random() < 0.3}


def draw_params(rnd, cfg, edge='interior', physical=True):
    p = {'edge': edge}
    if cfg['trans'] == 'FreeTrans':
        M = edge_value(rnd, 'M', edge, lambda: rnd.choice([1.008, 2.016, 18.015, 44.01, 18, 44, rnd.uniform(1, 500)]))
        if M in (1.0, 500.0) and rnd.random() < 0.5:
            M = int(M)
        p['trans'] = {'n': rnd.choice([3, 3, 2, 1]), 'M': M}
    v = cfg['vib']
    if v in ('Harmonic', 'QRRHO'):
        n = rnd.randint(1, 9)
        if rnd.random() < 0.12:
            # a large molecule: 30-60 modes (hexane has 54); with stiff modes at the cold end of the range the
            # partition function leaves the range of a double (sum(theta)/2T > 745) while every other quantity
            # stays ordinary
            n = rnd.randint(30, 60)
        wn = [edge_value(rnd, 'wn', edge, lambda: rnd.choice([rnd.uniform(10, 200), rnd.uniform(200, 1500),
                                                               rnd.uniform(1500, 4500)])) for _ in range(n)]
        k = rnd.random()
        if k < 0.4:
            wn[rnd.randrange(n)] = -rnd.uniform(20, 1500)          # imaginary frequency
        if k < 0.1:
            wn.append(0.0)
        sub = rnd.choice([None, None, 50.0, 100.0, 75.5, 10.0, 4500.0])
        int_wn = rnd.random() < 0.3                  # integer-typed input (list of ints / int ndarray)
        if int_wn:
            wn = [int(round(w)) for w in wn]
            sub = rnd.choice([None, 75.5, 62.25])
        p['vib'] = {'wn': wn, 'sub': sub, 'int_wn': int_wn, 'cont': rnd.choice(['list', 'tuple', 'ndarray'])}
        if v == 'QRRHO':
            p['vib'].update({'Bav': rnd.choice([1e-44, 5e-45, 3e-44]), 'v0': rnd.choice([100.0, 50.0, 150.0, 100]),
                             'alpha': rnd.choice([4, 4, 2, 6])})
    elif v in ('Einstein', 'Debye'):
        th = edge_value(rnd, 'theta', edge, lambda: rnd.choice([rnd.uniform(50, 2000), 300]))
        p['vib'] = {'theta': th, 'u': rnd.choice([0.0, 0, rnd.uniform(-2, 0.5), rnd.uniform(-2, 0.5)])}
        if v == 'Einstein' and p['vib']['u'] == 0 and rnd.random() < 0.5:
            p['vib']['u'] = None                     # interaction_energy left at its default
    elif v == 'Constant':
        p['vib'] = draw_constant(rnd)
    elif v == 'Partial':
        p['vib'] = draw_partial(rnd)
    r = cfg['rot']
    thr = lambda: edge_value(rnd, 'rotT', edge, lambda: rnd.choice([rnd.uniform(0.01, 100), rnd.uniform(0.01, 1), 2]))
    if r == 'RotLinear':
        p['rot'] = {'sigma': rnd.choice([1, 2, 1.0, 2.0]), 'thetas': [thr()]}
    elif r == 'RotNonlinear':
        p['rot'] = {'sigma': rnd.choice([1, 2, 3, 6, 12, 24, 2.0, 4.0, 10]), 'thetas': [thr() for _ in range(3)]}
    elif r == 'RotMono':
        p['rot'] = {'sigma': 1, 'thetas': [0.0]}
    elif r == 'Constant':
        p['rot'] = draw_constant(rnd)
    elif r == 'Partial':
        p['rot'] = draw_partial(rnd)
    if 'thetas' in p.get('rot', {}):
        p['rot']['cont'] = rnd.choice(['list', 'tuple', 'ndarray'])
    e = cfg['elec']
    if e == 'GroundState':
        p['elec'] = {'E': rnd.choice([0.0, 0, -3, rnd.uniform(-2, 2), rnd.uniform(-40, 0)]),
                     'spin': rnd.choice([0, 0.5, 1, 1.5, 2, 0.0, 1.0, 2.5])}
    elif e == 'LSR':
        p['elec'] = draw_lsr(rnd)
    elif e == 'Constant':
        p['elec'] = draw_constant(rnd)
    elif e == 'Partial':
        p['elec'] = draw_partial(rnd)
    for slot in ('trans', 'nucl'):
        if cfg[slot] == 'Constant':
            p[slot] = draw_constant(rnd)
        elif cfg[slot] == 'Partial':
            p[slot] = draw_partial(rnd)
    # extra models of the species (misc_models): none, one object (not in a list), a list with a hole.  A
    # ConstantMode there makes the species user-set (additivity only), so physical configurations get
    # physical extras (a second harmonic model, the placeholder)
    if physical:
        p['misc'] = rnd.choice([None, None, None, ['Harmonic'], 'single:Harmonic', ['Harmonic', None, 'Empty'], ['Empty']])
    else:
        p['misc'] = rnd.choice([None, None, ['Constant'], 'single:Constant', ['Constant', None, 'Empty'],
                                ['Empty', 'Constant', 'Harmonic']])
    if p['misc'] is not None:
        p['misc_vals'] = [draw_constant(rnd) for _ in range(3)]
        p['misc_wn'] = [rnd.uniform(10, 4500) for _ in range(rnd.randint(1, 3))]
    return p


def _container(vals, cont, as_int=False):
    import numpy as np
    if cont == 'tuple':
        return tuple(vals)
    if cont == 'ndarray':
        return np.array(vals)
    return list(vals)


def _species_from(d):
    from pmutt.statmech import StatMech, elec, vib
    kw = {'elec_model': elec.GroundStateElec(potentialenergy=d['E'], spin=0)}
    if d.get('wn'):
        kw['vib_model'] = vib.HarmonicVib(vib_wavenumbers=list(d['wn']))
    return StatMech(**kw)


def lsr_kwargs(pe):
    from pmutt.reaction import Reaction

    def rxn(r):
        if not isinstance(r, dict):
            return r
        return Reaction(reactants=[_species_from(d) for d in r['reactants']], reactants_stoich=list(r['rstoich']),
                        products=[_species_from(d) for d in r['products']], products_stoich=list(r['pstoich']))

    def spc(x):
        return _species_from(x) if isinstance(x, dict) else x

    terms = pe['terms']
    if pe['extended']:
        kw = {'slopes': [t['slope'] for t in terms], 'intercept': pe['intercept'], 'reactions': [rxn(t['reaction']) for t in terms]}
        if not pe['surf_default']:
            kw['surf_species'] = [spc(t['surf']) for t in terms]
        if not pe['gas_default']:
            kw['gas_species'] = [spc(t['gas']) for t in terms]
    else:
        t = terms[0]
        kw = {'slope': t['slope'], 'intercept': pe['intercept'], 'reaction': rxn(t['reaction'])}
        if not pe['surf_default']:
            kw['surf_species'] = spc(t['surf'])
        if not pe['gas_default']:
            kw['gas_species'] = spc(t['gas'])
    return kw


def mode_spec(slot, kind, p):
    """(class, keyword arguments) of one mode; None for the placeholder"""
    from pmutt.statmech import EmptyMode, ConstantMode, trans, vib, rot, elec, nucl
    from pmutt.statmech.lsr import LSR, ExtendedLSR
    q = p.get(slot, {})
    if kind == 'FreeTrans':
        return trans.FreeTrans, {'n_degrees': q['n'], 'molecular_weight': q['M']}
    if kind == 'Harmonic':
        return vib.HarmonicVib, {'vib_wavenumbers': _container(q['wn'], q['cont']), 'imaginary_substitute': q['sub']}
    if kind == 'QRRHO':
        return vib.QRRHOVib, {'vib_wavenumbers': _container(q['wn'], q['cont']), 'Bav': q['Bav'], 'v0': q['v0'],
                              'alpha': q['alpha'], 'imaginary_substitute': q['sub']}
    if kind == 'Einstein':
        kw = {'einstein_temperature': q['theta']}
        if q['u'] is not None:
            kw['interaction_energy'] = q['u']
        return vib.EinsteinVib, kw
    if kind == 'Debye':
        return vib.DebyeVib, {'debye_temperature': q['theta'], 'interaction_energy': q['u']}
    geom = {'RotMono': 'monatomic', 'RotLinear': 'linear', 'RotNonlinear': 'nonlinear'}
    if kind in geom:
        return rot.RigidRotor, {'symmetrynumber': q['sigma'], 'rot_temperatures': _container(q['thetas'], q['cont']),
                                'geometry': geom[kind]}
    if kind == 'GroundState':
        return elec.GroundStateElec, {'potentialenergy': q['E'], 'spin': q['spin']}
    if kind == 'LSR':
        return (ExtendedLSR if q['extended'] else LSR), lsr_kwargs(q)
    if kind == 'EmptyNucl':
        return nucl.EmptyNucl, {}
    if kind == 'Constant':
        return ConstantMode, dict(q)
    if kind == 'Partial':
        return PartialMode, {'have': list(q['have']), 'vals': dict(q['vals'])}
    return EmptyMode, {}


def build_modes(cfg, p):
    m = {}
    for slot in ORDER:
        cls, kw = mode_spec(slot, cfg[slot], p)
        m[slot] = cls(**kw)
    return m


def build_misc(p):
    from pmutt.statmech import EmptyMode, ConstantMode, vib
    if p.get('misc') is None:
        return None, []
    vals = p['misc_vals']

    def mk(k, i):
        if k is None:
            return None
        if k == 'Constant':
            return ConstantMode(**vals[i])
        if k == 'Harmonic':
            return vib.HarmonicVib(vib_wavenumbers=list(p['misc_wn']))
        return EmptyMode()

    if isinstance(p['misc'], str):
        obj = mk(p['misc'].split(':')[1], 0)
        return obj, [obj]
    out = [mk(k, i) for i, k in enumerate(p['misc'])]
    return out, out


def routable(cfg):
    kinds = [cfg[s] for s in ORDER]
    return 'Partial' not in kinds and kinds.count('Constant') <= 1


def build_species(cfg, p, form, elements, name='sp', references=None):
    """form: 'instances' (mode objects), 'classes' (the constructor's keyword routing: classes + flat keywords),
    'preset:<name>' (pmutt.statmech.presets entry + the remaining keywords)"""
    from pmutt.statmech import StatMech, presets
    misc, misc_list = build_misc(p)
    common = {'name': name, 'elements': elements, 'misc_models': misc}
    if references is not None:
        common['references'] = references
    if form == 'instances':
        modes = build_modes(cfg, p)
        sp = StatMech(trans_model=modes['trans'], vib_model=modes['vib'], rot_model=modes['rot'],
                      elec_model=modes['elec'], nucl_model=modes['nucl'], **common)
    else:
        kw = {}
        flat = {}
        for slot in ORDER:
            cls, mkw = mode_spec(slot, cfg[slot], p)
            kw[slot + '_model'] = cls
            for k, v in mkw.items():
                if k in flat and not (flat[k] is v or flat[k] == v):
                    raise core.MachineryError('keyword routing clash on %s' % k)
                flat[k] = v
        if form.startswith('preset:'):
            # the preset supplies the model classes (and what else it fixes); only the remaining flat keywords
            # are passed.  What each preset is documented to describe is PRESET_CFGS: the twin built from mode
            # objects follows that description, so a preset that drifts from it is judged by RoutedEqualsInstances
            pre = presets[form.split(':', 1)[1]]
            sp = StatMech(**pre, **{k: v for k, v in flat.items() if k not in pre}, **common)
        else:
            sp = StatMech(**kw, **flat, **common)
    modes = {slot: getattr(sp, slot + '_model') for slot in ORDER}
    return sp, modes, misc_list


def thermo_event(obj, kind, has_trans, T, P, P2, debye_theta=None):
    h = H_STEP
    Ts = [T * (1 - 2 * h), T * (1 - h), T * (1 + h), T * (1 + 2 * h)]
    v = [call(obj, g, T=T, P=P) for g in G7]
    return {'ev': 'thermo', 'kind': kind, 'hasTrans': bool(has_trans), 'T': to_dec(T), 'P': to_dec(P),
            'h': to_dec(h), 'lnP': to_dec(math.log(P2 / P)),
            'debyeX': to_dec(debye_theta / T) if debye_theta else [0, 0],
            'v': [to_dec(x) for x in v],
            'u4': [to_dec(call(obj, 'get_UoRT', T=t, P=P)) for t in Ts],
            'h4': [to_dec(call(obj, 'get_HoRT', T=t, P=P)) for t in Ts],
            's4': [to_dec(call(obj, 'get_SoR', T=t, P=P)) for t in Ts],
            'sP2': to_dec(call(obj, 'get_SoR', T=T, P=P2))}


def _ho_sensors(thetas, T):
    xs = [th / T for th in thetas]
    ex = [math.exp(-x) for x in xs]
    return {'x': [to_dec(x) for x in xs], 'ex': [to_dec(e) for e in ex],
            'y': [to_dec(e / -math.expm1(-x)) for e, x in zip(ex, xs)],
            'lg': [to_dec(math.log1p(-e)) for e in ex],
            'om': [to_dec(-math.expm1(-x)) for x in xs],
            'eh': [to_dec(math.exp(-x / 2)) for x in xs]}


def _valid(wn, sub):
    out = []
    for w in wn:
        if w > 0:
            out.append(w)
        elif sub is not None:
            out.append(sub)
    return out


def _debye3(x):
    from scipy.integrate import quad
    val = quad(lambda t: t ** 3 / math.expm1(t) if t > 0 else 0.0, 0.0, x, epsabs=1e-14, epsrel=1e-13, limit=400)[0]
    return 3.0 * val / x ** 3


def _energies_of(d):
    return d['E']


def lsr_event(mode, pe, T):
    """linear scaling relation: per reference term the slope, what the held reaction / surface / gas object
    reports (kcal/mol; the composition form of the relation) and, for components given as objects, the logged
    ground-state energies (eV) those reports are tied to"""
    kc = 'kcal/mol'
    if pe['extended']:
        rxns, surfs, gases = list(mode.reactions), list(mode.surf_species), list(mode.gas_species)
    else:
        rxns, surfs, gases = [mode.reaction], [mode.surf_species], [mode.gas_species]
    terms = []
    for t, r, su, ga in zip(pe['terms'], rxns, surfs, gases):
        rx = t['reaction']
        robj = isinstance(rx, dict)
        sobj = isinstance(t['surf'], dict) and not pe['surf_default']
        gobj = isinstance(t['gas'], dict) and not pe['gas_default']
        terms.append({'slope': to_dec(t['slope']),
                      'sub': [to_dec(float(r.get_delta_E(units=kc, T=T))), to_dec(float(su.get_E(units=kc, T=T))),
                              to_dec(float(ga.get_E(units=kc, T=T)))],
                      'rxnObj': robj, 'surfObj': sobj, 'gasObj': gobj,
                      'eR': [to_dec(d['E']) for d in rx['reactants']] if robj else [],
                      'nR': [to_dec(x) for x in rx['rstoich']] if robj else [],
                      'eP': [to_dec(d['E']) for d in rx['products']] if robj else [],
                      'nP': [to_dec(x) for x in rx['pstoich']] if robj else [],
                      'eS': to_dec(t['surf']['E']) if sobj else ZD, 'eG': to_dec(t['gas']['E']) if gobj else ZD,
                      # float components (kcal/mol) as given; an omitted surface / gas is the documented 0
                      'fS': to_dec(0.0 if pe['surf_default'] else t['surf']) if not sobj else ZD,
                      'fG': to_dec(0.0 if pe['gas_default'] else t['gas']) if not gobj else ZD,
                      'fR': to_dec(rx) if not robj else ZD})
    return {'ev': 'lsr', 'form': pe['form'], 'extended': bool(pe['extended']), 'T': to_dec(T), 'intercept': to_dec(pe['intercept']),
            'nterms': len(pe['terms']), 'terms': terms,
            'U': to_dec(call(mode, 'get_UoRT', T=T)), 'H': to_dec(call(mode, 'get_HoRT', T=T)),
            'S': to_dec(call(mode, 'get_SoR')), 'Cv': to_dec(call(mode, 'get_CvoR')), 'Cp': to_dec(call(mode, 'get_CpoR')),
            'F': to_dec(call(mode, 'get_FoRT', T=T)), 'G': to_dec(call(mode, 'get_GoRT', T=T))}


def mode_events(slot, kind, mode, p, T, P):
    """closed-form event for one mode (textbook expression judged by the trace spec)"""
    e = None
    if kind in ('Harmonic', 'QRRHO'):
        wn, sub = p['vib']['wn'], p['vib']['sub']
        nu = _valid(wn, sub)
        thetas = [C2_CMK * w for w in nu]
        e = {'ev': 'harmonic' if kind == 'Harmonic' else 'qrrho', 'T': to_dec(T),
             'wn': [to_dec(w) for w in wn], 'hasSub': sub is not None, 'sub': to_dec(sub or 0.0),
             'U': to_dec(call(mode, 'get_UoRT', T=T)), 'S': to_dec(call(mode, 'get_SoR', T=T)),
             'Cv': to_dec(call(mode, 'get_CvoR', T=T)), 'ZPE': to_dec(mode.get_ZPE())}
        e.update(_ho_sensors(thetas, T))
        if kind == 'Harmonic':
            e['q'] = to_dec(call(mode, 'get_q', T=T, include_ZPE=True))
            e['qdef'] = to_dec(call(mode, 'get_q', T=T))
            e['qnz'] = to_dec(call(mode, 'get_q', T=T, include_ZPE=False))
        else:
            v0, Bav, alpha = p['vib']['v0'], p['vib']['Bav'], p['vib']['alpha']
            e['v0'] = to_dec(v0)
            e['alpha'] = int(alpha)
            ws, ls, omw = [], [], []
            for w in nu:
                ws.append(1.0 / (1.0 + (v0 / w) ** alpha))
                omw.append((v0 / w) ** alpha / (1.0 + (v0 / w) ** alpha))
                mu = H_JS / (8.0 * math.pi ** 2 * (w * 100.0) * 299792458.0)
                mu1 = mu * Bav / (mu + Bav)
                ls.append(0.5 * math.log(8.0 * math.pi ** 3 * mu1 * KB_J * T / H_JS ** 2))
            e['w'] = [to_dec(x) for x in ws]
            e['ls'] = [to_dec(x) for x in ls]
            e['omw'] = [to_dec(x) for x in omw]
    elif kind in ('Einstein', 'Debye'):
        th, u = p['vib']['theta'], p['vib']['u'] or 0.0
        x = th / T
        ex = math.exp(-x)
        e = {'ev': kind.lower(), 'T': to_dec(T), 'theta': to_dec(th), 'u': to_dec(u), 'x': to_dec(x),
             'ex': to_dec(ex), 'om': to_dec(-math.expm1(-x)), 'y': to_dec(ex / -math.expm1(-x)),
             'lg': to_dec(math.log1p(-ex)),
             'U': to_dec(call(mode, 'get_UoRT', T=T)), 'S': to_dec(call(mode, 'get_SoR', T=T)),
             'Cv': to_dec(call(mode, 'get_CvoR', T=T)), 'ZPE': to_dec(mode.get_ZPE())}
        if kind == 'Debye':
            e['D3'] = to_dec(_debye3(x))
    elif kind in ('RotMono', 'RotLinear', 'RotNonlinear'):
        sig, ths = p['rot']['sigma'], p['rot']['thetas']
        geom = {'RotMono': 'monatomic', 'RotLinear': 'linear', 'RotNonlinear': 'nonlinear'}[kind]
        if geom == 'linear':
            lq = math.log(T / sig / ths[0])
        elif geom == 'nonlinear':
            lq = math.log(math.sqrt(math.pi) / sig * math.sqrt(T ** 3 / (ths[0] * ths[1] * ths[2])))
        else:
            lq = 0.0
        e = {'ev': 'rotor', 'geom': geom, 'sigma': to_dec(sig), 'thetas': [to_dec(t) for t in ths],
             'T': to_dec(T), 'lq': to_dec(lq), 'q': to_dec(call(mode, 'get_q', T=T)),
             'U': to_dec(call(mode, 'get_UoRT')), 'S': to_dec(call(mode, 'get_SoR', T=T)),
             'Cv': to_dec(call(mode, 'get_CvoR'))}
    elif kind == 'FreeTrans':
        n, M = p['trans']['n'], p['trans']['M']
        m = M * 1e-3 / NA
        V = KB_J * T / (P * 1e5)
        st = 1.0 + n / 2.0 + math.log((2 * math.pi * m * KB_J * T / H_JS ** 2) ** (n / 2.0) * V)
        e = {'ev': 'trans', 'n': n, 'T': to_dec(T), 'P': to_dec(P), 'st': to_dec(st),
             'U': to_dec(call(mode, 'get_UoRT')), 'H': to_dec(call(mode, 'get_HoRT')),
             'Cv': to_dec(call(mode, 'get_CvoR')), 'Cp': to_dec(call(mode, 'get_CpoR')),
             'S': to_dec(call(mode, 'get_SoR', T=T, P=P))}
    elif kind == 'GroundState':
        E, spin = p['elec']['E'], p['elec']['spin']
        e = {'ev': 'elec', 'T': to_dec(T), 'E': to_dec(E), 'lg': to_dec(math.log(2 * spin + 1)),
             'U': to_dec(call(mode, 'get_UoRT', T=T)), 'H': to_dec(call(mode, 'get_HoRT', T=T)),
             'S': to_dec(call(mode, 'get_SoR')), 'Cv': to_dec(call(mode, 'get_CvoR')),
             'Cp': to_dec(call(mode, 'get_CpoR'))}
    elif kind == 'LSR':
        e = lsr_event(mode, p['elec'], T)
    return [e] if e else []


def observe(fn, **kw):
    """one library call under an always-on warning filter: outcome class, number of 'mode lacks the quantity'
    RuntimeWarnings, the returned value"""
    with warnings.catch_warnings(record=True) as w:
        warnings.simplefilter('always')
        try:
            val = fn(**kw)
            out = 'value'
        except AttributeError:
            val, out = None, 'AttributeError'
        except NotImplementedError:
            val, out = None, 'NotImplementedError'
        except Exception as ex:                      # anything else is judged as a wrong outcome
            val, out = None, 'other:' + type(ex).__name__
    nw = sum(1 for x in w if issubclass(x.category, RuntimeWarning) and 'has no attribute' in str(x.message))
    return out, nw, val


RE_RW = ((True, True), (True, False), (False, True), (False, False))


def missing_event(sp, modes, misc_list, kinds, haves, g, T, P, dim_unit=None):
    """option matrix raise_error x raise_warning for one getter (g in GNAME, or 'ZPE' through get_quantity)"""
    op = 'prod' if g == 'q' else 'sum'
    default = 1.0 if op == 'prod' else 0.0
    kw = {'T': T, 'P': P}
    if g == 'ZPE':
        fn = lambda **k: sp.get_quantity('get_ZPE', **k)
        direct = [call_or(modes[s], 'get_ZPE', default) for s in ORDER]
        nmisc_lack = sum(1 for m in misc_list if m is not None and not hasattr(m, 'get_ZPE'))
        callname = 'get_quantity'
    else:
        name = DIMNAME[g] if dim_unit else GNAME[g]
        fn = getattr(sp, name)
        if dim_unit:
            kw['units'] = dim_unit if g in ('Cv', 'Cp', 'S') else dim_unit[:-2]
        try:
            direct = [call_or(modes[s], GNAME[g], default, **{'T': T, 'P': P}) for s in ORDER]
        except NotImplementedError:
            direct = [default] * 5
        nmisc_lack = 0
        callname = name
    rows = []
    for re_, rw in RE_RW:
        out, nw, val = observe(fn, verbose=True, raise_error=re_, raise_warning=rw, **kw)
        out0, nw0, tot = observe(fn, verbose=False, raise_error=re_, raise_warning=rw, **kw)
        rows.append({'re': re_, 'rw': rw, 'out': out, 'nwarn': nw,
                     'vec': [to_dec(float(x)) for x in val] if out == 'value' else [],
                     'out0': out0, 'nwarn0': nw0, 'tot': to_dec(float(tot)) if out0 == 'value' else ZD})
    return {'ev': 'missing', 'g': g, 'op': op, 'call': callname, 'dim': bool(dim_unit), 'kinds': list(kinds),
            'have': [list(h) for h in haves], 'direct': [to_dec(x) for x in direct], 'nmiscLack': nmisc_lack,
            'rows': rows}


def energy_event(sp, modes, kinds, haves, T, unit):
    """electronic energy with / without the zero-point energy, dimensionless and in `unit` (an energy unit)"""
    elec_m, vib_m = modes['elec'], modes['vib']
    has_u = hasattr(elec_m, 'get_UoRT')
    has_z = hasattr(vib_m, 'get_ZPE')
    rows = []
    for izpe in (None, False, True):
        for re_, rw in RE_RW:
            kw = {'T': T, 'raise_error': re_, 'raise_warning': rw}
            if izpe is not None:
                kw['include_ZPE'] = izpe
            out, nw, val = observe(sp.get_EoRT, **kw)
            outd, nwd, vald = observe(sp.get_E, units=unit, **kw)
            rows.append({'izpe': 'default' if izpe is None else ('on' if izpe else 'off'), 're': re_, 'rw': rw, 'out': out, 'nwarn': nw,
                         'val': to_dec(float(val)) if out == 'value' else ZD,
                         'outd': outd, 'nwarnd': nwd, 'vald': to_dec(float(vald)) if outd == 'value' else ZD})
    return {'ev': 'energy', 'T': to_dec(T), 'unit': unit + '/K', 'elecKind': kinds[3], 'vibKind': kinds[1],
            'elecHave': list(haves[3]), 'elecU': to_dec(call(elec_m, 'get_UoRT', T=T)) if has_u else ZD,
            'zpe': to_dec(float(vib_m.get_ZPE())) if has_z else ZD, 'rows': rows}


def argtype_event(sp, rnd, rot_nonlinear):
    """the same state given as Python float / int / numpy scalars: one species, integral T and P"""
    import numpy as np
    T = rnd.choice([50, 298, 300, 1000, 1291, 2000, 3000, 4999, 5000])
    P = rnd.choice([1, 2, 10, 1000])
    base = [call(sp, g, T=float(T), P=float(P)) for g in G7]
    alts = []
    for tname, tt in (('int', int), ('np.float64', np.float64), ('np.int64', np.int64), ('np.int32', np.int32)):
        for pname, pt in (('float', float), ('int', int), ('np.float64', np.float64), ('np.int64', np.int64)):
            if (tname, pname) not in (('int', 'float'), ('int', 'int'), ('np.float64', 'np.float64'),
                                      ('np.int64', 'np.int64'), ('np.int32', 'float'), ('np.int64', 'float')):
                continue
            with warnings.catch_warnings():
                warnings.simplefilter('ignore')
                v = [call(sp, g, T=tt(T), P=pt(P)) for g in G7]
            alts.append({'t': tname, 'p': pname, 'finite': all(core.finite(x) for x in v),
                         'v': [to_dec(x) if core.finite(x) else ZD for x in v]})
    return {'ev': 'argtype', 'T': to_dec(float(T)), 'P': to_dec(float(P)), 'v': [to_dec(x) for x in base], 'alts': alts,
            'rotNonlinear': bool(rot_nonlinear)}


def apply_edit(rnd, cfg, p, modes):
    """edit a parameter of every closed-form mode by attribute assignment (the object is then re-evaluated);
    returns the number of edits"""
    import numpy as np
    n = 0
    if cfg['trans'] == 'FreeTrans':
        if rnd.random() < 0.5:
            p['trans']['n'] = rnd.choice([1, 2, 3])
            modes['trans'].n_degrees = p['trans']['n']
        else:
            p['trans']['M'] = rnd.uniform(1, 500)
            modes['trans'].molecular_weight = p['trans']['M']
        n += 1
    v = cfg['vib']
    if v in ('Harmonic', 'QRRHO'):
        wn = [rnd.uniform(10, 4500) for _ in range(rnd.randint(1, 6))]
        if rnd.random() < 0.4:
            wn[0] = -rnd.uniform(20, 800)
        p['vib']['wn'] = wn
        modes['vib'].vib_wavenumbers = np.array(wn)
        n += 1
    elif v in ('Einstein', 'Debye'):
        p['vib']['theta'] = rnd.uniform(50, 2000)
        p['vib']['u'] = rnd.uniform(-2, 0.5)
        setattr(modes['vib'], 'einstein_temperature' if v == 'Einstein' else 'debye_temperature', p['vib']['theta'])
        modes['vib'].interaction_energy = p['vib']['u']
        n += 1
    if cfg['rot'] in ('RotLinear', 'RotNonlinear'):
        p['rot']['sigma'] = rnd.choice([1, 2, 3, 6])
        p['rot']['thetas'] = [rnd.uniform(0.01, 100) for _ in p['rot']['thetas']]
        modes['rot'].symmetrynumber = p['rot']['sigma']
        modes['rot'].rot_temperatures = list(p['rot']['thetas'])
        n += 1
    if cfg['elec'] == 'GroundState':
        p['elec']['spin'] = rnd.choice([s for s in (0, 0.5, 1, 1.5, 2, 3) if s != p['elec']['spin']])
        p['elec']['E'] = rnd.uniform(-40, 2)
        modes['elec'].spin = p['elec']['spin']
        modes['elec'].potentialenergy = p['elec']['E']
        n += 1
    elif cfg['elec'] == 'LSR':
        for t in p['elec']['terms']:
            t['slope'] = rnd.uniform(0, 1)
        p['elec']['intercept'] = rnd.uniform(-30, 30)
        if p['elec']['extended']:
            modes['elec'].slopes = [t['slope'] for t in p['elec']['terms']]
        else:
            modes['elec'].slope = p['elec']['terms'][0]['slope']
        modes['elec'].intercept = p['elec']['intercept']
        n += 1
    return n


def pick_T(rnd, edge, thetas_char, k):
    if k == 0 and edge != 'interior':
        return edge_value(rnd, 'T', edge, lambda: rnd.uniform(50, 5000))
    mode_pick = rnd.random()
    if thetas_char and mode_pick < 0.3:
        return min(5000.0, max(50.0, rnd.choice(thetas_char) * rnd.uniform(0.7, 1.4)))      # theta ~ T
    if mode_pick < 0.45:
        return rnd.uniform(50, 120)                                                         # theta >> T
    if mode_pick < 0.6:
        return rnd.uniform(3000, 5000)                                                      # theta << T
    return rnd.choice([298.15, rnd.uniform(50, 5000)])


def exec_config(case):
    warnings.simplefilter('ignore')
    from pmutt.statmech import StatMech
    rnd = random.Random(case['cseed'])
    cfg = case['cfg']
    idx = case.get('idx', 0)
    edge = case.get('edge', 'interior')
    physical = case.get('physical', True)
    cov = {}

    def hit(key, n=1):
        cov[key] = cov.get(key, 0) + n

    p = draw_params(rnd, cfg, edge, physical)
    if case.get('preset') == 'idealgas':
        p['trans']['n'] = 3
    elements = rnd.choice([{'C': 1, 'O': 2}, {'H': 2, 'O': 1}, {'N': 2}, {'C': 2, 'H': 6, 'O': 1}])
    form = case.get('form', 'instances')
    if form != 'instances' and not routable(cfg):
        form = 'instances'
    sp, modes, misc_list = build_species(cfg, p, form, elements)
    hit('form:' + form.split(':')[0])
    if form.startswith('preset:'):
        hit(form)
    if p['misc'] is not None:
        hit('misc:' + ('single' if isinstance(p['misc'], str) else 'list'))
    kinds = [cfg[s] for s in ORDER]
    haves = [p.get(s, {}).get('have', []) if cfg[s] == 'Partial' else [] for s in ORDER]
    has_partial = 'Partial' in kinds
    # verbose calls on a species with a partial mode need raise_error off (judged by the `missing` events)
    vopt = {'raise_error': False, 'raise_warning': False} if has_partial else {}
    events = []
    # every parameter on a bound of its range
    for key, vals in (('wn', p.get('vib', {}).get('wn', []) if cfg['vib'] in ('Harmonic', 'QRRHO') else []),
                      ('rotT', p.get('rot', {}).get('thetas', []) if cfg['rot'] in ('RotLinear', 'RotNonlinear') else []),
                      ('M', [p['trans']['M']] if cfg['trans'] == 'FreeTrans' else []),
                      ('theta', [p['vib']['theta']] if cfg['vib'] in ('Einstein', 'Debye') else [])):
        lo, hi = RANGES[key]
        for x in vals:
            if x == lo:
                hit(key + '=lo')
            elif x == hi:
                hit(key + '=hi')
            elif lo < x <= lo * (1 + 2e-6):
                hit(key + '~lo')
            elif hi * (1 - 2e-6) <= x < hi:
                hit(key + '~hi')
    thetas_char = []
    if cfg['vib'] in ('Harmonic', 'QRRHO', 'Einstein', 'Debye'):
        thetas_char = [C2_CMK * abs(w) for w in p['vib'].get('wn', [])] or [p['vib'].get('theta', 300.0)]
    # the twin built the other way (mode objects <-> classes routed through the constructor)
    if routable(cfg):
        other = 'classes' if form == 'instances' else 'instances'
        sp_twin, _, _ = build_species(cfg, p, other, elements)
    else:
        sp_twin = None
    for k in range(case['npoints']):
        if k == 1 and physical:
            hit('edits', apply_edit(rnd, cfg, p, modes))
            sp_twin = None
        T = pick_T(rnd, edge, thetas_char, k)
        if k == 0 and edge != 'interior':
            P = edge_value(rnd, 'P', edge, lambda: 10 ** rnd.uniform(-4, 3))
        else:
            P = 10 ** rnd.uniform(-4, 3)
        P2 = rnd.choice([10 ** rnd.uniform(-4, 3), 1e-4, 1e3])
        if P2 == P:
            P2 = 1.0
        for key, x in (('T', T), ('P', P)):
            lo, hi = RANGES[key]
            if x == lo:
                hit(key + '=lo')
            elif x == hi:
                hit(key + '=hi')
            elif lo < x <= lo * (1 + 2e-6):
                hit(key + '~lo')
            elif hi * (1 - 2e-6) <= x < hi:
                hit(key + '~hi')
        dth = p['vib']['theta'] if cfg['vib'] == 'Debye' else None
        if physical:
            events.append(thermo_event(sp, 'total', case['hasTrans'], T, P, P2, dth))
        # ---- the verbose vector against direct calls of the modes and of the extra models
        for g, name in GNAME.items():
            kw = {'T': T, 'P': P}
            izpe = 'default'
            if g == 'q':
                if case['qMissing']:
                    continue
                izpe = rnd.choice(['default', True, False])
                if izpe != 'default':
                    kw['include_ZPE'] = izpe
                hit('q_include_ZPE:%s' % izpe)
            default = 1.0 if g == 'q' else 0.0
            parts = [float(x) for x in getattr(sp, name)(verbose=True, **kw, **vopt)]
            tot = float(getattr(sp, name)(verbose=False, **kw, **vopt))
            norefs = float(getattr(sp, name)(verbose=False, use_references=False, **kw, **vopt))
            direct = [call_or(modes[s], name, default, **kw) for s in ORDER]
            dmisc = [default if m is None else call(m, name, **kw) for m in misc_list]
            events.append({'ev': 'verbose', 'g': g, 'tot': to_dec(tot), 'norefs': to_dec(norefs), 'izpe': str(izpe),
                           'parts': [to_dec(x) for x in parts], 'direct': [to_dec(x) for x in direct],
                           'nmisc': len(misc_list), 'dmisc': [to_dec(x) for x in dmisc], 'hasRefs': False,
                           'refs': ZD})
        # ---- species built through the other construction form
        if sp_twin is not None and k == 0:
            rows = []
            for g, name in GNAME.items():
                if g == 'q' and case['qMissing']:
                    continue
                a = [float(x) for x in getattr(sp, name)(verbose=True, T=T, P=P)]
                b = [float(x) for x in getattr(sp_twin, name)(verbose=True, T=T, P=P)]
                rows.append({'g': g, 'a': [to_dec(x) for x in a], 'b': [to_dec(x) for x in b]})
            events.append({'ev': 'routed', 'form': form, 'rows': rows})
            hit('routed')
        # ---- raise_error / raise_warning
        if k == 0:
            gs = list(GNAME) if has_partial else [list(GNAME)[(idx + j) % 8] for j in range(2)]
            for g in gs:
                events.append(missing_event(sp, modes, misc_list, kinds, haves, g, T, P))
            events.append(missing_event(sp, modes, misc_list, kinds, haves, 'ZPE', T, P))
            if has_partial:
                gd = list(DIMNAME)[idx % 7]
                events.append(missing_event(sp, modes, misc_list, kinds, haves, gd, T, P, dim_unit=R_UNITS[idx % 16]))
                hit('missing_dim')
            hit('missing', len(gs) + 1)
            if any(haves[i] != list(GNAME) and kinds[i] == 'Partial' for i in range(5)):
                hit('missing_lacking')
        # ---- electronic energy, include_ZPE
        events.append(energy_event(sp, modes, kinds, haves, T, R_UNITS[(idx + k) % 16][:-2]))
        hit('energy')
        hit('energy_unit:' + R_UNITS[(idx + k) % 16][:-2])
        hit('energy_vib:' + cfg['vib'])
        if not physical:
            continue
        # ---- argument types
        if k == 0:
            events.append(argtype_event(sp, rnd, cfg['rot'] == 'RotNonlinear'))
            hit('argtype')
        # entropy of the elements as an option of S, F and G: the total drops by S_ele and stays the sum of
        # the verbose vector (S_ele for the reference: the library's own element table, judged by C12)
        from pmutt import constants as c
        selref = sum(c.S_elements[el] * n for el, n in elements.items())      # table entries are S/R
        for g in ('S', 'F', 'G'):
            name = GNAME[g]
            kw = {'T': T, 'P': P}
            tot0 = float(getattr(sp, name)(verbose=False, **kw))
            parts0 = [float(x) for x in getattr(sp, name)(verbose=True, **kw)]
            tot = float(getattr(sp, name)(verbose=False, S_elements=True, **kw))
            parts = [float(x) for x in getattr(sp, name)(verbose=True, S_elements=True, **kw)]
            sr = selref if g == 'S' else -selref
            events.append({'ev': 'verbose_sel', 'g': g, 'tot': to_dec(tot), 'tot0': to_dec(tot0),
                           'parts': [to_dec(x) for x in parts], 'parts0': [to_dec(x) for x in parts0],
                           'selref': to_dec(sr)})
        # option combinations on a twin species that carries a References object (an enthalpy offset):
        # the defining relations under every (use_references, S_elements) combination, dimensionless and in
        # the unit of this case (every unit of the documented table over a run)
        if k == 0:
            from pmutt.empirical.references import References
            off = {el: rnd.uniform(-3.0, 3.0) for el in elements}
            T_ref = rnd.choice([298.15, 500.0, rnd.uniform(200, 900)])
            sp_ref, modes_ref, misc_ref = build_species(cfg, p, 'instances', elements, name='spr',
                                                        references=References(offset=dict(off), T_ref=T_ref))
            unit = ALL_UNITS[idx % len(ALL_UNITS)]
            eunit = unit[:-2]
            rows = []
            for ur in (True, False):
                for se in (True, False):
                    kw = {'T': T, 'P': P, 'use_references': ur}
                    kws = dict(kw, S_elements=se)
                    rows.append({'ur': ur, 'se': se,
                                 'G': to_dec(float(sp_ref.get_GoRT(**kws))), 'H': to_dec(float(sp_ref.get_HoRT(**kw))),
                                 'S': to_dec(float(sp_ref.get_SoR(**kws))), 'U': to_dec(float(sp_ref.get_UoRT(**kw))),
                                 'F': to_dec(float(sp_ref.get_FoRT(**kws))),
                                 'Cv': to_dec(float(sp_ref.get_CvoR(**kw))), 'Cp': to_dec(float(sp_ref.get_CpoR(**kw))),
                                 'Gd': to_dec(float(sp_ref.get_G(units=eunit, **kws))),
                                 'Hd': to_dec(float(sp_ref.get_H(units=eunit, **kw))),
                                 'Sd': to_dec(float(sp_ref.get_S(units=unit, **kws))),
                                 'Ud': to_dec(float(sp_ref.get_U(units=eunit, **kw))),
                                 'Fd': to_dec(float(sp_ref.get_F(units=eunit, **kws))),
                                 'Cvd': to_dec(float(sp_ref.get_Cv(units=unit, **kw))),
                                 'Cpd': to_dec(float(sp_ref.get_Cp(units=unit, **kw))),
                                 'Hvec': [to_dec(float(x)) for x in sp_ref.get_H(units=eunit, verbose=True, **kw)]})
            refoff = -sum(off[el] * n for el, n in elements.items()) * T_ref / T
            events.append({'ev': 'opt', 'T': to_dec(T), 'refoff': to_dec(refoff), 'rows': rows, 'unit': unit,
                           'perMass': unit in MASS_UNITS})
            hit('unit:' + unit)
            # the verbose vector of the species with references: the references slot carries the offset
            for g in ('H', 'G', 'S', 'Cp'):
                name = GNAME[g]
                kw = {'T': T, 'P': P}
                parts = [float(x) for x in getattr(sp_ref, name)(verbose=True, **kw)]
                tot = float(getattr(sp_ref, name)(verbose=False, **kw))
                norefs = float(getattr(sp_ref, name)(verbose=False, use_references=False, **kw))
                direct = [call(modes_ref[s], name, **kw) for s in ORDER]
                dmisc = [0.0 if m is None else call(m, name, **kw) for m in misc_ref]
                events.append({'ev': 'verbose', 'g': g, 'tot': to_dec(tot), 'norefs': to_dec(norefs), 'izpe': 'default',
                               'parts': [to_dec(x) for x in parts], 'direct': [to_dec(x) for x in direct],
                               'nmisc': len(misc_ref), 'dmisc': [to_dec(x) for x in dmisc], 'hasRefs': True,
                               'refs': to_dec(refoff if g in ('H', 'G') else 0.0)})
            hit('verbose_refs')
        for slot in ORDER:
            kind = cfg[slot]
            if kind in ('Empty', 'EmptyNucl'):
                continue
            events.append(thermo_event(modes[slot], kind, kind == 'FreeTrans', T, P, P2, dth if kind == 'Debye' else None))
            events.extend(mode_events(slot, kind, modes[slot], p, T, P))
            if kind == 'LSR':
                hit('lsr:' + p['elec']['form'])
                hit('lsr:extended' if p['elec']['extended'] else 'lsr:single')
                if p['elec']['surf_default'] or p['elec']['gas_default']:
                    hit('lsr:default_species')
            if kind == 'QRRHO':
                hit('alpha:%d' % p['vib']['alpha'])
            if kind == 'FreeTrans':
                hit('n_degrees:%d' % p['trans']['n'])
    return events, {'params': p, 'cov': cov}


POINT_GROUPS = ['C1', 'Cs', 'C2', 'C2v', 'C3v', 'Cinfv', 'D2h', 'D3h', 'D5h', 'Dinfh', 'D3d', 'Td', 'Oh']


def exec_labels(case):
    """symmetry numbers given as point-group labels: every documented label, plus labels that are not documented"""
    warnings.simplefilter('ignore')
    from pmutt.statmech import rot, StatMech
    rnd = random.Random(case['cseed'])
    events = []
    for label in POINT_GROUPS + ['C7x', 'td', '']:
        linear = label in ('Cinfv', 'Dinfh')
        thetas = [rnd.uniform(0.5, 80)] if linear else [rnd.uniform(0.05, 60) for _ in range(3)]
        geom = 'linear' if linear else 'nonlinear'
        T = rnd.uniform(100, 3000)
        try:
            if case['via'] == 'statmech':          # through the species constructor's keyword routing
                sp = StatMech(rot_model=rot.RigidRotor, symmetrynumber=label, rot_temperatures=thetas, geometry=geom)
                r = sp.rot_model
            else:
                r = rot.RigidRotor(symmetrynumber=label, rot_temperatures=thetas, geometry=geom)
            sigma = r.symmetrynumber
            q = float(r.get_q(T=T))
            qnum = float(rot.RigidRotor(symmetrynumber=sigma, rot_temperatures=thetas, geometry=geom).get_q(T=T))
            events.append({'ev': 'pointgroup', 'label': label, 'st': 'ok', 'sigma': to_dec(float(sigma)),
                           'q': to_dec(q), 'qnum': to_dec(qnum)})
        except ValueError:
            events.append({'ev': 'pointgroup', 'label': label, 'st': 'raise', 'sigma': [0, 0], 'q': [0, 0], 'qnum': [0, 0]})
    return events, {}


def exec_cache(case):
    """VibCache behaviour -> real object; getter equality with a fresh object built from TLC's valid list"""
    warnings.simplefilter('ignore')
    import numpy as np
    from pmutt.statmech import vib
    kind = case['vibkind']

    as_int = case.get('int_wn', False)          # integer-typed wavenumber input
    frac = 0.5 if case.get('fracsub', False) else 0.0   # the model's substitute 50 stands for 50.5

    def num(w):
        return int(w) if as_int else float(w)

    def mk(wn, sub):
        if kind == 'harmonic':
            return vib.HarmonicVib(vib_wavenumbers=[num(w) for w in wn], imaginary_substitute=sub)
        return vib.QRRHOVib(vib_wavenumbers=np.array([num(w) for w in wn]), imaginary_substitute=sub)

    def mk_fresh(valid, subint):
        vals = [float(v) + (frac if (subint and v == subint) else 0.0) for v in valid]
        if kind == 'harmonic':
            return vib.HarmonicVib(vib_wavenumbers=vals, imaginary_substitute=None)
        return vib.QRRHOVib(vib_wavenumbers=np.array(vals), imaginary_substitute=None)

    def obs(o):
        out = [float(o.get_ZPE())]
        for T in (150.0, 900.0):
            out += [float(o.get_CvoR(T=T)), float(o.get_UoRT(T=T)), float(o.get_SoR(T=T))]
        return out

    events, mism = [], []
    obj = None
    sub_at_refresh = 0
    for k, st in enumerate(case['steps']):
        sub = (float(st['sub']) + frac) if st['sub'] else None
        if st['act'] == 'construct':
            obj = mk(st['wn'], sub)
        elif st['act'] == 'set_wn':
            obj.vib_wavenumbers = np.array([num(w) for w in st['wn']])
        elif st['act'] == 'set_sub':
            obj.imaginary_substitute = sub
        # which substitute value the cached list was built with: the one in force at the last refresh
        if st['act'] in ('construct', 'set_wn'):
            sub_at_refresh = st['sub']
        fresh = mk_fresh(st['valid'], sub_at_refresh)
        a, b = obs(obj), obs(fresh)
        if a != b:
            mism.append({'step': k, 'op': st, 'got': a, 'expected': b})
        if not st['stale'] and kind == 'harmonic':
            T = 400.0
            p = {'vib': {'wn': [float(w) for w in st['wn']], 'sub': sub}}
            events.extend(mode_events('vib', 'Harmonic', obj, p, T, 1.0))
    return events, {'mism': mism}


def exec_geometry(case):
    warnings.simplefilter('ignore')
    import numpy as np
    from ase.collections import g2
    from pmutt import get_molecular_weight, parse_formula
    from pmutt.statmech import StatMech, presets, trans, rot
    from pmutt.statmech.rot import get_geometry_from_atoms, get_rot_temperatures_from_atoms
    rnd = random.Random(case['cseed'])
    atoms = g2[case['mol']]

    def derived(a, form='functions'):
        if form == 'functions':
            geom = get_geometry_from_atoms(a)
            ths = sorted(float(t) for t in get_rot_temperatures_from_atoms(a))
            comp = parse_formula(a.get_chemical_formula('hill'))
            mass = get_molecular_weight(a.get_chemical_formula('hill'))
        elif form == 'modes':            # the documented atoms= argument of the mode constructors
            r = rot.RigidRotor(symmetrynumber=1, atoms=a)
            geom, ths = r.geometry, sorted(float(t) for t in r.rot_temperatures)
            mass = trans.FreeTrans(atoms=a).molecular_weight
            comp = StatMech(atoms=a).elements
        else:                            # atoms= routed through the species constructor and the ideal-gas preset
            sp = StatMech(atoms=a, vib_wavenumbers=[1000.0], potentialenergy=-1.0, spin=0, symmetrynumber=1,
                          **presets['idealgas'])
            geom, ths = sp.rot_model.geometry, sorted(float(t) for t in sp.rot_model.rot_temperatures)
            mass = sp.trans_model.molecular_weight
            comp = sp.elements
        return {'geom': geom, 'thetas': [to_dec(t) for t in ths], 'mass': to_dec(mass),
                'comp': sorted([k, int(v)] for k, v in comp.items())}

    a0 = derived(atoms)
    events = []
    cur = atoms.copy()
    forms = ('functions', 'modes', 'preset')
    for i in range(case['nsteps']):
        op = rnd.choice(['rotate', 'translate', 'permute'])
        if op == 'rotate':
            v = [rnd.gauss(0, 1) for _ in range(3)]
            cur.rotate(rnd.uniform(0, 360), v, center=(rnd.uniform(-1, 1), 0, 0))
        elif op == 'translate':
            cur.translate([rnd.uniform(-20, 20) for _ in range(3)])
        else:
            idx = list(range(len(cur)))
            rnd.shuffle(idx)
            cur = cur[idx]
        form = forms[(i + case.get('idx', 0)) % 3]
        events.append({'ev': 'geometry', 'op': op, 'form': form, 'a': a0, 'b': derived(cur, form)})
    return events, {'cov': {'geomform:' + f: sum(1 for e in events if e['form'] == f) for f in forms}}


def execute(case):
    try:
        if case['kind'] == 'config':
            return exec_config(case)
        if case['kind'] == 'cache':
            return exec_cache(case)
        if case['kind'] == 'labels':
            return exec_labels(case)
        return exec_geometry(case)
    except core.MachineryError:
        raise
    except Exception as ex:
        import traceback
        return [], {'raised': '%s: %s' % (type(ex).__name__, ex), 'tb': traceback.format_exc()[-900:]}


# the configurations each preset describes (mode kinds per slot)
PRESET_CFGS = {
    'idealgas': [{'trans': 'FreeTrans', 'vib': 'Harmonic', 'rot': r, 'elec': 'GroundState', 'nucl': 'Empty'}
                 for r in ('RotNonlinear', 'RotLinear', 'RotMono')],
    'harmonic': [{'trans': 'Empty', 'vib': 'Harmonic', 'rot': 'Empty', 'elec': 'GroundState', 'nucl': 'Empty'}],
    'electronic': [{'trans': 'Empty', 'vib': 'Empty', 'rot': 'Empty', 'elec': 'GroundState', 'nucl': 'Empty'}],
    'placeholder': [{'trans': 'Empty', 'vib': 'Empty', 'rot': 'Empty', 'elec': 'Empty', 'nucl': 'Empty'}],
    'constant': [{'trans': 'Empty', 'vib': 'Empty', 'rot': 'Empty', 'elec': 'Constant', 'nucl': 'Empty'}],
}

# coverage classes that every run must reach (zero => the run is vacuous, exit 2)
def required_counters():
    req = ['form:instances', 'form:classes', 'routed', 'edits', 'missing', 'missing_lacking', 'missing_dim', 'energy',
           'argtype', 'verbose_refs', 'misc:single', 'misc:list', 'lsr:float', 'lsr:objects', 'lsr:mixed', 'lsr:extended', 'lsr:single', 'lsr:default_species',
           'alpha:2', 'alpha:4', 'alpha:6', 'n_degrees:1', 'n_degrees:2', 'n_degrees:3',
           'q_include_ZPE:default', 'q_include_ZPE:True', 'q_include_ZPE:False',
           'geomform:functions', 'geomform:modes', 'geomform:preset']
    req += ['preset:' + k for k in PRESET_CFGS]
    req += ['unit:' + u for u in ALL_UNITS]
    req += ['energy_unit:' + u[:-2] for u in R_UNITS]
    req += ['energy_vib:' + v for v in ('Harmonic', 'QRRHO', 'Einstein', 'Debye', 'Empty', 'Constant', 'Partial')]
    for key in RANGES:
        req += [key + '=lo', key + '=hi', key + '~lo', key + '~hi']
    return req


def run(ctx):
    ctx.coverage['rule'] = (
        'config cases: every one of the 240 physical mode-kind configurations emitted by TLC (twice per quick run), a '
        'seed-rotated sample of the 3120 configurations with a user-set mode (all of them in the thorough tier) and '
        'every preset, instantiated from mode objects or through the keyword routing, with parameters on the bounds '
        'of the property ranges, adjacent to them and inside, evaluated at several (T, P) including 50 / 5000 K and '
        '1e-4 / 1e3 bar and the regimes theta<<T, theta~T, theta>>T; cache cases: TLC behaviours of the vibrational '
        'cache replayed on HarmonicVib and QRRHOVib; geometry cases: G2 molecules under random rotations, '
        'translations and atom permutations through the functions, the mode constructors and the ideal-gas preset; '
        'non-trivial: a config with at least one non-empty mode, a cache behaviour with a mutation, a geometry case; '
        'distinct by (kind, configuration or behaviour or molecule, seed)')
    rnd = random.Random(ctx.seed)
    if ctx.replay_case is not None:
        cases = [ctx.replay_case['case']]
    else:
        import concurrent.futures as cf
        with cf.ThreadPoolExecutor(max_workers=2) as ex:
            f1 = ex.submit(core.tlc_cases, 'MC_StatMech', 'MC_StatMech')
            f2 = ex.submit(core.run_tlc, 'MC_StatMech', 'MC_StatMech_beh', workers=1, timeout=900)
            cfgs, r = f1.result()
            rb = f2.result()
        if not r.ok:
            raise core.MachineryError('StatMech design model failed:\n' + r.out[-3000:])
        ctx.count('states', r.distinct)
        ctx.count('transitions', r.states)
        ctx.coverage.setdefault('models', []).append(
            {'module': 'MC_StatMech', 'cfg': 'MC_StatMech', 'distinct_states': r.distinct,
             'states_generated': r.states, 'ok': r.ok,
             'assumes': ['AggregatorOK over %d configurations' % len(cfgs), 'PressureOnlyTrans', 'OptionsOK']})
        behs = [core.parse_tla(p)[1] for p in rb.prints() if core.tagged(p, 'BEH')]
        if not rb.ok or not behs:
            raise core.MachineryError('cache behaviour generation failed:\n' + rb.out[-2000:])
        ctx.coverage['tlc_cache_behaviours'] = len(behs)
        if not ctx.quick:
            rs = core.run_tlc('MC_StatMech', 'MC_StatMech_sim', workers=1, timeout=1500,
                              extra=['-simulate', 'num=3000', '-depth', '8', '-seed', str(ctx.seed + 7)])
            behs += [core.parse_tla(p)[1] for p in rs.prints() if core.tagged(p, 'BEH')]
        rnd.shuffle(behs)
        if ctx.quick:
            behs = behs[:1000]
        keyf = lambda c: tuple(c[s] for s in ORDER)
        phys = sorted([c for c in cfgs if c['physical']], key=keyf)
        user = sorted([c for c in cfgs if not c['physical']], key=keyf)
        if len(phys) != 240 or len(user) != 3120:
            raise core.MachineryError('unexpected configuration space: %d physical, %d user-set' % (len(phys), len(user)))
        ctx.coverage['configurations'] = {'physical': len(phys), 'user_set': len(user)}
        rnd.shuffle(user)
        if ctx.quick:
            user = user[:160]
        cases = []
        idx = ctx.seed * 7
        # a balanced, seed-shuffled assignment of the boundary classes to the configuration cases
        edge_pool = []

        def config_case(cfg, **extra):
            nonlocal idx
            idx += 1
            if not edge_pool:
                edge_pool.extend(EDGES * 8)
                rnd.shuffle(edge_pool)
            d = {'kind': 'config', 'cfg': {k: cfg[k] for k in ORDER},
                 'hasTrans': cfg['hasTrans'], 'qMissing': cfg['qMissing'], 'physical': cfg['physical'],
                 'nLackZPE': cfg['nLackZPE'], 'npoints': ctx.pick(2, 4), 'cseed': rnd.randrange(1 << 30),
                 'idx': idx, 'edge': edge_pool.pop(), 'form': 'instances' if idx % 2 else 'classes'}
            d.update(extra)
            return d

        for rep in range(ctx.pick(2, 12)):
            for cfg in phys:
                cases.append(config_case(cfg))
        for cfg in user:
            cases.append(config_case(cfg, npoints=ctx.pick(1, 2)))
        bykey = {keyf(c): c for c in cfgs}
        for rep in range(ctx.pick(1, 6)):
            for name, pcs in PRESET_CFGS.items():
                for pc in pcs:
                    cases.append(config_case(bykey[keyf(pc)], form='preset:' + name, preset=name))
        for i, h in enumerate(behs):
            cases.append({'kind': 'cache', 'vibkind': 'harmonic' if i % 2 == 0 else 'qrrho',
                          'int_wn': (i // 2) % 2 == 1, 'fracsub': (i // 4) % 2 == 1,
                          'steps': [{'act': s['act'], 'wn': s['wn'], 'sub': s['sub'], 'valid': s['valid'],
                                     'stale': s['stale']} for s in h]})
        from ase.collections import g2
        names = list(g2.names)
        rnd.shuffle(names)
        for i, mol in enumerate(names[:ctx.pick(60, len(names))]):
            cases.append({'kind': 'geometry', 'mol': mol, 'nsteps': ctx.pick(4, 12), 'cseed': rnd.randrange(1 << 30), 'idx': i})
    if ctx.replay_case is None:
        for via in ('direct', 'statmech'):
            cases.append({'kind': 'labels', 'via': via, 'cseed': rnd.randrange(1 << 30)})
    results = core.pmap(execute, cases)
    traces = []
    cov = {}
    for tid, (case, (events, info)) in enumerate(zip(cases, results)):
        ctx.evaluated()
        tags = {'kind': case['kind']}
        for k, n in info.get('cov', {}).items():
            cov[k] = cov.get(k, 0) + n
        if case['kind'] == 'config':
            tags.update(case['cfg'])
            if any(v not in ('Empty',) for v in case['cfg'].values()):
                ctx.nontrivial(['config', case['cfg'], case['cseed']])
        elif case['kind'] == 'cache':
            if len(case['steps']) > 1:
                ctx.nontrivial(['cache', case['vibkind'], case['steps']])
        elif case['kind'] == 'labels':
            ctx.nontrivial(['labels', case['via']])
        else:
            ctx.nontrivial(['geometry', case['mol'], case['cseed']])
        if 'raised' in info:
            ctx.violation('Raises', case, tags=tags, detail=info)
        for m in info.get('mism', []):
            ctx.violation('CacheFresh', case, tags=tags, detail=m)
        # (S->C) the number of modes without a zero-point energy TLC computed for this configuration
        if case['kind'] == 'config' and 'nLackZPE' in case:
            for e in events:
                if e['ev'] == 'missing' and e['g'] == 'ZPE':
                    row = [r for r in e['rows'] if not r['re'] and r['rw']][0]
                    if row['out'] != 'value' or row['nwarn'] != case['nLackZPE'] + e['nmiscLack']:
                        ctx.violation('OptionReplay', case, tags=dict(tags, ev='missing'),
                                      detail={'expected_warnings': case['nLackZPE'] + e['nmiscLack'], 'row': row})
        traces.append((tid, events))
        if tid % 401 == 0:
            ctx.sample(case)
    n_opt = sum(1 for _, evs in traces for e in evs if e.get('ev') == 'opt')
    ctx.coverage['option_events_with_references'] = n_opt
    ctx.coverage['input_classes'] = dict(sorted(cov.items()))
    evc = {}
    for _, evs in traces:
        for e in evs:
            evc[e['ev']] = evc.get(e['ev'], 0) + 1
    ctx.coverage['events'] = dict(sorted(evc.items()))
    if ctx.replay_case is None:
        if n_opt < 50:
            raise core.MachineryError('vacuous run: only %d option events (species with a References object)' % n_opt)
        empty = [k for k in required_counters() if not cov.get(k)]
        if empty and not any(v['clause'] == 'Raises' for v in ctx.violations):
            # (when calls raised, the missing classes are a consequence and the Raises violations are the verdict)
            raise core.MachineryError('vacuous run: input classes never generated: %s' % ', '.join(empty))
    shards = int(os.environ.get('VERIF_SHARDS', '0') or 0) or None
    fails, stats = core.validate_traces('Trace_StatMech', 'Trace', traces, shards=shards)
    ctx.count('traces_validated_against_impl', len(traces))
    ctx.coverage['trace_lines'] = stats['lines']
    seen = set()
    for tid, idx, clause in fails:
        case = cases[tid]
        ev = traces[tid][1][idx]
        tags = {'kind': case['kind'], 'ev': ev['ev'], 'obj': ev.get('kind', ev['ev']),
                'vib': case.get('cfg', {}).get('vib')}
        key = (tid, clause, tags['obj'])
        if key in seen:
            continue
        seen.add(key)
        ctx.violation(clause, case, tags=tags, detail={'event_index': idx, 'params': results[tid][1].get('params')})
    ctx.assume('exp and ln values are libm sensors computed from the logged arguments; quotients are witnesses verified '
               'by multiplication in TLA+; the Debye integral is a quadrature witness of the textbook integrand')
    ctx.assume('derivative relations are Richardson central differences (h = 2^-7) of recorded values')
    ctx.assume('CODATA 2014 constants in the specification; clauses hold to ~1e-6 relative of the largest operand')
    ctx.assume('temperatures and pressures are scalars (the getters document T : float): Python float / int and numpy '
               'float64 / int64 / int32 scalars; arrays and float32 are outside the documented argument type')


if __name__ == '__main__':
    core.main('C01', 'exploration', run)
