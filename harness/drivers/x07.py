"""X07 - linear scaling relationships: pmutt.statmech.lsr.LSR and ExtendedLSR.

(D)    spec/Lsr.tla: exact rational model of the relation
       E = slope * dE(reaction) + intercept + E(surf) + E(gas)   (ExtendedLSR: sum over the terms)
       over the documented forms of the parts (number / species / Reaction / omitted), with the
       implementation-shaped evaluation (number -> constant species -> back, division by R T and
       multiplication back) refined against it; invariants RelationHolds, FourEqual, NoEntropy, UnitsHold,
       NeverRaises and the action properties TIndependent, LinearSlope(At), LinearIcpt, RoundTripKeeps
       checked by TLC (MC_Lsr.cfg, MC_Lsr_ext.cfg); the variants that reproduce the source as found are
       rejected (MC_Lsr_tabledrift / _unnamed / _extslope.cfg).
(S->C) MC_LsrCases: every constructible object of the small universe at every temperature with the energy
       the relation requires (plus the constant-level statements ExtOfOneIsLsr, ExtIsSumOfLsr,
       ExtAdditive); MC_Lsr_sim.cfg: random behaviours (construct, set slope / intercept / reaction /
       surf / gas, evaluate, JSON round trip).  Each is replayed on real objects; the energy in kcal/mol
       is compared with TLC's rational on a 2^-20 grid after every call.
(C->S) the same lives plus random real-valued ones (constant-energy, electronic-energy and NASA species,
       1..4 terms, include_ZPE, all unit systems) are recorded call by call and judged by
       spec/Trace_Lsr.tla.
"""
import json
import math
import random

from harness import core
from harness.core import to_dec, to_dec2

GRID = 1 << 20
UNITS = ['kcal/mol', 'kJ/mol', 'J/mol', 'cal/mol', 'eV']


# ---------------------------------------------------------------------------
# building the inputs (no judgement here)
# ---------------------------------------------------------------------------
def _species(d, name):
    from pmutt import constants as c
    from pmutt.statmech import StatMech, presets
    from harness import lib_c09
    k = d['k']
    if k == 'const':
        # ConstantMode holds eV and reports U / R('eV/K') * R(units): the species reports d['E'] kcal/mol
        e = d['E'] * c.R('eV/K') / c.R('kcal/mol/K')
        return StatMech(name=name, U=e, H=e, F=e, G=e, **presets['constant'])
    if k == 'elec':
        return lib_c09.statmech(name, d['E'], d['vib'])
    if k == 'nasa':
        return lib_c09.nasa(name, d['h'], d['s'], cp=d.get('cp', 0.0), T_ref=d.get('Tref', 256.0))
    raise core.MachineryError('unknown species kind %r' % (k,))


def _reaction(d, tag):
    """d: {'form': 'float', 'v': x} -> x ; {'form': 'reaction', 'r': [[nu, sp]..], 'p': [...]} -> Reaction"""
    if d['form'] == 'float':
        return d['v']
    from pmutt.reaction import Reaction
    rs = [_species(sp, '%s_r%d' % (tag, i)) for i, (nu, sp) in enumerate(d['r'])]
    ps = [_species(sp, '%s_p%d' % (tag, i)) for i, (nu, sp) in enumerate(d['p'])]
    return Reaction(reactants=rs, reactants_stoich=[nu for nu, _ in d['r']],
                    products=ps, products_stoich=[nu for nu, _ in d['p']])


def _part(d, tag):
    """-> None (omitted) | float | species object"""
    if d['form'] == 'default':
        return None
    if d['form'] == 'float':
        return d['v']
    return _species(d['sp'], tag)


def _species_kinds(case):
    ks = set()

    def rx(d):
        if d['form'] == 'reaction':
            for _, sp in d['r'] + d['p']:
                ks.add((sp['k'], sp.get('cp', 0.0) != 0.0))

    def part(d):
        if d['form'] == 'species':
            ks.add((d['sp']['k'], d['sp'].get('cp', 0.0) != 0.0))
    for t in case['terms']:
        rx(t['rx'])
        part(t['surf'])
        part(t['gas'])
    for op in case['ops']:
        if op[0] == 'reaction':
            rx(op[1])
        elif op[0] in ('surf', 'gas'):
            part(op[1])
    return ks


def _tconst(term):
    """every part of the term has a temperature-independent energy by construction"""
    def sp_ok(sps):
        kinds = {sp['k'] for sp in sps}
        if any(sp['k'] == 'nasa' and sp.get('cp', 0.0) != 0.0 for sp in sps):
            return False
        # an object without get_E makes the library use the enthalpy of every species of that part
        return not ('nasa' in kinds and 'elec' in kinds)
    rx = term['rx']
    if rx['form'] == 'reaction' and not sp_ok([sp for _, sp in rx['r'] + rx['p']]):
        return False
    for key in ('surf', 'gas'):
        if term[key]['form'] == 'species' and not sp_ok([term[key]['sp']]):
            return False
    return True


class Life:
    """One real object, the parts it was given and the events of its life."""

    def __init__(self, case):
        self.case = case
        self.kind = case['kind']
        self.kw = {'include_ZPE': True} if case.get('zpe') else {}
        self.terms = [dict(t) for t in case['terms']]
        self.b = case['b']
        self.given = []
        self.events = []
        self.info = []
        self.obj = None
        self.T = case['T']
        self.units = case.get('units', 'kcal/mol')

    def log(self, ev, info=None):
        self.events.append(ev)
        self.info.append(info or {})

    # ---- construction
    def construct(self):
        import numpy as np
        from pmutt.statmech.lsr import LSR, ExtendedLSR
        c = self.case
        for i, t in enumerate(self.terms):
            self.given.append({'rx': _reaction(t['rx'], 'x%d' % i), 'surf': _part(t['surf'], 's%d' % i),
                               'gas': _part(t['gas'], 'g%d' % i)})
        ev = {'ev': 'construct', 'kind': self.kind, 'as': [to_dec(t['a']) for t in self.terms],
              'b': to_dec(self.b), 'ok': True}
        try:
            kw = {}
            if c.get('notes') is not None:
                kw['notes'] = c['notes']
            if self.kind == 'lsr':
                g = self.given[0]
                if g['surf'] is not None:
                    kw['surf_species'] = g['surf']
                if g['gas'] is not None:
                    kw['gas_species'] = g['gas']
                self.obj = LSR(slope=self.terms[0]['a'], intercept=self.b, reaction=g['rx'], **kw)
            else:
                slopes = [t['a'] for t in self.terms]
                rxs = [g['rx'] for g in self.given]
                if c.get('arr'):
                    slopes = np.array(slopes)
                    if all(isinstance(r, float) for r in rxs):
                        rxs = np.array(rxs)
                if self.given[0]['surf'] is not None:
                    kw['surf_species'] = [g['surf'] for g in self.given]
                if self.given[0]['gas'] is not None:
                    kw['gas_species'] = [g['gas'] for g in self.given]
                self.obj = ExtendedLSR(slopes=slopes, intercept=self.b, reactions=rxs, **kw)
        except Exception as ex:                                     # noqa
            ev['ok'] = False
            self.log(ev, {'exc': type(ex).__name__, 'msg': str(ex)[:300]})
            return False
        self.log(ev)
        for i in range(len(self.terms)):
            for role in ('rx', 'surf', 'gas'):
                self.float_event(i, role)
        return True

    def held(self, i, role):
        """the object the library made of part `role` of term i"""
        o = self.obj
        if self.kind == 'lsr':
            return {'rx': o.reaction, 'surf': o.surf_species, 'gas': o.gas_species}[role]
        return {'rx': o.reactions, 'surf': o.surf_species, 'gas': o.gas_species}[role][i]

    def float_event(self, i, role):
        g = self.given[i][role]
        if not (g is None or isinstance(g, float)):
            return
        val = 0.0 if g is None else g
        try:
            h = self.held(i, role)
            if role == 'rx':
                rep = h.get_delta_E(units='kcal/mol', T=self.T)
            else:
                rep = h.get_E(units='kcal/mol', T=self.T)
            rep = float(rep)
            if not core.finite(rep):
                raise ValueError('non-finite')
        except Exception as ex:                                     # noqa
            self.log({'ev': 'float', 'ok': False, 'role': role, 'i': i + 1, 'val': to_dec(val), 'rep': [0, 0]},
                     {'exc': type(ex).__name__, 'msg': str(ex)[:300]})
            return
        self.log({'ev': 'float', 'ok': True, 'role': role, 'i': i + 1, 'val': to_dec(val), 'rep': to_dec(rep)},
                 {'val': val, 'rep': rep})

    # ---- the documented meaning of the parts, from the given objects themselves
    def meaning(self, i, role, T):
        g = self.given[i][role]
        if g is None:
            return 0.0
        if isinstance(g, float):
            return g
        kw = dict(self.kw)
        if role == 'rx':
            try:
                return float(g.get_delta_E(units='kcal/mol', T=T, **kw))
            except AttributeError:
                return float(g.get_delta_H(units='kcal/mol', T=T, **kw))
        try:
            return float(g.get_E(units='kcal/mol', T=T, **kw))
        except AttributeError:
            return float(g.get_H(units='kcal/mol', T=T, **kw))

    # ---- evaluation
    def evaluate(self, T):
        from pmutt import constants as c
        self.T = T
        o, kw, u = self.obj, self.kw, self.units
        n = len(self.terms)
        dE = [self.meaning(i, 'rx', T) for i in range(n)]
        Es = [self.meaning(i, 'surf', T) for i in range(n)]
        Eg = [self.meaning(i, 'gas', T) for i in range(n)]
        ev = {'ev': 'eval', 'ok': True, 'fin': True, 'T': to_dec(T), 'dE': [to_dec(x) for x in dE],
              'Es': [to_dec(x) for x in Es], 'Eg': [to_dec(x) for x in Eg],
              'ndE': [isinstance(g['rx'], float) for g in self.given],
              'nEs': [isinstance(g['surf'], float) for g in self.given],
              'nEg': [isinstance(g['gas'], float) for g in self.given],
              'tconst': all(_tconst(t) for t in self.terms), 'units': u, 'Ru': to_dec(c.R(u + '/K')),
              'oRT': [], 'zero': [], 'val': []}
        info = {'T': T, 'dE': dE, 'Es': Es, 'Eg': Eg}
        try:
            oRT = [float(f(T=T, **kw)) for f in (o.get_UoRT, o.get_HoRT, o.get_FoRT, o.get_GoRT)]
            zero = [float(o.get_SoR()), float(o.get_CvoR()), float(o.get_CpoR()),
                    float(o.get_S(units=u + '/K')), float(o.get_Cv(units=u + '/K')),
                    float(o.get_Cp(units=u + '/K'))]
            val = [float(f(units=u, T=T, **kw)) for f in (o.get_U, o.get_H, o.get_F, o.get_G)]
        except Exception as ex:                                     # noqa
            ev['ok'] = False
            info.update({'exc': type(ex).__name__, 'msg': str(ex)[:300]})
            self.log(ev, info)
            return None
        info.update({'oRT': oRT, 'val': val, 'zero': zero})
        if not all(core.finite(x) for x in oRT + zero + val):
            ev['fin'] = False
            self.log(ev, info)
            return None
        ev['oRT'] = [to_dec(x) for x in oRT]
        ev['zero'] = [to_dec(x) for x in zero]
        ev['val'] = [to_dec(x) for x in val]
        self.log(ev, info)
        try:
            return float(o.get_U(units='kcal/mol', T=T, **kw))
        except Exception:                                           # noqa
            return None

    def sum_event(self):
        """ExtendedLSR against the LSRs of its terms (zero intercept), at the temperature of the last evaluation"""
        from pmutt.statmech.lsr import LSR
        terms = []
        try:
            for t, g in zip(self.terms, self.given):
                kw = {}
                if g['surf'] is not None:
                    kw['surf_species'] = g['surf']
                if g['gas'] is not None:
                    kw['gas_species'] = g['gas']
                one = LSR(slope=t['a'], intercept=0., reaction=g['rx'], **kw)
                terms.append(float(one.get_U(units='kcal/mol', T=self.T, **self.kw)))
            if not all(core.finite(x) for x in terms):
                raise ValueError('non-finite')
        except Exception as ex:                                     # noqa
            self.log({'ev': 'sum', 'ok': False, 'terms': []}, {'exc': type(ex).__name__, 'msg': str(ex)[:300]})
            return
        self.log({'ev': 'sum', 'ok': True, 'terms': [to_dec(x) for x in terms]}, {'terms': terms})

    # ---- calls that change the object
    def set_attr(self, op):
        name = op[0]
        ev = {'ev': 'set', 'attr': name, 'i': 1, 'new': [0, 0], 'ok': True}
        try:
            if name == 'slope':
                self.obj.slope = op[1]
                self.terms[0]['a'] = op[1]
                ev['new'] = to_dec(op[1])
            elif name == 'slope_at':
                i = op[1]
                new = list(self.obj.slopes)
                new[i - 1] = op[2]
                self.obj.slopes = new
                self.terms[i - 1]['a'] = op[2]
                ev['i'] = i
                ev['new'] = to_dec(op[2])
            elif name == 'intercept':
                self.obj.intercept = op[1]
                self.b = op[1]
                ev['new'] = to_dec(op[1])
            elif name == 'reaction':
                g = _reaction(op[1], 'x0n%d' % len(self.events))
                self.obj.reaction = g
                self.given[0]['rx'] = g
                self.terms[0]['rx'] = op[1]
            elif name in ('surf', 'gas'):
                g = _part(op[1], '%s0n%d' % (name[0], len(self.events)))
                if name == 'surf':
                    self.obj.surf_species = g
                else:
                    self.obj.gas_species = g
                self.given[0][name] = g
                self.terms[0][name] = op[1]
            else:
                raise core.MachineryError('unknown op %r' % (op,))
        except core.MachineryError:
            raise
        except Exception as ex:                                     # noqa
            ev['ok'] = False
            self.log(ev, {'exc': type(ex).__name__, 'msg': str(ex)[:300]})
            return False
        self.log(ev)
        if name in ('reaction', 'surf', 'gas'):
            self.float_event(0, {'reaction': 'rx'}.get(name, name))
        return True

    def roundtrip(self, mode):
        from pmutt.io.json import pmuttEncoder, json_to_pmutt
        o = self.obj
        n = len(self.terms)
        ev = {'ev': 'roundtrip', 'ok': True, 'cls': False, 'as1': [], 'b1': [0, 0, 0], 'as2': [],
              'b2': [0, 0, 0], 'notes': False}
        try:
            if mode == 'dict':
                o2 = type(o).from_dict(o.to_dict())
            else:
                o2 = json.loads(json.dumps(o, cls=pmuttEncoder), object_hook=json_to_pmutt)
            ev['cls'] = type(o2) is type(o)
            if ev['cls']:
                if self.kind == 'lsr':
                    a1, a2 = [float(o.slope)], [float(o2.slope)]
                else:
                    a1, a2 = [float(x) for x in o.slopes], [float(x) for x in o2.slopes]
                ev['as1'] = [to_dec2(x) for x in a1]
                ev['as2'] = [to_dec2(x) for x in a2]
                ev['b1'] = to_dec2(float(o.intercept))
                ev['b2'] = to_dec2(float(o2.intercept))
                ev['notes'] = (o2.notes == o.notes)
        except Exception as ex:                                     # noqa
            ev['ok'] = False
            self.log(ev, {'exc': type(ex).__name__, 'msg': str(ex)[:300]})
            return False
        self.log(ev, {'n': n})
        if not ev['cls']:
            return False
        self.obj = o2
        return True


def _grid(x):
    return int(round(x * GRID))


def execute(case):
    """-> (events, mismatches, info)"""
    import warnings
    warnings.simplefilter('ignore')
    try:
        life = Life(case)
        mism = []
        expect = case.get('expect')            # per step (construct, then one per op): [n, d] or None

        def compare(step, u):
            if expect is None or expect[step] is None:
                return
            (n, d), (nn, nd) = expect[step]
            if GRID % d:
                raise core.MachineryError('expected value %d/%d is not on the 2^-20 grid' % (n, d))
            want = n * (GRID // d)
            op = (['construct'] + [o[0] for o in case['ops']])[step]
            if u is None or not core.finite(u):
                mism.append({'step': step, 'op': op, 'expected_kcal': n / d, 'got_kcal': u})
            elif _grid(u) != want:
                # the verdict (ReplayState or the known table drift) is named by the trace specification
                life.log({'ev': 'replay', 'got': to_dec(u), 'want': core.to_dec_exact(n / d),
                          'wantnum': core.to_dec_exact(nn / nd)},
                         {'step': step, 'op': op, 'expected_kcal': n / d, 'from_numbers_kcal': nn / nd, 'got_kcal': u})
        if not life.construct():
            if expect is not None:
                mism.append({'step': 0, 'op': 'construct', 'expected_kcal': expect[0][0][0] / expect[0][0][1],
                             'got_kcal': None, 'raised': life.info[-1]})
            return life.events, mism, life.info
        u = life.evaluate(case['T'])
        compare(0, u)
        if life.kind == 'ext' and u is not None:
            life.sum_event()
        for step, op in enumerate(case['ops'], start=1):
            if op[0] == 'eval':
                u = life.evaluate(op[1])
            elif op[0] == 'roundtrip':
                if not life.roundtrip(op[1] if len(op) > 1 else 'json'):
                    if expect is not None and expect[step] is not None:
                        mism.append({'step': step, 'op': 'roundtrip', 'expected_kcal': expect[step][0][0] / expect[step][0][1],
                                     'got_kcal': None, 'raised': life.info[-1]})
                    break
                u = life.evaluate(life.T)
            else:
                if not life.set_attr(op):
                    break
                u = life.evaluate(life.T)
            compare(step, u)
        last = next((e for e in reversed(life.events) if e['ev'] != 'replay'), None)
        if life.kind == 'ext' and case['ops'] and last is not None and last['ev'] == 'eval' and last['ok'] and last['fin']:
            life.sum_event()
        return life.events, mism, life.info
    except core.MachineryError:
        raise
    except Exception as ex:                                         # noqa  (a failure of the harness itself)
        raise core.MachineryError('harness failure on case %s: %s: %s' % (json.dumps(case)[:300], type(ex).__name__, ex))


# ---------------------------------------------------------------------------
# TLC values -> cases
# ---------------------------------------------------------------------------
def _q(r):
    return r[0] / r[1]


def _sp_const(r):
    return {'k': 'const', 'E': _q(r)}


def _rx_desc(rx):
    if rx['form'] == 'float':
        return {'form': 'float', 'v': _q(rx['v'])}
    return {'form': 'reaction', 'r': [[_q(nu), _sp_const(e)] for nu, e in rx['r']],
            'p': [[_q(nu), _sp_const(e)] for nu, e in rx['p']]}


def _part_desc(p):
    if p['form'] == 'default':
        return {'form': 'default'}
    if p['form'] == 'float':
        return {'form': 'float', 'v': _q(p['v'])}
    return {'form': 'species', 'sp': _sp_const(p['v'])}


def _obj_to_case(o, T):
    if o['kind'] == 'lsr':
        terms = [{'a': _q(o['a']), 'rx': _rx_desc(o['rx']), 'surf': _part_desc(o['surf']),
                  'gas': _part_desc(o['gas'])}]
    else:
        terms = [{'a': _q(a), 'rx': _rx_desc(rx), 'surf': _part_desc(s), 'gas': _part_desc(g)}
                 for a, rx, s, g in zip(o['as'], o['rxs'], o['surfs'], o['gass'])]
    return {'kind': o['kind'], 'terms': terms, 'b': _q(o['b']), 'T': float(T), 'ops': []}


def _tlc_case(c, i):
    case = _obj_to_case(c['obj'], c['T'])
    other = 500.0 if c['T'] == 250 else 250.0
    # construct + evaluate, evaluate at the other temperature, JSON round trip + evaluate: the relation
    # requires the same energy after each (TIndependent, RoundTripKeeps of the design model)
    case['ops'] = [['eval', other], ['roundtrip', 'json' if i % 3 else 'dict']]
    case['expect'] = [[c['U'], c['Unum']]] * 3
    case['src'] = 'tlc-case'
    case['units'] = UNITS[i % len(UNITS)]
    case['arr'] = bool(i % 2)
    return case


def _beh_case(h, i):
    first = h[0]
    case = _obj_to_case(first['arg'], first['T'])
    ops, expect = [], [[first['U'], first['Unum']]]
    for rec in h[1:]:
        op, arg = rec['op'], rec['arg']
        if op == 'eval':
            ops.append(['eval', float(arg)])
        elif op in ('slope', 'intercept'):
            ops.append([op, _q(arg)])
        elif op == 'slope_at':
            ops.append(['slope_at', arg[0], _q(arg[1])])
        elif op == 'reaction':
            ops.append(['reaction', _rx_desc(arg)])
        elif op in ('surf', 'gas'):
            ops.append([op, _part_desc(arg)])
        elif op == 'roundtrip':
            ops.append(['roundtrip', 'json' if i % 2 else 'dict'])
        else:
            raise core.MachineryError('unknown op in behaviour: %r' % (op,))
        if not rec['ok']:
            raise core.MachineryError('the required variant never raises: %r' % (rec,))
        expect.append([rec['U'], rec['Unum']])
    case.update({'ops': ops, 'expect': expect, 'src': 'tlc-beh', 'units': UNITS[i % len(UNITS)],
                 'arr': bool(i % 2)})
    return case


# ---------------------------------------------------------------------------
# random real-valued lives
# ---------------------------------------------------------------------------
def _rnd_energy(rnd):
    r = rnd.random()
    if r < 0.5:
        return rnd.uniform(-5., 5.)
    if r < 0.85:
        return rnd.uniform(-200., 200.)
    return rnd.uniform(-9000., -500.)          # slab-sized electronic energies


def _rnd_species(rnd, fam):
    k = rnd.choice(fam)
    if k == 'const':
        return {'k': 'const', 'E': _rnd_energy(rnd)}
    if k == 'elec':
        return {'k': 'elec', 'E': rnd.uniform(-300., 5.), 'vib': [rnd.uniform(200., 3500.) for _ in range(rnd.randint(1, 4))]}
    return {'k': 'nasa', 'h': rnd.uniform(-40., 40.), 's': rnd.uniform(0., 30.),
            'cp': rnd.choice([0.0, 0.0, rnd.uniform(1., 6.)]), 'Tref': rnd.choice([256.0, 298.15])}


def _rnd_rx(rnd, fam):
    if rnd.random() < 0.4:
        return {'form': 'float', 'v': _rnd_energy(rnd)}
    nu = rnd.choice([1.0, 1.0, 2.0, 0.5])
    return {'form': 'reaction', 'r': [[1.0, _rnd_species(rnd, fam)], [nu, _rnd_species(rnd, fam)]],
            'p': [[nu, _rnd_species(rnd, fam)]]}


def _rnd_part(rnd, fam, allow_default):
    r = rnd.random()
    if allow_default and r < 0.25:
        return {'form': 'default'}
    if r < 0.6:
        return {'form': 'float', 'v': _rnd_energy(rnd)}
    return {'form': 'species', 'sp': _rnd_species(rnd, fam)}


def _rnd_T(rnd):
    return rnd.choice([298.15, 500.0, rnd.uniform(100., 1500.)])


def _random_case(rnd, i):
    kind = 'lsr' if i % 2 == 0 else 'ext'
    fam = rnd.choice([['const'], ['const', 'elec'], ['elec'], ['const', 'nasa'], ['const', 'elec', 'nasa']])
    n = 1 if kind == 'lsr' else rnd.randint(1, 4)
    sd = kind == 'ext' and rnd.random() < 0.3      # surf_species omitted
    gd = kind == 'ext' and rnd.random() < 0.3
    terms = []
    for _ in range(n):
        terms.append({'a': rnd.choice([rnd.uniform(-3., 3.), rnd.uniform(0., 1.), 0.0, 1.0]),
                      'rx': _rnd_rx(rnd, fam),
                      'surf': {'form': 'default'} if sd else _rnd_part(rnd, fam, kind == 'lsr'),
                      'gas': {'form': 'default'} if gd else _rnd_part(rnd, fam, kind == 'lsr')})
    ops = []
    for _ in range(rnd.randint(2, 5)):
        r = rnd.random()
        if r < 0.3:
            ops.append(['eval', _rnd_T(rnd)])
        elif r < 0.45:
            ops.append(['slope', rnd.uniform(-3., 3.)] if kind == 'lsr'
                       else ['slope_at', rnd.randint(1, n), rnd.uniform(-3., 3.)])
        elif r < 0.6:
            ops.append(['intercept', rnd.uniform(-60., 60.)])
        elif r < 0.8 or kind == 'ext':
            ops.append(['roundtrip', rnd.choice(['json', 'dict'])])
        elif r < 0.88:
            ops.append(['reaction', _rnd_rx(rnd, fam)])
        elif r < 0.94:
            ops.append(['surf', _rnd_part(rnd, fam, False)])
        else:
            ops.append(['gas', _rnd_part(rnd, fam, False)])
    case = {'kind': kind, 'terms': terms, 'b': rnd.choice([rnd.uniform(-60., 60.), 0.0]), 'T': _rnd_T(rnd),
            'ops': ops, 'src': 'random', 'units': UNITS[i % len(UNITS)], 'arr': rnd.random() < 0.5}
    if rnd.random() < 0.3:
        case['notes'] = rnd.choice(['DFT, PBE-D3', {'source': 'doi:10.0/x', 'n': 3}])
    if fam == ['elec'] and rnd.random() < 0.5:
        case['zpe'] = True
    return case


# ---------------------------------------------------------------------------
def _tags(case, ev, info):
    forms = [t['rx']['form'] for t in case['terms']] + [op[1]['form'] for op in case['ops'] if op[0] == 'reaction']
    parts = [t[k]['form'] for t in case['terms'] for k in ('surf', 'gas')] + \
            [op[1]['form'] for op in case['ops'] if op[0] in ('surf', 'gas')]
    # number: some part of the object was given as a number (or omitted, which the library reads as 0.)
    tags = {'kind': case['kind'], 'number': 'float' in forms or any(f in ('float', 'default') for f in parts),
            'number_rx': 'float' in forms}
    if ev is not None and ev['ev'] == 'float':
        tags['role'] = ev['role']
    if ev is not None and ev['ev'] == 'construct':
        tags['notes'] = case.get('notes') is not None
    if info and 'exc' in info:
        tags['exc'] = info['exc']
        msg = info.get('msg', '')
        if "'NoneType' and 'str'" in msg:
            tags['why'] = 'unnamed_species'
        elif case['kind'] == 'ext' and ("object has no attribute 'slope'" in msg
                                        or 'Object of type ExtendedLSR is not JSON serializable' in msg):
            tags['why'] = 'ext_not_encodable'
        elif case['kind'] == 'ext' and "unexpected keyword argument 'notes'" in msg:
            tags['why'] = 'ext_notes_kwarg'
    return tags


def _antecedents(events, acc):
    """coverage accounting only (no judgement): how often the antecedent of each conditional clause of
    Trace_Lsr.tla was true, following the same `st.pend` bookkeeping as the trace specification"""
    has, pend, tconst, lastT = False, 'none', False, None
    for e in events:
        k = e['ev']
        if k == 'construct':
            has, pend, tconst, lastT = False, 'none', False, None
        elif k == 'eval':
            good = e['ok'] and e['fin']
            if good:
                acc['Relation'] = acc.get('Relation', 0) + 1
                same = e['tconst'] and tconst
                if has and pend == 'none' and same:
                    acc['TIndependent'] = acc.get('TIndependent', 0) + 1
                    if e['T'] != lastT:
                        acc['TIndependent(other T)'] = acc.get('TIndependent(other T)', 0) + 1
                if has and pend == 'slope' and same:
                    acc['LinearSlope'] = acc.get('LinearSlope', 0) + 1
                if has and pend == 'intercept' and same:
                    acc['LinearIcpt'] = acc.get('LinearIcpt', 0) + 1
                if has and pend == 'roundtrip' and (same or e['T'] == lastT):
                    acc['RoundTripValue'] = acc.get('RoundTripValue', 0) + 1
                if not e['tconst']:
                    acc['eval of a T-dependent object'] = acc.get('eval of a T-dependent object', 0) + 1
                has, pend, tconst, lastT = True, 'none', e['tconst'], e['T']
            else:
                has, pend = False, 'none'
        elif k == 'set':
            if not e['ok']:
                has = False
            elif e['attr'] in ('slope', 'slope_at'):
                pend = 'slope' if pend == 'none' else 'mixed'
            elif e['attr'] == 'intercept':
                pend = 'intercept' if pend == 'none' else 'mixed'
            else:
                pend = 'mixed'
        elif k == 'roundtrip':
            pend = 'roundtrip' if (e['ok'] and pend == 'none') else 'mixed'
            if e['ok']:
                acc['RoundTripAttrs'] = acc.get('RoundTripAttrs', 0) + 1
        elif k == 'float' and e['ok']:
            acc['FloatMeansEnergy'] = acc.get('FloatMeansEnergy', 0) + 1
            if e['val'][0] != 0:
                acc['FloatMeansEnergy(non-zero)'] = acc.get('FloatMeansEnergy(non-zero)', 0) + 1
        elif k == 'sum' and e['ok']:
            acc['ExtIsSumOfLsr'] = acc.get('ExtIsSumOfLsr', 0) + 1


def _nontrivial(case):
    return any(t['a'] != 0.0 for t in case['terms'])


def _signature(case):
    return [case['kind'], len(case['terms']), [t['rx']['form'] for t in case['terms']],
            [(t['surf']['form'], t['gas']['form']) for t in case['terms']], [op[0] for op in case['ops']],
            sorted(map(str, _species_kinds(case))), bool(case.get('zpe')), case.get('units'),
            round(case['terms'][0]['a'], 6), round(case['b'], 6)]


def run(ctx):
    ctx.coverage['rule'] = (
        'tlc-case: the objects of the small universe of MC_LsrCases (LSR: 2 slopes x 2 intercepts x 6 reactions '
        'x 5 x 5 surf/gas parts; ExtendedLSR of 1..2 terms) at both temperatures (quick: a random 1000 of the '
        '8832), each continued by an evaluation '
        'at the other temperature and a JSON round trip; tlc-beh: random behaviours of MC_Lsr_sim.cfg / MC_Lsr_ext_sim.cfg (<= 4 calls '
        'after construction); random: real-valued lives with 1..4 terms, constant / electronic / NASA species, '
        'include_ZPE, every unit system, 2..5 calls; non-trivial: at least one non-zero slope; distinct by '
        '(class, number of terms, forms of the parts, calls, species families, units, first slope, intercept)')
    import time
    t0 = time.time()
    phases = ctx.coverage.setdefault('phase_wall_s', {})
    rnd = random.Random(ctx.seed)
    if ctx.replay_case is not None:
        cases = [ctx.replay_case['case']]
    else:
        # (D) design models, (S->C) case and behaviour generation: independent TLC runs, side by side
        import concurrent.futures as cf
        nsim = ctx.pick(200, 3000)
        design = [('MC_Lsr' if ctx.quick else 'MC_Lsr_big', None), ('MC_Lsr_ext' if ctx.quick else 'MC_Lsr_ext_big', None),
                  ('MC_Lsr_tabledrift', 'RelationHolds'), ('MC_Lsr_unnamed', 'NeverRaises'),
                  ('MC_Lsr_extslope', 'NeverRaises')]
        sims = ['MC_Lsr_sim', 'MC_Lsr_ext_sim']
        with cf.ThreadPoolExecutor(max_workers=8) as ex:
            fd = [ex.submit(core.run_tlc, 'MC_Lsr', cfg, workers=(6 if inv is None else 1), timeout=3000)
                  for cfg, inv in design]
            fc = ex.submit(core.tlc_cases, 'MC_LsrCases', 'MC_LsrCases')
            fs = [ex.submit(core.run_tlc, 'MC_Lsr', cfg, workers=1, timeout=1500,
                            extra=['-simulate', 'num=%d' % nsim, '-depth', '6', '-seed', str(ctx.seed + 1 + k)])
                  for k, cfg in enumerate(sims)]
            rd = [f.result() for f in fd]
            data, rc = fc.result()
            rs = [f.result() for f in fs]
        phases['tlc_design_cases_behaviours'] = round(time.time() - t0, 1)
        for (cfg, inv), r in zip(design, rd):
            ctx.count('states', r.distinct)
            ctx.count('transitions', r.states)
            ctx.coverage.setdefault('models', []).append(
                {'module': 'MC_Lsr', 'cfg': cfg, 'distinct_states': r.distinct, 'states_generated': r.states,
                 'depth': r.depth, 'ok': r.ok, 'violated': r.violated, 'expected': inv or 'no error',
                 'wall_s': round(r.wall, 1)})
            if inv is None and not r.ok:
                raise core.MachineryError('design model MC_Lsr/%s failed:\n%s' % (cfg, r.out[-4000:]))
            if inv is not None and r.violated != inv:
                raise core.MachineryError('%s must be rejected by %s, got %r:\n%s' % (cfg, inv, r.violated, r.out[-1500:]))
        if not rc.ok:
            raise core.MachineryError('MC_LsrCases failed:\n' + rc.out[-3000:])
        ctx.coverage['models'].append(
            {'module': 'MC_LsrCases', 'cfg': 'MC_LsrCases', 'ok': rc.ok, 'cases': len(data), 'wall_s': round(rc.wall, 1),
             'assumes': ['FloatMeansEnergy', 'ExtOfOneIsLsr(LsrObjs)', 'ExtIsSumOfLsr(CaseExt)',
                         'ExtAdditive(ExtObjsN(1))', 'Evaluate(o, t).U = Required(o) for every case']})
        ctx.coverage['tlc_cases'] = len(data)
        lsr_cases = [c for c in data if c['obj']['kind'] == 'lsr']
        ext_cases = [c for c in data if c['obj']['kind'] == 'ext']
        rnd.shuffle(ext_cases)
        if ctx.quick:
            rnd.shuffle(lsr_cases)
            lsr_cases = lsr_cases[:400]
            ext_cases = ext_cases[:600]
        cases = [_tlc_case(c, i) for i, c in enumerate(lsr_cases + ext_cases)]
        behs = []
        for cfg, r in zip(sims, rs):
            got = [core.parse_tla(p)[1] for p in r.prints() if core.tagged(p, 'BEH')]
            if len(got) < nsim // 2:
                raise core.MachineryError('simulation %s produced too few behaviours (%d):\n%s' % (cfg, len(got), r.out[-2000:]))
            behs += got
        ctx.coverage['tlc_simulated_behaviours'] = len(behs)
        cases += [_beh_case(h, i) for i, h in enumerate(behs)]
        # (C->S) random real-valued lives
        cases += [_random_case(rnd, i) for i in range(ctx.pick(1000, 20000))]
    t1 = time.time()
    results = core.pmap(execute, cases)
    phases['execute'] = round(time.time() - t1, 1)
    traces = []
    for tid, (case, (events, mism, info)) in enumerate(zip(cases, results)):
        ctx.evaluated()
        if _nontrivial(case):
            ctx.nontrivial(_signature(case))
        for m in mism:
            ctx.violation('ReplayState', case, tags=_tags(case, None, m.get('raised')), detail=dict(m, src=case.get('src')))
        traces.append((tid, events))
        if tid % 997 == 0:
            ctx.sample({k: v for k, v in case.items() if k != 'expect'})
    t1 = time.time()
    fails, stats = core.validate_traces('Trace_Lsr', 'Trace', traces)
    phases['trace_validation'] = round(time.time() - t1, 1)
    ctx.count('traces_validated_against_impl', len(traces))
    ctx.coverage['trace_lines'] = stats['lines']
    ctx.coverage['per_event'] = {}
    ctx.coverage['clause_antecedents'] = {}
    for _, evs in traces:
        _antecedents(evs, ctx.coverage['clause_antecedents'])
        for e in evs:
            ctx.coverage['per_event'][e['ev']] = ctx.coverage['per_event'].get(e['ev'], 0) + 1
    for tid, idx, clause in fails:
        case = cases[tid]
        events, _, info = results[tid]
        ctx.violation(clause, case, tags=_tags(case, events[idx], info[idx]),
                      detail={'event_index': idx, 'event': events[idx], 'observed': info[idx], 'src': case.get('src')})
    # one violation of every (clause, tags) first, so that the replay files written cover every kind
    seen, first, rest = set(), [], []
    for v in ctx.violations:
        k = (v['clause'], json.dumps(v['tags'], sort_keys=True))
        (rest if k in seen else first).append(v)
        seen.add(k)
    ctx.violations[:] = first + rest
    ctx.assume('the energies of the parts (dE, E_surf, E_gas) are what the given Reaction / species objects report '
               'themselves through get_delta_E / get_E (get_delta_H / get_H when they have no electronic energy), '
               'as the docstring prescribes; a number stands for itself in kcal/mol')
    ctx.assume("R('kcal/mol/K') = 1.9872036e-3 as documented by pmutt.constants.R; R(units) of the Units clause is "
               'read from the same table')
    ctx.assume('temperature independence is demanded only of objects whose parts have temperature-independent '
               'energies by construction (constant species, electronic energies, NASA species with zero Cp)')
    ctx.assume('ExtendedLSR is drawn with as many slopes as reactions, surface and gas species (the docstring '
               'warns that other contributions may be ignored)')


if __name__ == '__main__':
    core.main('X07', 'model_checking', run)
