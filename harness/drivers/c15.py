"""C15 - the spreadsheet reader maps rows and special columns as documented.

(D)    spec/ExcelReader.tla: the reader as a row loop (Open / BeginRow / Cell / EndRow) with its
       loop-carried record, dispatching on the substring chain over pandas' column names, checked
       by TLC against the declarative Expected(sheet) on every sheet of MC_ExcelReader.cfg; three
       variants (record hoisted out of the loop, nucl_model looked up among the electronic models
       as the code does, presets overwriting) and a set of headers outside the documented forms
       are configurations that are expected to be rejected.
(S->C) TLC writes every sheet of the configuration with the records it requires
       (MC_ExcelReader_cases); each is written into a real workbook with openpyxl (many sheets
       per workbook, varied sheet names, comment row present or not), read by the real
       pmutt.io.excel.read_excel and the projected records must EQUAL the required ones.
(C->S) those calls, random large sheets (1-60 rows, up to 30 vib_wavenumber columns, every
       documented header class, padded strings) and the sheets of the repository's own example
       workbooks are recorded (sheet as written, records as returned) and judged by
       spec/Trace_ExcelReader.tla.
"""
import glob
import json
import math
import os
import random
import shutil
import tempfile
from decimal import Decimal

from harness import core, lib_c15
from harness.core import to_dec

SHEETS_PER_BOOK = 24
NAME_POOL = ['Sheet1', 'species', 'my data 3', 'x', 'refs & more', 'a-b.c (2)', 'données',
             'ABCDEFGHIJKLMNOPQRSTUVWXYZ', '  padded ', '0', "it's", 'lateral_interactions']
DROPPED_KEYS = ('required', 'optional')      # informational entries of pmutt.statmech.presets


# ---------------------------------------------------------------------------- projection
def codes(s):
    return [ord(ch) for ch in s]


def text(cs):
    return ''.join(chr(k) for k in cs)


def dec_to_number(d):
    """The number a normalised Dec pair stands for, as the int or float written to the cell."""
    m, e = d
    q = Decimal(m).scaleb(e)
    v = int(q) if q == q.to_integral_value() and abs(q) < 10 ** 15 else float(q)
    if to_dec(v) != [m, e]:
        raise core.MachineryError('Dec %r does not survive the cell round trip (%r)' % (d, v))
    return v


def cell_value(cell):
    if cell['t'] == 'e':
        return None
    if cell['t'] == 'n':
        return dec_to_number(cell['v'])
    return text(cell['v'])


def proj_scalar(x):
    import numpy as np
    if isinstance(x, str):
        return {'t': 's', 'v': codes(x)}
    if isinstance(x, (bool, np.bool_)):
        return {'t': 'o', 'v': codes(repr(x))}
    if isinstance(x, (int, float, np.integer, np.floating)):
        xf = float(x)
        if math.isnan(xf):
            return {'t': 'nan', 'v': []}
        if math.isinf(xf):
            return {'t': 'o', 'v': codes(repr(x))}
        return {'t': 'n', 'v': to_dec(xf)}
    try:
        import pandas as pd
        if x is None or x is pd.NA or x is pd.NaT:
            return {'t': 'nan', 'v': []}
    except Exception:
        pass
    return {'t': 'o', 'v': codes(repr(x)[:60])}


def proj_value(x):
    import numpy as np
    if isinstance(x, type):
        return {'t': 'c', 'v': codes(x.__module__ + '.' + x.__qualname__)}
    if isinstance(x, list):
        return {'t': 'l', 'v': [proj_scalar(y) for y in x]}
    if isinstance(x, dict):
        return {'t': 'd', 'v': sorted([[codes(str(k)), proj_scalar(v)] for k, v in x.items()],
                                      key=lambda p: p[0])}
    if isinstance(x, np.ndarray) and x.ndim == 1:
        return {'t': 'v', 'v': [proj_scalar(y) for y in x.tolist()]}
    return proj_scalar(x)


def proj_record(rec):
    return sorted([[codes(str(k)), proj_value(v)] for k, v in rec.items() if k not in DROPPED_KEYS],
                  key=lambda p: p[0])


def canon_expected(exp):
    """TLC's Expected (sets come out in arbitrary order) in the canonical order of proj_record."""
    out = []
    for rec in exp:
        pairs = []
        for k, v in rec:
            if v['t'] == 'd':
                v = {'t': 'd', 'v': sorted(v['v'], key=lambda p: p[0])}
            pairs.append([k, v])
        out.append(sorted(pairs, key=lambda p: p[0]))
    return out


def show_record(rec):
    """Readable form of a projected record for violation details."""
    def sv(v):
        t = v['t']
        if t == 'n':
            return float(Decimal(v['v'][0]).scaleb(v['v'][1]))
        if t in ('s', 'c', 'o'):
            return ('' if t == 's' else t + ':') + text(v['v'])
        if t in ('l', 'v'):
            return [sv(y) for y in v['v']]
        if t == 'd':
            return {text(k): sv(y) for k, y in v['v']}
        return t
    return {text(k): sv(v) for k, v in rec}


# ---------------------------------------------------------------------------- execution
def _write_book(path, cases):
    import openpyxl
    wb = openpyxl.Workbook()
    wb.remove(wb.active)
    names = []
    for k, case in enumerate(cases):
        nm = case.get('sheetname')
        if nm is None:
            nm = NAME_POOL[(k + len(case['rows'])) % len(NAME_POOL)]
        nm = nm[:26]
        base, j = nm, 0
        while nm.lower() in [x.lower() for x in names]:
            j += 1
            nm = '%s~%d' % (base, j)
        names.append(nm)
        ws = wb.create_sheet(nm)
        ws.title = nm
        names[-1] = ws.title
        for c, h in enumerate(case['headers']):
            ws.cell(row=1, column=c + 1, value=text(h))
        r0 = 2
        if case.get('comment', True):
            for c in range(len(case['headers'])):
                if c % 2 == 0:
                    ws.cell(row=2, column=c + 1, value='comment %d (units)' % c)
            r0 = 3
        for r, row in enumerate(case['rows']):
            for c, cell in enumerate(row):
                v = cell_value(cell)
                if v is not None:
                    ws.cell(row=r0 + r, column=c + 1, value=v)
    wb.save(path)
    return names


def execute_book(cases):
    """Write the cases into one workbook, read every sheet with the real read_excel.
    Returns per case (events - one per read -, mismatch-or-None, info)."""
    import warnings
    from pmutt.io.excel import read_excel
    d = tempfile.mkdtemp(prefix='c15_')
    out = []
    try:
        path = os.path.join(d, 'book.xlsx')
        names = _write_book(path, cases)
        for case, nm in zip(cases, names):
            kw = {'sheet_name': nm}
            if not case.get('comment', True):
                kw['skiprows'] = [] if case.get('skip_empty_list') else None
            # a sheet with a formula column is read twice in this process: the second read must
            # satisfy the specification like the first (nothing may survive from one call to the next)
            reads = 2 if any(text(h).strip() == 'formula' for h in case['headers']) else 1
            evs, mism, msg = [], None, ''
            for attempt in range(reads):
                raised, records = '', []
                try:
                    with warnings.catch_warnings():
                        warnings.simplefilter('ignore')
                        recs = read_excel(path, **kw)
                    records = [proj_record(r) for r in recs]
                except Exception as ex:      # the library raised on a sheet of the quantifier
                    raised, msg = type(ex).__name__, ('%s: %s' % (type(ex).__name__, ex))[:160]
                evs.append({'ev': 'read', 'headers': case['headers'], 'rows': case['rows'],
                            'raised': raised, 'records': records})
                if 'expected' in case and not raised and mism is None:
                    exp = canon_expected(case['expected'])
                    if records != exp:
                        bad = [k for k in range(max(len(exp), len(records)))
                               if k >= len(exp) or k >= len(records) or exp[k] != records[k]]
                        k = bad[0]
                        mism = {'read': attempt + 1, 'rows_differing': bad[:10],
                                'expected': show_record(exp[k]) if k < len(exp) else None,
                                'got': show_record(records[k]) if k < len(records) else None}
            out.append((evs, mism, {'raised': msg, 'sheet': nm}))
    finally:
        shutil.rmtree(d, ignore_errors=True)
    return out


# ---------------------------------------------------------------------------- random sheets
ORD_NAMES = ['name', 'phase', 'potentialenergy', 'symmetrynumber', 'T_ref', 'HoRT_ref', 'n_sites',
             'T_low', 'T_high', 'notes', 'spin', 'geometry', 'n_degrees', 'site_density', 'beta',
             'A', 'Ea', 'direction', 'smiles', 'Species Name', 'x1', 'density', 'slope', 'intercept']
SYMBOLS = ['H', 'C', 'N', 'O', 'Pt', 'Ru', 'Cl', 'Cu', 'RU']
LIST_NAMES = ['sites', 'intervals', 'slopes', 'phases', 'w']
DICT_NAMES = ['initial_state', 'misc', 'kw']
DICT_KEYS = ['NH3', 'RU(S)', 'RU(T)', 'a', 'b', 'H2', 'N2(S)']
WORDS = ['CO2', 'H2O(S)', 'gas', 'a b', 'TS1_NH3', 'x', 'Ru(0001)', 'linear', 'nonlinear', 'C2H6',
         'café', 'left', '3-fold', 'N2', 'True story', '1e5x', 'v12']
FORMULAS = ['H2O', 'CH3OH', 'CO', 'PtCl12', 'C2H6', 'NH3', 'RuO2', 'CH3CH2OH', 'H', 'Cu3Pt']
MODELS = {'trans_model': ['FreeTrans'], 'vib_model': ['HarmonicVib', 'QRRHOVib', 'EinsteinVib', 'DebyeVib'],
          'rot_model': ['RigidRotor'], 'elec_model': ['GroundStateElec', 'LSR'],
          'nucl_model': ['EmptyNucl']}
PRESETS = ['idealgas', 'harmonic', 'electronic', 'placeholder', 'constant']


def _rcase(s, rnd):
    return ''.join(ch.upper() if rnd.random() < 0.5 else ch.lower() for ch in s)


def _pad(s, rnd, p=0.3):
    if rnd.random() < p:
        s = ' ' * rnd.randint(0, 2) + s + ' ' * rnd.randint(0, 3)
    return s


def _num(rnd):
    m = rnd.random()
    if m < 0.25:
        x = rnd.randint(-20, 4000)
    elif m < 0.35:
        x = rnd.randint(10 ** 6, 10 ** 9 - 1)
    elif m < 0.75:
        x = round(rnd.uniform(-500, 4000), rnd.choice([1, 2, 3, 6]))
    elif m < 0.85:
        x = rnd.uniform(-1, 1) * 10 ** rnd.randint(-30, 30)
    elif m < 0.9:
        x = 0
    elif m < 0.93:
        x = rnd.choice([1e19, 9.3e18, 1.2e19, 1.8e19])     # integral, between 2^63 and 2^64
    else:
        x = rnd.choice([0.5, -0.25, 1e-12, 298.15, 6.02214076e23, -1.5])
    d = to_dec(x)
    return {'t': 'n', 'v': d}


def _str(rnd):
    return {'t': 's', 'v': codes(_pad(rnd.choice(WORDS) + rnd.choice(['', '', '_%d' % rnd.randint(0, 99)]), rnd, 0.5))}


def random_case(rnd, cid, big=False):
    cols = []        # (header text, kind)
    for nm in rnd.sample(ORD_NAMES, rnd.randint(0, 6)):
        cols.append((_pad(nm, rnd, 0.25), rnd.choice(['num', 'str', 'mix'])))
    if rnd.random() < 0.25:
        cols.append(('formula', 'formula'))
    if rnd.random() < 0.65:
        pre = rnd.choice(['element.', 'elements.'])
        syms = rnd.sample(SYMBOLS, rnd.randint(1, 4))
        if 'RU' in syms and 'Ru' in syms:
            syms.remove('RU')
        for s in syms:
            cols.append((_pad((pre if rnd.random() < 0.9 else 'element.') + s, rnd, 0.1), 'num'))
    nv = rnd.choice([0, 1, 2, 3, 6, 12, 30]) if not big else rnd.choice([12, 24, 30])
    vib = [('vib_wavenumber', 'num')] * nv
    rot = [('rot_temperature', 'num')] * rnd.choice([0, 0, 1, 2, 3, 12])
    lists = []
    for nm in rnd.sample(LIST_NAMES, rnd.choice([0, 0, 1, 2])):
        k = rnd.choice([1, 2, 3, 4, 4, 11, 15, 30])      # two-digit positions in every run
        if rnd.random() < 0.5:
            lists.append([('list.' + nm, 'mix')] * k)
        else:
            idx = list(range(k))
            if rnd.random() < 0.4:
                rnd.shuffle(idx)
            lists.append([('list.%s.%d' % (nm, i), 'mix') for i in idx])
    dicts = []
    for nm in rnd.sample(DICT_NAMES, rnd.choice([0, 0, 1, 2])):
        dicts.append([('dict.%s.%s' % (nm, k), 'mix') for k in rnd.sample(DICT_KEYS, rnd.randint(1, 4))])
    nasa = []
    if rnd.random() < 0.3:
        for which in ('a_low', 'a_high'):
            idx = list(range(7)) if rnd.random() < 0.6 else rnd.sample(range(7), rnd.randint(1, 6))
            if rnd.random() < 0.3:
                rnd.shuffle(idx)
            nasa.append([('nasa.%s.%d' % (which, i), 'num') for i in idx])
    models = []
    if rnd.random() < 0.4:
        models.append(('statmech_model', 'statmech'))
    for key in MODELS:
        if rnd.random() < 0.2:
            models.append((key, key))
    groups = [[c] for c in cols] + [vib, rot] + lists + dicts + nasa + [[m] for m in models]
    groups = [g for g in groups if g]
    if not groups:
        groups = [[('name', 'str')]]
    mode = rnd.random()
    if mode < 0.4:
        rnd.shuffle(groups)
        flat = [c for g in groups for c in g]
    elif mode < 0.7:
        flat = [c for g in groups for c in g]
        rnd.shuffle(flat)
    else:
        flat = [c for g in groups for c in g]
    nrows = rnd.randint(1, 60) if big else rnd.choice([1, 2, 3, 5, 8, 13, 21])
    density = rnd.choice([0.08, 0.3, 0.6, 0.9, 1.0])
    ragged = rnd.random() < 0.5
    rows = []
    for r in range(nrows):
        row = []
        nfilled = rnd.randint(0, nv) if ragged else None
        seen_vib = 0
        for h, kind in flat:
            if h == 'vib_wavenumber' and ragged:
                seen_vib += 1
                empty = seen_vib > nfilled
            else:
                empty = rnd.random() > density
            if empty:
                row.append({'t': 'e', 'v': []})
            elif kind == 'num':
                row.append(_num(rnd))
            elif kind == 'str':
                row.append(_str(rnd))
            elif kind == 'mix':
                row.append(_num(rnd) if rnd.random() < 0.5 else _str(rnd))
            elif kind == 'formula':
                row.append({'t': 's', 'v': codes(_pad(rnd.choice(FORMULAS), rnd))})
            elif kind == 'statmech':
                row.append({'t': 's', 'v': codes(_pad(_rcase(rnd.choice(PRESETS), rnd) if rnd.random() < 0.5
                                                      else rnd.choice(PRESETS), rnd))})
            else:
                nm = rnd.choice(MODELS[kind] + ['EmptyMode', _rcase('emptymode', rnd)])
                row.append({'t': 's', 'v': codes(_pad(nm, rnd))})
        rows.append(row)
    if all(c['t'] == 'e' for c in rows[-1]):
        k = rnd.randrange(len(flat))
        kind = flat[k][1]
        rows[-1][k] = (_num(rnd) if kind in ('num', 'mix') else
                       _str(rnd) if kind == 'str' else
                       {'t': 's', 'v': codes('H2O')} if kind == 'formula' else
                       {'t': 's', 'v': codes('harmonic')} if kind == 'statmech' else
                       {'t': 's', 'v': codes('EmptyMode')})
    return {'cid': cid, 'kind': 'random', 'headers': [codes(h) for h, _ in flat], 'rows': rows,
            'comment': rnd.random() < 0.6, 'skip_empty_list': rnd.random() < 0.5,
            'sheetname': rnd.choice(NAME_POOL + [None, None])}


# ---------------------------------------------------------------------------- repository workbooks
def _pandas_reinterprets(v):
    """Text cells that pandas' column type inference turns into something else (missing value,
    number, boolean) are outside "numeric and string cells" as read here."""
    t = v.strip()
    if t in ('None', 'NA', 'nan', 'NaN', 'N/A', 'n/a', 'null', 'NULL', '#N/A', '<NA>', '-nan', '-NaN',
             '#NA', '1.#IND', '1.#QNAN', '-1.#IND', '-1.#QNAN', '#N/A N/A', 'True', 'False', 'TRUE', 'FALSE'):
        return True
    try:
        float(t)
        return True
    except ValueError:
        return False


def repo_cases():
    """The sheets of the repository's example workbooks (values re-written through openpyxl):
    columns that need files (atoms, vib_outcar), have no header or hold booleans are left out."""
    import openpyxl
    out = []
    files = sorted(glob.glob(os.path.join(core.REPO, 'docs', 'source', 'examples_jupyter', '**', '*.xlsx'),
                             recursive=True))
    for f in files:
        try:
            wb = openpyxl.load_workbook(f, read_only=True, data_only=True)
        except Exception:
            continue
        for ws in wb.worksheets:
            rows = [list(r) for r in ws.iter_rows(values_only=True)]
            if len(rows) < 3:
                continue
            hdr, data = rows[0], rows[2:]
            keep = []
            for c, h in enumerate(hdr):
                if not isinstance(h, str) or 'atoms' in h or 'vib_outcar' in h:
                    continue
                col = [r[c] if c < len(r) else None for r in data]
                if any(isinstance(v, bool) or not isinstance(v, (int, float, str, type(None))) for v in col):
                    continue
                if any(isinstance(v, str) and (v.strip() == '' or _pandas_reinterprets(v)) for v in col):
                    continue
                keep.append(c)
            if not keep:
                continue
            cells = []
            for r in data:
                row = []
                for c in keep:
                    v = r[c] if c < len(r) else None
                    if v is None or (isinstance(v, float) and math.isnan(v)):
                        row.append({'t': 'e', 'v': []})
                    elif isinstance(v, str):
                        row.append({'t': 's', 'v': codes(v)})
                    else:
                        row.append({'t': 'n', 'v': to_dec(v)})
                cells.append(row)
            while cells and all(c['t'] == 'e' for c in cells[-1]):
                cells.pop()
            if not cells:
                continue
            out.append({'cid': 'repo:%s:%s' % (os.path.relpath(f, core.REPO), ws.title), 'kind': 'repo',
                        'headers': [codes(hdr[c]) for c in keep], 'rows': cells, 'comment': True,
                        'sheetname': ws.title})
    return out


# ---------------------------------------------------------------------------- the check
def _register(ctx, module, cfg, r):
    """Bookkeeping of Ctx.model for a TLC run made in a thread."""
    ctx.count('states', r.distinct)
    ctx.count('transitions', r.states)
    ctx.coverage.setdefault('models', []).append(
        {'module': module, 'cfg': cfg, 'distinct_states': r.distinct, 'states_generated': r.states,
         'depth': r.depth, 'ok': r.ok, 'violated': r.violated, 'wall_s': round(r.wall, 1)})
    return r


def _special(case):
    toks = ('element', 'formula', '_model', 'vib_wavenumber', 'rot_temperature', 'nasa', 'list.', 'dict.')
    for c, h in enumerate(case['headers']):
        t = text(h)
        if any(k in t for k in toks) and any(row[c]['t'] != 'e' for row in case['rows']):
            return True
    return False


def _exercise(ctx, case):
    """Counters for vacuity evidence only (which header forms met a non-empty cell)."""
    hs = [text(h) for h in case['headers']]
    forms = (('element', 'element'), ('formula', 'formula'), ('vib_wavenumber', 'vib_wavenumber'),
             ('rot_temperature', 'rot_temperature'), ('list', 'list.'), ('dict', 'dict.'),
             ('nasa', 'nasa.'), ('statmech_model', 'statmech_model'), ('trans_model', 'trans_model'),
             ('vib_model', 'vib_model'), ('rot_model', 'rot_model'), ('elec_model', 'elec_model'),
             ('nucl_model', 'nucl_model'))
    seen = set()
    for c, h in enumerate(hs):
        filled = [row[c] for row in case['rows'] if row[c]['t'] != 'e']
        if not filled:
            continue
        for nm, tok in forms:
            if tok in h:
                seen.add(nm)
                break
        else:
            seen.add('ordinary')
        if h != h.strip():
            seen.add('padded_header')
        if any(x['t'] == 's' and text(x['v']) != text(x['v']).strip() for x in filled):
            seen.add('padded_string_cell')
    if len(hs) != len(set(hs)):
        seen.add('repeated_header')
    if any(all(x['t'] == 'e' for x in row) for row in case['rows']):
        seen.add('entirely_empty_row')
    if any(x['t'] == 'e' for row in case['rows'] for x in row):
        seen.add('some_empty_cell')
    seen.add('comment_row' if case.get('comment', True) else 'no_comment_row')
    if len(case['rows']) >= 30:
        seen.add('30_or_more_rows')
    for nm in seen:
        ctx.count('exercised_' + nm)


def _signature(case):
    return json.dumps([[text(h) for h in case['headers']],
                       [''.join(c['t'] for c in row) for row in case['rows']]])


def _tags(case, info):
    t = {'kind': case['kind'],
         'uint64_cell': any(c['t'] == 'n' and 2.0 ** 63 <= float(Decimal(c['v'][0]).scaleb(c['v'][1])) < 2.0 ** 64
                            for row in case['rows'] for c in row)}
    if info.get('raised'):
        t['exc'] = info['raised'][:80]
    return t


def _brief(case):
    return {'kind': case['kind'], 'headers': [text(h) for h in case['headers']],
            'rows': [[cell_value(c) for c in row] for row in case['rows'][:3]],
            'n_rows': len(case['rows']), 'comment_row': case.get('comment', True)}


def run(ctx):
    ctx.coverage['rule'] = (
        'a case is one worksheet (header row, optional comment row, data rows) read by the real '
        'read_excel; tlc cases are all sheets of MC_ExcelReader (layouts of <=2 columns from 24 '
        'header instances, 3 columns from 6, formula with element.X columns in every order, 10 '
        'five-column layouts; <=3 rows; all or structured '
        'emptiness patterns) with the records computed by TLC (equality of projected records); '
        'random cases draw 1-60 rows and every documented header class (formulas repeat down the column, '
        'sheets with a formula column are read twice in one process); repo cases are the sheets of '
        'the example workbooks; every case is also judged by Trace_ExcelReader.tla; non-trivial = at '
        'least one non-empty cell under a special header; distinct by headers + emptiness pattern')
    import time
    t0 = time.time()
    phase = ctx.coverage.setdefault('phase_wall_s', {})
    if not lib_c15.tokens_current():
        raise core.MachineryError('spec/ExcelTokens.tla is not what harness/lib_c15.py generates')
    if ctx.replay_case is not None:
        cases = [ctx.replay_case['case']]
    else:
        # (D) design model and the configurations that must be rejected; the case generator
        # (S->C) runs next to them
        rejected = (('MC_ExcelReader_hoist', ('CarriedEmpty', 'NoLeak', 'RowOrder')),
                    ('MC_ExcelReader_nuclelec', ('NoRaise',)),
                    ('MC_ExcelReader_presetover', ('RowOrder', 'Refines')))
        import concurrent.futures as cf
        with cf.ThreadPoolExecutor(max_workers=6) as ex:
            fcases = ex.submit(core.tlc_cases, 'MC_ExcelReader_cases',
                               'MC_ExcelReader_cases' if ctx.quick else 'MC_ExcelReader_cases_thorough',
                               None, 3000)
            fvar = [ex.submit(core.run_tlc, 'MC_ExcelReader', cfg, None, 2, None, 600) for cfg, _ in rejected]
            fwide = ex.submit(core.run_tlc, 'MC_ExcelReader', 'MC_ExcelReader_wide', None, 1, None, 600,
                              ['-continue'])
            ctx.model('MC_ExcelReader', 'MC_ExcelReader' if ctx.quick else 'MC_ExcelReader_thorough',
                      workers=max(4, core.NCPU - 4), timeout=3000)
            for (cfg, want), f in zip(rejected, fvar):
                bad = _register(ctx, 'MC_ExcelReader', cfg, f.result())
                if bad.ok or bad.violated not in want:
                    raise core.MachineryError('%s should be rejected by the design model (%s), got %r\n%s'
                                              % (cfg, '/'.join(want), bad.violated, bad.out[-1500:]))
                ctx.notes.append('design model rejects %s: %s violated' % (cfg, bad.violated))
            wide = _register(ctx, 'MC_ExcelReader', 'MC_ExcelReader_wide', fwide.result())
            tcases, r = fcases.result()
        phase['tlc_models_and_cases'] = round(time.time() - t0, 1)
        chain = []
        for p in wide.prints():
            if core.tagged(p, 'CHAIN'):
                v = core.parse_tla(p)
                chain.append('%s: documented=%s chain=%s'
                             % ('|'.join(text(h) for h in v[1]), '|'.join(c['cls'] for c in v[2]),
                                '|'.join(c['cls'] for c in v[3])))
        if wide.violated != 'ChainAgrees' or not chain:
            raise core.MachineryError('the wide header set should be rejected (ChainAgrees)\n' + wide.out[-1500:])
        ctx.coverage['headers_where_chain_order_matters'] = sorted(set(chain))
        # (S->C) the sheets of the configuration with TLC's records; the quick tier replays every
        # sheet of the five-column layouts and a seeded 32 % sample of the others (every layout
        # keeps several emptiness patterns); the thorough tier replays all
        ctx.coverage['tlc_sheets'] = len(tcases)
        rnd = random.Random(ctx.seed)
        cases = []
        tcases.sort(key=lambda c: json.dumps([c['headers'], c['rows']]))
        for k, c in enumerate(tcases):
            mixed = (7 in c['lay'] and any(k in c['lay'] for k in (4, 5, 6))    # formula + element.X
                     or max(c['lay']) > 24)                                     # two-digit indices
            if ctx.quick and c['how'] == 'all' and not mixed and rnd.random() < 0.68:
                continue
            cases.append({'cid': 't%d' % k, 'kind': 'tlc', 'headers': c['headers'], 'rows': c['rows'],
                          'expected': c['expected'], 'comment': k % 2 == 0, 'skip_empty_list': k % 4 == 1})
        for k in range(ctx.pick(400, 6000)):
            cases.append(random_case(rnd, 'r%d' % k, big=False))
        for k in range(ctx.pick(40, 1500)):
            cases.append(random_case(rnd, 'b%d' % k, big=True))
        rc = repo_cases()
        ctx.coverage['repo_sheets'] = len(rc)
        cases.extend(rc)
    # group into workbooks (big sheets in small books)
    books, cur, weight = [], [], 0
    for i, c in enumerate(cases):
        w = 1 + len(c['rows']) * len(c['headers']) // 40
        if cur and (len(cur) >= SHEETS_PER_BOOK or weight + w > 2 * SHEETS_PER_BOOK):
            books.append(cur)
            cur, weight = [], 0
        cur.append((i, c))
        weight += w
    if cur:
        books.append(cur)
    t1 = time.time()
    results = core.pmap(execute_book, [[c for _, c in b] for b in books], chunksize=1)
    phase['replay_into_read_excel'] = round(time.time() - t1, 1)
    ctx.coverage['workbooks'] = len(books)
    per_case = [None] * len(cases)
    for b, res in zip(books, results):
        for (i, _), x in zip(b, res):
            per_case[i] = x
    traces = []
    infos = []
    for tid, (case, (ev, mism, info)) in enumerate(zip(cases, per_case)):
        ctx.evaluated()
        if _special(case):
            ctx.nontrivial(_signature(case))
        ctx.count('cases_' + case['kind'])
        _exercise(ctx, case)
        if mism is not None:
            ctx.violation('ReplayRecords', case, tags=_tags(case, info), detail=mism)
        traces.append((tid, ev))
        infos.append(info)
        if tid % 2711 == 0 or case['kind'] == 'repo' and tid % 7 == 0:
            ctx.sample(_brief(case), cap=8)
    t2 = time.time()
    fails, stats = core.validate_traces('Trace_ExcelReader', 'Trace', traces)
    phase['trace_validation'] = round(time.time() - t2, 1)
    ctx.count('traces_validated_against_impl', len(traces))
    ctx.coverage['trace_lines'] = stats['lines']
    outside = 0
    for tid, idx, clause in sorted(fails):
        case = cases[tid]
        if clause == 'OutsideQuantifier':
            if case['kind'] == 'repo':
                outside += 1             # a repository sheet using forms the property does not cover
                continue
            raise core.MachineryError('generated sheet outside the quantifier: %r' % (_brief(case),))
        ctx.violation(clause, case, tags=_tags(case, infos[tid]),
                      detail={'sheet': _brief(case), 'raised': infos[tid].get('raised')})
    ctx.coverage['repo_sheets_outside_quantifier'] = outside
    ctx.assume('numbers are compared through their 9-digit decimal projection; the reader passes cells '
               'through, so equal projections stand for equal values')
    ctx.assume("the informational preset entries 'required'/'optional' are not part of the record "
               '(dropped by the projection)')
    ctx.assume('pandas/openpyxl deliver the worksheet as written (repeated headers renamed text.k)')


if __name__ == '__main__':
    core.main('C15', 'model_checking', run)
