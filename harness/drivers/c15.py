"""C15 - the spreadsheet reader maps rows and special columns as documented.

(D)    spec/ExcelReader.tla: the reader as a row loop (Open / BeginRow / Cell / EndRow) with its
       loop-carried record, dispatching on the substring chain over pandas' column names, checked
       by TLC against the declarative Expected(sheet) on every sheet of MC_ExcelReader.cfg; three
       variants (record hoisted out of the loop, nucl_model looked up among the electronic models
       as the code does, presets overwriting) and a set of headers outside the documented forms
       are configurations that are expected to be rejected.
(S->C) TLC writes every sheet of the configuration with the records it requires
       (MC_ExcelReader_cases); each is written into a real workbook with openpyxl (many sheets
       per workbook, varied sheet names, comment row present or not), read by the real
       pmutt.io.excel.read_excel and the projected records must EQUAL the required ones.
(C->S) those calls, random large sheets (1-60 rows, up to 30 vib_wavenumber columns, every
       documented header class, padded strings) and the sheets of the repository's own example
       workbooks are recorded (sheet as written, records as returned) and judged by
       spec/Trace_ExcelReader.tla.
"""
import contextlib
import glob
import io as io_module
import json
import math
import os
import random
import shutil
import tempfile
from decimal import Decimal

from harness import core, lib_c15
from harness.core import to_dec

SHEETS_PER_BOOK = 24
NAME_POOL = ['Sheet1', 'species', 'my data 3', 'x', 'refs & more', 'a-b.c (2)', 'données',
             'ABCDEFGHIJKLMNOPQRSTUVWXYZ01234', '  padded ', '0', "it's", 'lateral_interactions', '温度 ΔH']
# how the sheet is laid out and which skiprows / header arguments match it
FORMS = {'c1': dict(title=0, comments=1, kw={}),                       # default skiprows=[1]
         'c1x': dict(title=0, comments=1, kw={'skiprows': [1]}),
         'c0n': dict(title=0, comments=0, kw={'skiprows': None}),
         'c0e': dict(title=0, comments=0, kw={'skiprows': []}),
         'c2': dict(title=0, comments=2, kw={'skiprows': [1, 2]}),
         't_h1': dict(title=1, comments=1, kw={'header': 1, 'skiprows': [2]}),
         't_s0': dict(title=1, comments=1, kw={'header': 0, 'skiprows': [0, 2]}),
         't_h1_c0': dict(title=1, comments=0, kw={'header': 1, 'skiprows': None})}
FORM_NAMES = sorted(FORMS)
SHEET_MODES = ('name', 'index', 'first')
DEFAULT_OPT = {'delim': 46, 'cutoff': [0, 0], 'imag': False, 'files': []}
MOLECULES = ['H2O', 'CO', 'CO2', 'C2H2', 'CH4', 'H2', 'N2', 'O2', 'C2H6']     # Hill formula == name
DROPPED_KEYS = ('required', 'optional')      # informational entries of pmutt.statmech.presets


# ---------------------------------------------------------------------------- projection
def codes(s):
    return [ord(ch) for ch in s]


def text(cs):
    return ''.join(chr(k) for k in cs)


def dec_to_number(d):
    """The number a normalised Dec pair stands for, as the int or float written to the cell."""
    m, e = d
    q = Decimal(m).scaleb(e)
    v = int(q) if q == q.to_integral_value() and abs(q) < 10 ** 15 else float(q)
    if to_dec(v) != [m, e]:
        raise core.MachineryError('Dec %r does not survive the cell round trip (%r)' % (d, v))
    return v


def cell_value(cell):
    if cell['t'] == 'e':
        return None
    if cell['t'] == 'n':
        return dec_to_number(cell['v'])
    if cell['t'] == 'b':
        return bool(cell['v'][0])
    if cell['t'] == 't':
        import datetime
        return datetime.datetime(*cell['v'])
    return text(cell['v'])


def proj_scalar(x):
    import numpy as np
    if isinstance(x, str):
        return {'t': 's', 'v': codes(x)}
    if isinstance(x, (bool, np.bool_)):
        return {'t': 'n', 'v': to_dec(1.0 if x else 0.0)}     # judged up to Python equality (True == 1)
    import datetime
    if isinstance(x, datetime.datetime):                       # includes pandas.Timestamp
        try:
            return {'t': 't', 'v': [int(x.year), int(x.month), int(x.day), int(x.hour), int(x.minute),
                                    int(x.second)]}
        except Exception:
            return {'t': 'nan', 'v': []}                       # NaT
    if isinstance(x, (int, float, np.integer, np.floating)):
        xf = float(x)
        if math.isnan(xf):
            return {'t': 'nan', 'v': []}
        if math.isinf(xf):
            return {'t': 'o', 'v': codes(repr(x))}
        return {'t': 'n', 'v': to_dec(xf)}
    try:
        import pandas as pd
        if x is None or x is pd.NA or x is pd.NaT:
            return {'t': 'nan', 'v': []}
    except Exception:
        pass
    return {'t': 'o', 'v': codes(repr(x)[:60])}


def proj_value(x):
    import numpy as np
    if isinstance(x, type):
        return {'t': 'c', 'v': codes(x.__module__ + '.' + x.__qualname__)}
    if type(x).__module__.startswith('ase.') and hasattr(x, 'get_chemical_formula'):
        return {'t': 'a', 'v': codes(x.get_chemical_formula())}
    if isinstance(x, list):
        return {'t': 'l', 'v': [proj_scalar(y) for y in x]}
    if isinstance(x, dict):
        return {'t': 'd', 'v': sorted([[codes(str(k)), proj_scalar(v)] for k, v in x.items()],
                                      key=lambda p: p[0])}
    if isinstance(x, np.ndarray) and x.ndim == 1:
        return {'t': 'v', 'v': [proj_scalar(y) for y in x.tolist()]}
    return proj_scalar(x)


def proj_record(rec):
    return sorted([[codes(str(k)), proj_value(v)] for k, v in rec.items() if k not in DROPPED_KEYS],
                  key=lambda p: p[0])


def canon_expected(exp):
    """TLC's Expected (sets come out in arbitrary order) in the canonical order of proj_record."""
    out = []
    for rec in exp:
        pairs = []
        for k, v in rec:
            if v['t'] == 'd':
                v = {'t': 'd', 'v': sorted(v['v'], key=lambda p: p[0])}
            pairs.append([k, v])
        out.append(sorted(pairs, key=lambda p: p[0]))
    return out


def show_record(rec):
    """Readable form of a projected record for violation details."""
    def sv(v):
        t = v['t']
        if t == 'n':
            return float(Decimal(v['v'][0]).scaleb(v['v'][1]))
        if t in ('s', 'c', 'o', 'a'):
            return ('' if t == 's' else t + ':') + text(v['v'])
        if t == 't':
            return 't:%04d-%02d-%02dT%02d:%02d:%02d' % tuple(v['v'])
        if t in ('l', 'v'):
            return [sv(y) for y in v['v']]
        if t == 'd':
            return {text(k): sv(y) for k, y in v['v']}
        return t
    return {text(k): sv(v) for k, v in rec}


# ---------------------------------------------------------------------------- execution
def _form(case):
    f = case.get('form')
    if f is None:                      # cases recorded before the audit round
        f = 'c1' if case.get('comment', True) else ('c0e' if case.get('skip_empty_list') else 'c0n')
    return f


def _materialise(case, d):
    """Replace the '@/' prefix of file-naming cells (atoms, vib_outcar) by the scratch directory,
    write the files the sheet names, and return the case as it is really written."""
    hs = [text(h).strip() for h in case['headers']]
    opt = dict(DEFAULT_OPT)
    opt.update(case.get('opt') or {})
    sub = lambda t: t.replace('@/', d + '/') if '@/' in t else t
    rows = case['rows']
    fcols = [c for c, h in enumerate(hs) if h in ('atoms', 'vib_outcar')]
    if fcols:
        rows = [[({'t': 's', 'v': codes(sub(text(cell['v'])))} if c in fcols and cell['t'] == 's' else cell)
                 for c, cell in enumerate(row)] for row in rows]
    files = [[codes(sub(text(k))), modes] for k, modes in opt['files']]
    opt = dict(opt, files=files)
    for k, modes in files:                                        # OUTCAR files: relative to the cwd (= d)
        path = text(k)
        path = path if os.path.isabs(path) else os.path.join(d, path)
        if not os.path.exists(path):
            with open(path, 'w') as f:
                f.write(' Eigenvectors and eigenvalues of the dynamical matrix\n')
                for n, m in enumerate(modes):
                    w = float(Decimal(m['w'][0]).scaleb(m['w'][1]))
                    f.write('%4d %s=  %12.6f THz %12.6f 2PiTHz %12.6f cm-1 %12.6f meV\n'
                            % (n + 1, 'f  ' if m['k'] == 'f' else 'f/i', w / 33.356, w / 5.3088, w, w / 8.0655))
    for c in fcols:
        if hs[c] != 'atoms':
            continue
        for row in rows:
            if row[c]['t'] != 's':
                continue
            t = text(row[c]['v']).strip()
            if t.endswith('.xyz'):                                # structure file: absolute, or relative
                path = t if os.path.isabs(t) else os.path.join(d, 'wb', t)     # to the spreadsheet
                if not os.path.exists(path):
                    from ase.build import molecule
                    from ase.io import write
                    write(path, molecule(os.path.basename(t)[:-4]))
    return dict(case, rows=rows, opt=opt)


def _write_book(path, cases):
    import openpyxl
    wb = openpyxl.Workbook()
    wb.remove(wb.active)
    names = []
    for k, case in enumerate(cases):
        nm = case.get('sheetname')
        if nm is None:
            nm = NAME_POOL[(k + len(case['rows'])) % len(NAME_POOL)]
        nm = nm[:31]
        base, j = nm, 0
        while nm.lower() in [x.lower() for x in names]:
            j += 1
            nm = '%s~%d' % (base[:27], j)
        ws = wb.create_sheet(nm)
        ws.title = nm
        names.append(ws.title)
        form = FORMS[_form(case)]
        r = 1
        if form['title']:
            ws.cell(row=r, column=1, value='Table %d: a title row above the header' % k)
            r += 1
        for c, h in enumerate(case['headers']):
            if h:
                ws.cell(row=r, column=c + 1, value=text(h))
        r += 1
        for q in range(form['comments']):
            for c in range(len(case['headers'])):
                if (c + q) % 2 == 0:
                    ws.cell(row=r, column=c + 1, value='comment %d (units)' % c)
            r += 1
        for row in case['rows']:
            for c, cell in enumerate(row):
                v = cell_value(cell)
                if v is not None:
                    ws.cell(row=r, column=c + 1, value=v)
            r += 1
    wb.save(path)
    return names


def _call_kwargs(case, k, name):
    """Arguments of the real call: layout arguments that match the sheet as written, the way the
    sheet is addressed, the documented options of the case and pandas keyword arguments."""
    kw = dict(FORMS[_form(case)]['kw'])
    mode = case.get('sheet', 'name')
    if mode == 'index' or (mode == 'first' and k != 0):
        kw['sheet_name'] = k
    elif mode == 'name':
        kw['sheet_name'] = name
    opt = case['opt']
    explicit = case.get('explicit_defaults', False)
    if opt['delim'] != 46 or explicit:
        kw['delimiter'] = chr(opt['delim'])
    if opt['cutoff'] != [0, 0] or explicit:
        kw['min_frequency_cutoff'] = float(Decimal(opt['cutoff'][0]).scaleb(opt['cutoff'][1]))
    if opt['imag'] or explicit:
        kw['include_imaginary'] = bool(opt['imag'])
    if case.get('dtype_str'):
        which = {text(h): str for h in case['dtype_str']}
        kw['converters' if case.get('use_converters') else 'dtype'] = which
    return kw


def execute_book(job):
    """Write the cases into one workbook, read every sheet with the real read_excel.
    Returns per case (events - one per read -, mismatch-or-None, info)."""
    import warnings
    from pmutt.io.excel import read_excel
    cases, io_mode = job if isinstance(job, tuple) else (job, 'abs')
    rewrite = io_mode.endswith('+rewrite')        # second-use history: the workbook at this path is
    io_mode = io_mode.split('+')[0]               # replaced by a different one and read again
    h = len(cases) // 2
    phases = [cases[:h], cases[h:]] if rewrite and h else [cases]
    d = tempfile.mkdtemp(prefix='c15_')
    out = []
    old = os.getcwd()
    try:
        os.mkdir(os.path.join(d, 'wb'))
        os.chdir(d)                                   # relative OUTCAR names are relative to the cwd
        for cases in phases:
          cases = [_materialise(c, d) for c in cases]
          path = os.path.join(d, 'wb', 'book.xlsx')
          names = _write_book(path, cases)
          io = path if io_mode == 'abs' else os.path.join('wb', 'book.xlsx')
          for k, (case, nm) in enumerate(zip(cases, names)):
              kw = _call_kwargs(case, k, nm)
              # a sheet with a formula column is read twice in this process: the second read must
              # satisfy the specification like the first (nothing may survive from one call to the next)
              reads = 2 if any(text(h).strip() == 'formula' for h in case['headers']) else 1
              evs, mism, msg = [], None, ''
              for attempt in range(reads):
                  raised, records = '', []
                  try:
                      with warnings.catch_warnings(), contextlib.redirect_stdout(io_module.StringIO()):
                          warnings.simplefilter('ignore')        # (the OUTCAR reader prints to stdout)
                          recs = read_excel(io, **kw)
                      records = [proj_record(r) for r in recs]
                  except Exception as ex:      # the library raised on a sheet of the quantifier
                      raised, msg = type(ex).__name__, ('%s: %s' % (type(ex).__name__, ex))[:160]
                  evs.append({'ev': 'read', 'headers': case['headers'], 'rows': case['rows'],
                              'opt': case['opt'], 'raised': raised, 'records': records})
                  if 'expected' in case and not raised and mism is None:
                      exp = canon_expected(case['expected'])
                      if records != exp:
                          bad = [q for q in range(max(len(exp), len(records)))
                                 if q >= len(exp) or q >= len(records) or exp[q] != records[q]]
                          q = bad[0]
                          mism = {'read': attempt + 1, 'rows_differing': bad[:10],
                                  'expected': show_record(exp[q]) if q < len(exp) else None,
                                  'got': show_record(records[q]) if q < len(records) else None}
              out.append((evs, mism, {'raised': msg, 'sheet': nm, 'kwargs': repr(kw)[:200], 'io': io_mode}))
    finally:
        os.chdir(old)
        shutil.rmtree(d, ignore_errors=True)
    return out


# ---------------------------------------------------------------------------- random sheets
ORD_NAMES = ['name', 'phase', 'potentialenergy', 'symmetrynumber', 'T_ref', 'HoRT_ref', 'n_sites',
             'T_low', 'T_high', 'notes', 'spin', 'geometry', 'n_degrees', 'site_density', 'beta',
             'A', 'Ea', 'direction', 'smiles', 'Species Name', 'x1', 'density', 'slope', 'intercept']
SYMBOLS = ['H', 'C', 'N', 'O', 'Pt', 'Ru', 'Cl', 'Cu', 'RU']
LIST_NAMES = ['sites', 'intervals', 'slopes', 'phases', 'w']
DICT_NAMES = ['initial_state', 'misc', 'kw']
DICT_KEYS = ['NH3', 'RU(S)', 'RU(T)', 'a', 'b', 'H2', 'N2(S)']
WORDS = ['CO2', 'H2O(S)', 'gas', 'a b', 'TS1_NH3', 'x', 'Ru(0001)', 'linear', 'nonlinear', 'C2H6',
         'café', 'left', '3-fold', 'N2', 'True story', '1e5x', 'v12']
FORMULAS = ['H2O', 'CH3OH', 'CO', 'PtCl12', 'C2H6', 'NH3', 'RuO2', 'CH3CH2OH', 'H', 'Cu3Pt']
MODELS = {'trans_model': ['FreeTrans'], 'vib_model': ['HarmonicVib', 'QRRHOVib', 'EinsteinVib', 'DebyeVib'],
          'rot_model': ['RigidRotor'], 'elec_model': ['GroundStateElec', 'LSR', 'ExtendedLSR'],
          'nucl_model': ['EmptyNucl']}
PRESETS = ['idealgas', 'harmonic', 'electronic', 'placeholder', 'constant']


def _rcase(s, rnd):
    return ''.join(ch.upper() if rnd.random() < 0.5 else ch.lower() for ch in s)


def _pad(s, rnd, p=0.3):
    if rnd.random() < p:
        s = ' ' * rnd.randint(0, 2) + s + ' ' * rnd.randint(0, 3)
    return s


def _num(rnd):
    m = rnd.random()
    if m < 0.25:
        x = rnd.randint(-20, 4000)
    elif m < 0.35:
        x = rnd.randint(10 ** 6, 10 ** 9 - 1)
    elif m < 0.75:
        x = round(rnd.uniform(-500, 4000), rnd.choice([1, 2, 3, 6]))
    elif m < 0.85:
        x = rnd.uniform(-1, 1) * 10 ** rnd.randint(-30, 30)
    elif m < 0.9:
        x = 0
    elif m < 0.93:
        x = rnd.choice([1e19, 9.3e18, 1.2e19, 1.8e19])     # integral, between 2^63 and 2^64
    else:
        x = rnd.choice([0.5, -0.25, 1e-12, 298.15, 6.02214076e23, -1.5])
    d = to_dec(x)
    return {'t': 'n', 'v': d}


def _str(rnd):
    return {'t': 's', 'v': codes(_pad(rnd.choice(WORDS) + rnd.choice(['', '', '_%d' % rnd.randint(0, 99)]), rnd, 0.5))}


WS = [' ', '  ', '\t', '\xa0', ' \t', ' ']          # python str.strip() removes all of these
UNI_NAMES = ['énergie', 'ΔH', '温度', 'T.ref', 'v1.0', 'run.2', 'E_ads/eV', 'n°', 'x.1']


def _pad_any(s, rnd, p=0.3):
    if rnd.random() < p:
        s = rnd.choice(WS + ['']) + s + rnd.choice(WS + [''])
    return s


def _cell(kind, rnd, f):
    """One non-empty cell of the given kind (f: the forced features of the case)."""
    if kind == 'num':
        return _num(rnd)
    if kind == 'wav':                      # wavenumbers: positive, zero, negative (imaginary), tiny
        m = rnd.random()
        if m < 0.15:
            return {'t': 'n', 'v': [0, 0]}
        if m < 0.35:
            return {'t': 'n', 'v': to_dec(-round(rnd.uniform(0.5, 900), 2))}
        if m < 0.45:
            return {'t': 'n', 'v': to_dec(round(rnd.uniform(0.001, 99.9), 3))}
        return _num(rnd)
    if kind == 'str':
        c = _str(rnd)
        if f.get('unicode_ws'):
            c = {'t': 's', 'v': codes(_pad_any(text(c['v']).strip(), rnd, 0.7))}
        return c
    if kind == 'mix':
        return _num(rnd) if rnd.random() < 0.5 else _str(rnd)
    if kind == 'bool':
        return {'t': 'b', 'v': [rnd.randint(0, 1)]}
    if kind == 'date':
        return {'t': 't', 'v': [rnd.randint(1990, 2030), rnd.randint(1, 12), rnd.randint(1, 28),
                                rnd.randint(0, 23), rnd.randint(0, 59), rnd.randint(0, 59)]}
    if kind == 'bd':
        k = rnd.choice(['bool', 'date', 'str', 'num'])
        if k == 'num':         # moderate numbers only: next to an integer beyond 64 bits pandas turns a
            return {'t': 'n', 'v': to_dec(round(rnd.uniform(-500, 4000), rnd.choice([0, 2])))}   # boolean into None
        return _cell(k, rnd, f)
    if kind == 'numstr':                   # text that looks like a number; the column is read with dtype=str
        return {'t': 's', 'v': codes(_pad(rnd.choice(['12', '007', '1.50', '3e2', '-4', '0']), rnd))}
    if kind == 'formula':
        return {'t': 's', 'v': codes(_pad(rnd.choice(FORMULAS), rnd))}
    if kind == 'statmech':
        return {'t': 's', 'v': codes(_pad(_rcase(rnd.choice(PRESETS), rnd) if rnd.random() < 0.5
                                          else rnd.choice(PRESETS), rnd))}
    if kind == 'atoms':
        m = rnd.choice(MOLECULES)
        return {'t': 's', 'v': codes(_pad(rnd.choice([m, m, m + '.xyz', '@/' + m + '.xyz']), rnd))}
    if kind == 'outcar':
        return {'t': 's', 'v': codes(_pad(rnd.choice(f['outcar_names']), rnd))}
    nm = rnd.choice(MODELS[kind] + ['EmptyMode', _rcase('emptymode', rnd)])
    return {'t': 's', 'v': codes(_pad(nm, rnd))}


def random_case(rnd, cid, big=False, **f):
    """A random sheet of the quantifier.  Keyword arguments force features (used by the boundary
    cases that every run contains): nrows, nvib, nlist, nrot, form, sheet, order, first_empty,
    atoms, outcar, opt_nondefault, delim, types, unicode, dtype_str, explicit_defaults, unnamed,
    padded_repeats."""
    P = lambda key, p: f[key] if key in f else rnd.random() < p
    delim = f.get('delim', '-' if rnd.random() < 0.06 else '.')
    cols = []        # (header text, kind)
    for nm in rnd.sample(ORD_NAMES, rnd.randint(0, 6)):
        cols.append((_pad(nm, rnd, 0.25), rnd.choice(['num', 'str', 'mix'])))
    if P('unicode', 0.15):
        for nm in rnd.sample(UNI_NAMES, rnd.randint(1, 3)):
            cols.append((_pad_any(nm, rnd, 0.6), rnd.choice(['num', 'str'])))
        f = dict(f, unicode_ws=True)
    if P('types', 0.12):
        cols.append(('is_adsorption', 'bool'))
        cols.append(('measured on', 'date'))
    if P('dtype_str', 0.05):
        cols.append(('code', 'numstr'))
    if P('unnamed', 0.05):
        cols.append(('', 'mix'))
    if P('atoms', 0.1):
        cols.append((_pad('atoms', rnd, 0.2), 'atoms'))
    if rnd.random() < 0.25:
        cols.append(('formula', 'formula'))
    if rnd.random() < 0.65 or delim != '.':
        pre = rnd.choice(['element', 'elements'])
        syms = rnd.sample(SYMBOLS, rnd.randint(1, 4))
        if 'RU' in syms and 'Ru' in syms:
            syms.remove('RU')
        for s in syms:
            cols.append((_pad((pre if rnd.random() < 0.9 else 'element') + delim + s, rnd, 0.1), 'num'))
    nv = f.get('nvib', (rnd.choice([0, 1, 2, 3, 6, 12, 30]) if not big else rnd.choice([12, 24, 30])))
    vib = [('vib_wavenumber', 'wav')] * nv
    files = []
    if P('outcar', 0.1):
        names = []
        for q in range(rnd.randint(1, 3)):
            nm = rnd.choice(['', '@/']) + 'OUTCAR_%s_%d' % (cid, q)
            modes = [{'k': rnd.choice(['f', 'f', 'f', 'i']),
                      'w': to_dec(rnd.choice([0.0, 100.0, round(rnd.uniform(0.01, 200), 3),
                                              round(rnd.uniform(200, 4000), 2)]))}
                     for _ in range(rnd.choice([0, 1, 3, 9, 12]))]
            names.append(nm)
            files.append([codes(nm), modes])
        f = dict(f, outcar_names=names)
        vib = vib + [('vib_outcar', 'outcar')]
        rnd.shuffle(vib)
    rot = [('rot_temperature', 'num')] * f.get('nrot', rnd.choice([0, 0, 1, 2, 3, 12]))
    lists = []
    lnames = rnd.sample(LIST_NAMES, rnd.choice([0, 0, 1, 2]))
    if 'nlist' in f and not lnames:
        lnames = [rnd.choice(LIST_NAMES)]
    for q, nm in enumerate(lnames):
        k = f['nlist'] if ('nlist' in f and q == 0) else rnd.choice([1, 2, 3, 4, 4, 11, 15, 30])
        kind = 'bd' if P('types', 0.1) else 'mix'
        style = rnd.random()
        if style < 0.45:
            lists.append([('list.' + nm, kind)] * k)                       # repeated bare header
        else:
            idx = list(range(k)) if style < 0.8 else sorted(rnd.sample(range(0, 40), k))   # gaps
            if rnd.random() < 0.4:
                rnd.shuffle(idx)
            elif rnd.random() < 0.2:
                idx.reverse()
            lists.append([('list.%s.%d' % (nm, i), kind) for i in idx])
    dicts = []
    for nm in rnd.sample(DICT_NAMES, rnd.choice([0, 0, 1, 2])):
        kind = 'bd' if P('types', 0.1) else 'mix'
        dicts.append([('dict.%s.%s' % (nm, k), kind) for k in rnd.sample(DICT_KEYS, rnd.randint(1, 4))])
    nasa = []
    if rnd.random() < 0.3:
        for which in ('a_low', 'a_high'):
            idx = list(range(7)) if rnd.random() < 0.6 else rnd.sample(range(7), rnd.randint(1, 6))
            if rnd.random() < 0.3:
                rnd.shuffle(idx)
            nasa.append([('nasa.%s.%d' % (which, i), 'num') for i in idx])
    models = []
    if rnd.random() < 0.4:
        models.append(('statmech_model', 'statmech'))
    for key in MODELS:
        if rnd.random() < 0.2:
            models.append((key, key))
    if P('padded_repeats', 0.2):             # differently padded repeats: pandas does not rename them
        for g in [vib, rot] + [l for l in lists if l and l[0][0].count('.') == 1]:
            idx = [q for q, (h, _) in enumerate(g) if h in ('vib_wavenumber', 'rot_temperature') or h.startswith('list.')]
            pads = [(' ', ''), ('', ' '), ('\t', ''), ('', '  '), (' ', ' ')]
            rnd.shuffle(pads)
            for q, (a, b) in zip(rnd.sample(idx, min(len(idx), rnd.randint(1, 4))), pads):
                g[q] = (a + g[q][0] + b, g[q][1])
    groups = [[c] for c in cols] + [vib, rot] + lists + dicts + nasa + [[m] for m in models]
    groups = [g for g in groups if g]
    if not groups:
        groups = [[('name', 'str')]]
    order = f.get('order', rnd.choice(['groups_shuffled', 'groups_shuffled', 'shuffled', 'shuffled',
                                       'natural', 'natural', 'reversed']))
    if order == 'groups_shuffled':
        rnd.shuffle(groups)
    flat = [c for g in groups for c in g]
    if order == 'shuffled':
        rnd.shuffle(flat)
    elif order == 'reversed':
        flat.reverse()
    nrows = f.get('nrows', rnd.randint(1, 60) if big else rnd.choice([1, 2, 3, 5, 8, 13, 21]))
    density = rnd.choice([0.08, 0.3, 0.6, 0.9, 1.0])
    ragged = rnd.random() < 0.5
    rows = []
    for r in range(nrows):
        row = []
        nfilled = rnd.randint(0, nv) if ragged else None
        seen_vib = 0
        for h, kind in flat:
            if h.strip() == 'vib_wavenumber' and ragged:
                seen_vib += 1
                empty = seen_vib > nfilled
            else:
                empty = rnd.random() > density
            row.append({'t': 'e', 'v': []} if empty else _cell(kind, rnd, f))
        rows.append(row)
    if rows and f.get('first_empty') and len(rows) > 1:
        rows[0] = [{'t': 'e', 'v': []} for _ in flat]
    if rows and all(c['t'] == 'e' for c in rows[-1]):
        k = rnd.randrange(len(flat))
        rows[-1][k] = _cell(flat[k][1], rnd, f)
    opt = dict(DEFAULT_OPT, delim=ord(delim), files=files)
    if P('opt_nondefault', 0.15):
        opt['cutoff'] = to_dec(rnd.choice([100.0, 50.5, 1000.0]))
        opt['imag'] = rnd.random() < 0.6
    case = {'cid': cid, 'kind': 'random', 'headers': [codes(h) for h, _ in flat], 'rows': rows, 'opt': opt,
            'form': f.get('form', rnd.choice(FORM_NAMES)), 'sheet': f.get('sheet', rnd.choice(SHEET_MODES)),
            'order': order, 'explicit_defaults': f.get('explicit_defaults', rnd.random() < 0.1),
            'sheetname': rnd.choice(NAME_POOL + [None, None])}
    ds = [codes(h) for h, kind in flat if kind == 'numstr']
    if ds:
        case['dtype_str'] = ds
        case['use_converters'] = rnd.random() < 0.5
    return case


def boundary_cases(rnd):
    """Cases that every run contains: both ends of every range of the quantifier and the values
    next to them, every layout / addressing form, every option at a non-default value."""
    out = []
    n = [0]

    def add(**f):
        n[0] += 1
        out.append(random_case(rnd, 'q%d' % n[0], **f))
    for nr in (0, 0, 1, 1, 2, 59, 60, 61):
        add(nrows=nr, nvib=rnd.choice([0, 2, 5]))
    for nv in (1, 2, 10, 11, 29, 30, 31):
        add(nvib=nv, nrows=rnd.choice([1, 3]))
    for nl in (1, 2, 10, 11, 29, 30, 31):
        add(nlist=nl, nvib=0, nrows=2)
    for form in FORM_NAMES:
        for sheet in SHEET_MODES:
            add(form=form, sheet=sheet, nrows=rnd.choice([1, 2, 4]), nvib=rnd.choice([0, 3]))
    for order in ('natural', 'reversed', 'shuffled', 'groups_shuffled'):
        add(order=order, nvib=3, nrows=3)
    for _ in range(3):
        add(first_empty=True, nrows=4)
        add(atoms=True, nrows=3)
        add(outcar=True, nvib=rnd.choice([0, 2]), nrows=4, opt_nondefault=False)
        add(outcar=True, nvib=rnd.choice([0, 2]), nrows=4, opt_nondefault=True)
        add(outcar=False, nvib=6, nrows=3, opt_nondefault=True)
        add(delim='-', nrows=3)
        add(types=True, nrows=5)
        add(unicode=True, nrows=3)
        add(dtype_str=True, nrows=4)
        add(unnamed=True, nrows=3)
        add(explicit_defaults=True, nrows=2)
        add(nrot=12, nrows=2)
        add(padded_repeats=True, nvib=rnd.choice([2, 5]), nlist=3, nrot=2, nrows=3)
    return out


# ---------------------------------------------------------------------------- repository workbooks
def _pandas_reinterprets(v):
    """Text cells that pandas' column type inference turns into something else (missing value,
    number, boolean) are outside "numeric and string cells" as read here."""
    t = v.strip()
    if t in ('None', 'NA', 'nan', 'NaN', 'N/A', 'n/a', 'null', 'NULL', '#N/A', '<NA>', '-nan', '-NaN',
             '#NA', '1.#IND', '1.#QNAN', '-1.#IND', '-1.#QNAN', '#N/A N/A', 'True', 'False', 'TRUE', 'FALSE'):
        return True
    try:
        float(t)
        return True
    except ValueError:
        return False


def repo_cases():
    """The sheets of the repository's example workbooks (values re-written through openpyxl):
    columns that need files (atoms, vib_outcar), have no header or hold booleans are left out."""
    import openpyxl
    out = []
    files = sorted(glob.glob(os.path.join(core.REPO, 'docs', 'source', 'examples_jupyter', '**', '*.xlsx'),
                             recursive=True))
    for f in files:
        try:
            wb = openpyxl.load_workbook(f, read_only=True, data_only=True)
        except Exception:
            continue
        for ws in wb.worksheets:
            rows = [list(r) for r in ws.iter_rows(values_only=True)]
            if len(rows) < 3:
                continue
            hdr, data = rows[0], rows[2:]
            keep = []
            for c, h in enumerate(hdr):
                if not isinstance(h, str) or 'atoms' in h or 'vib_outcar' in h:
                    continue
                col = [r[c] if c < len(r) else None for r in data]
                if any(isinstance(v, bool) or not isinstance(v, (int, float, str, type(None))) for v in col):
                    continue
                if any(isinstance(v, str) and (v.strip() == '' or _pandas_reinterprets(v)) for v in col):
                    continue
                keep.append(c)
            if not keep:
                continue
            cells = []
            for r in data:
                row = []
                for c in keep:
                    v = r[c] if c < len(r) else None
                    if v is None or (isinstance(v, float) and math.isnan(v)):
                        row.append({'t': 'e', 'v': []})
                    elif isinstance(v, str):
                        row.append({'t': 's', 'v': codes(v)})
                    else:
                        row.append({'t': 'n', 'v': to_dec(v)})
                cells.append(row)
            while cells and all(c['t'] == 'e' for c in cells[-1]):
                cells.pop()
            if not cells:
                continue
            out.append({'cid': 'repo:%s:%s' % (os.path.relpath(f, core.REPO), ws.title), 'kind': 'repo',
                        'headers': [codes(hdr[c]) for c in keep], 'rows': cells, 'comment': True,
                        'sheetname': ws.title})
    return out


# ---------------------------------------------------------------------------- the check
def _register(ctx, module, cfg, r):
    """Bookkeeping of Ctx.model for a TLC run made in a thread."""
    ctx.count('states', r.distinct)
    ctx.count('transitions', r.states)
    ctx.coverage.setdefault('models', []).append(
        {'module': module, 'cfg': cfg, 'distinct_states': r.distinct, 'states_generated': r.states,
         'depth': r.depth, 'ok': r.ok, 'violated': r.violated, 'wall_s': round(r.wall, 1)})
    return r


def _special(case):
    toks = ('element', 'formula', '_model', 'vib_wavenumber', 'rot_temperature', 'nasa', 'list.', 'dict.',
            'atoms', 'vib_outcar')
    for c, h in enumerate(case['headers']):
        t = text(h)
        if any(k in t for k in toks) and any(row[c]['t'] != 'e' for row in case['rows']):
            return True
    return False


# every one of these must be met in every full run (zero => machinery failure, exit 2)
REQUIRED_COUNTERS = (
    ['ordinary', 'element', 'elements_plural', 'formula', 'formula_with_element', 'atoms_molecule',
     'atoms_file_relative', 'atoms_file_absolute', 'statmech_model', 'trans_model', 'vib_model', 'rot_model',
     'elec_model', 'nucl_model', 'vib_wavenumber', 'vib_outcar', 'vib_outcar_with_vib_wavenumber',
     'rot_temperature', 'nasa', 'list_bare', 'list_indexed', 'list_index_two_digits', 'dict',
     'dict_key_ends_in_digit', 'unnamed_column', 'padded_header', 'padded_string_cell',
     'non_ascii_header', 'non_space_blank_padding', 'dotted_ordinary_header', 'repeated_header',
     'repeats_11_or_more', 'vib_30_repeats', 'entirely_empty_row', 'first_row_empty', 'some_empty_cell',
     'rows_0', 'rows_1', 'rows_2', 'rows_59', 'rows_60', 'rows_61', '30_or_more_rows',
     'cell_int', 'cell_float', 'cell_str', 'cell_bool', 'cell_datetime', 'cell_numeric_text_dtype_str',
     'wavenumber_negative', 'wavenumber_zero', 'wavenumber_below_100',
     'delimiter_dash', 'delimiter_explicit_default', 'cutoff_nondefault', 'include_imaginary_true',
     'options_nondefault_without_outcar', 'outcar_empty_file', 'outcar_relative_path', 'outcar_absolute_path',
     'order_natural', 'order_reversed', 'order_shuffled',
     'sheet_by_name', 'sheet_by_index', 'sheet_default_first', 'io_absolute_path', 'io_relative_path',
     'read_twice', 'padded_repeat_of_accumulating_header', 'padded_repeat_mixed_with_identical',
     'same_path_rewritten']
    + ['form_' + f for f in sorted(FORMS)]
    + ['preset_' + p for p in PRESETS]
    + ['model_' + m for ms in MODELS.values() for m in ms] + ['model_EmptyMode', 'model_emptymode_other_case'])


def _exercise(ctx, case):
    """Counters of the input classes met (vacuity: REQUIRED_COUNTERS must all be non-zero)."""
    hs = [text(h) for h in case['headers']]
    opt = case.get('opt') or DEFAULT_OPT
    dl = chr(opt['delim'])
    forms = (('formula', 'formula'), ('atoms', 'atoms'), ('vib_wavenumber', 'vib_wavenumber'),
             ('vib_outcar', 'vib_outcar'), ('rot_temperature', 'rot_temperature'), ('list', 'list.'),
             ('dict', 'dict.'), ('nasa', 'nasa.'), ('statmech_model', 'statmech_model'),
             ('trans_model', 'trans_model'), ('vib_model', 'vib_model'), ('rot_model', 'rot_model'),
             ('elec_model', 'elec_model'), ('nucl_model', 'nucl_model'))
    seen = set()
    rows = case['rows']
    for c, h in enumerate(hs):
        filled = [row[c] for row in rows if row[c]['t'] != 'e']
        if not filled:
            continue
        t = h.strip()
        cls = 'ordinary'
        if t == '':
            cls = 'unnamed_column'
        elif t.startswith('element' + dl) or t.startswith('elements' + dl):
            cls = 'element'
            if t.startswith('elements'):
                seen.add('elements_plural')
        else:
            for nm, tok in forms:
                if tok in t:
                    cls = nm
                    break
        seen.add(cls)
        vals = [text(x['v']).strip() for x in filled if x['t'] == 's']
        if cls == 'list':
            seen.add('list_bare' if t.count('.') == 1 else 'list_indexed')
            if t.count('.') == 2 and len(t.rsplit('.', 1)[1]) >= 2:
                seen.add('list_index_two_digits')
        elif cls == 'dict' and t[-1].isdigit():
            seen.add('dict_key_ends_in_digit')
        elif cls == 'atoms':
            for v in vals:
                seen.add('atoms_file_absolute' if v.startswith('@/') or v.startswith('/') else
                         'atoms_file_relative' if v.endswith('.xyz') else 'atoms_molecule')
        elif cls == 'vib_outcar':
            for v in vals:
                seen.add('outcar_absolute_path' if v.startswith('@/') or v.startswith('/') else 'outcar_relative_path')
            if any(not m for _, m in opt['files']):
                seen.add('outcar_empty_file')
            if any('vib_wavenumber' in hs[d] and row[d]['t'] != 'e' and row[c]['t'] != 'e'
                   for row in rows for d in range(len(hs))):
                seen.add('vib_outcar_with_vib_wavenumber')
        elif cls == 'vib_wavenumber':
            for x in filled:
                if x['t'] == 'n':
                    m = x['v'][0]
                    if m <= 0 or float(Decimal(m).scaleb(x['v'][1])) < 100:
                        seen.add('wavenumber_negative' if m < 0 else 'wavenumber_zero' if m == 0 else
                                 'wavenumber_below_100')
        elif cls == 'statmech_model':
            for v in vals:
                seen.add('preset_' + v.lower())
        elif cls.endswith('_model'):
            for v in vals:
                seen.add('model_' + v if v in MODELS[cls] or v == 'EmptyMode' else 'model_emptymode_other_case')
        elif cls == 'ordinary':
            if any(ord(ch) > 127 for ch in t):
                seen.add('non_ascii_header')
            if '.' in t:
                seen.add('dotted_ordinary_header')
        if cls == 'formula' and any(hs[d].strip().startswith('element') and row[d]['t'] != 'e' and row[c]['t'] != 'e'
                                    for row in rows for d in range(len(hs))):
            seen.add('formula_with_element')
        if h != t:
            seen.add('padded_header')
            if any(ch not in ' ' for ch in h[:len(h) - len(h.lstrip())] + h[len(h.rstrip()):]):
                seen.add('non_space_blank_padding')
        for x in filled:
            if x['t'] == 's' and text(x['v']) != text(x['v']).strip():
                seen.add('padded_string_cell')
            if x['t'] == 'n':
                q = Decimal(x['v'][0]).scaleb(x['v'][1])
                seen.add('cell_int' if q == q.to_integral_value() else 'cell_float')
            else:
                seen.add({'s': 'cell_str', 'b': 'cell_bool', 't': 'cell_datetime'}[x['t']])
    if case.get('dtype_str'):
        seen.add('cell_numeric_text_dtype_str')
    if len(hs) != len(set(hs)):
        seen.add('repeated_header')
        top = max(hs.count(h) for h in set(hs))
        if top >= 11:
            seen.add('repeats_11_or_more')
        if hs.count('vib_wavenumber') >= 30:
            seen.add('vib_30_repeats')
    st = [h.strip() for h in hs]
    for t in set(st):
        raws = [h for h, u in zip(hs, st) if u == t]
        if len(set(raws)) > 1 and (t in ('vib_wavenumber', 'rot_temperature') or t.startswith('list.')):
            seen.add('padded_repeat_of_accumulating_header')
            if len(raws) > len(set(raws)):
                seen.add('padded_repeat_mixed_with_identical')
    if any(all(x['t'] == 'e' for x in row) for row in rows):
        seen.add('entirely_empty_row')
    if len(rows) > 1 and all(x['t'] == 'e' for x in rows[0]):
        seen.add('first_row_empty')
    if any(x['t'] == 'e' for row in rows for x in row):
        seen.add('some_empty_cell')
    if len(rows) in (0, 1, 2, 59, 60, 61):
        seen.add('rows_%d' % len(rows))
    if len(rows) >= 30:
        seen.add('30_or_more_rows')
    seen.add('form_' + _form(case))
    seen.add({'name': 'sheet_by_name', 'index': 'sheet_by_index', 'first': 'sheet_default_first'}[case.get('sheet', 'name')])
    if opt['delim'] == 45:
        seen.add('delimiter_dash')
    if case.get('explicit_defaults'):
        seen.add('delimiter_explicit_default')
    if opt['cutoff'] != [0, 0]:
        seen.add('cutoff_nondefault')
        if not any('vib_outcar' in h for h in hs):
            seen.add('options_nondefault_without_outcar')
    if opt['imag']:
        seen.add('include_imaginary_true')
    if case.get('order') in ('natural', 'reversed', 'shuffled'):
        seen.add('order_' + case['order'])
    if any(h.strip() == 'formula' for h in hs):
        seen.add('read_twice')
    for nm in seen:
        ctx.count('exercised_' + nm)


def _signature(case):
    return json.dumps([[text(h) for h in case['headers']],
                       [''.join(c['t'] for c in row) for row in case['rows']]])


def _tags(case, info):
    t = {'kind': case['kind'],
         'uint64_cell': any(c['t'] == 'n' and 2.0 ** 63 <= float(Decimal(c['v'][0]).scaleb(c['v'][1])) < 2.0 ** 64
                            for row in case['rows'] for c in row)}
    if info.get('raised'):
        t['exc'] = info['raised'][:80]
    return t


def _brief(case):
    return {'kind': case['kind'], 'headers': [text(h) for h in case['headers']],
            'rows': [[cell_value(c) for c in row] for row in case['rows'][:3]],
            'n_rows': len(case['rows']), 'form': _form(case), 'sheet': case.get('sheet', 'name'),
            'options': {k: v for k, v in (case.get('opt') or DEFAULT_OPT).items() if k != 'files'},
            'dtype_str': [text(h) for h in case.get('dtype_str', [])]}


def run(ctx):
    ctx.coverage['rule'] = (
        'a case is one worksheet (header row, optional comment row, data rows) read by the real '
        'read_excel; tlc cases are all sheets of MC_ExcelReader (layouts of <=2 columns from 24 '
        'header instances, 3 columns from 6, formula with element.X columns in every order, 10 '
        'five-column layouts; <=3 rows; all or structured '
        'emptiness patterns) with the records computed by TLC (equality of projected records); '
        'random cases draw 1-60 rows and every documented header class (formulas repeat down the column, '
        'sheets with a formula column are read twice in one process); repo cases are the sheets of '
        'the example workbooks; every case is also judged by Trace_ExcelReader.tla; non-trivial = at '
        'least one non-empty cell under a special header; distinct by headers + emptiness pattern')
    import time
    t0 = time.time()
    phase = ctx.coverage.setdefault('phase_wall_s', {})
    if not lib_c15.tokens_current():
        raise core.MachineryError('spec/ExcelTokens.tla is not what harness/lib_c15.py generates')
    if ctx.replay_case is not None:
        cases = [ctx.replay_case['case']]
    else:
        # (D) design model and the configurations that must be rejected; the case generator
        # (S->C) runs next to them
        rejected = (('MC_ExcelReader_hoist', ('CarriedEmpty', 'NoLeak', 'RowOrder')),
                    ('MC_ExcelReader_nuclelec', ('NoRaise',)),
                    ('MC_ExcelReader_presetover', ('RowOrder', 'Refines')))
        import concurrent.futures as cf
        with cf.ThreadPoolExecutor(max_workers=6) as ex:
            fcases = ex.submit(core.tlc_cases, 'MC_ExcelReader_cases',
                               'MC_ExcelReader_cases' if ctx.quick else 'MC_ExcelReader_cases_thorough',
                               None, 3000)
            fvar = [ex.submit(core.run_tlc, 'MC_ExcelReader', cfg, None, 2, None, 600) for cfg, _ in rejected]
            fwide = ex.submit(core.run_tlc, 'MC_ExcelReader', 'MC_ExcelReader_wide', None, 1, None, 600,
                              ['-continue'])
            ctx.model('MC_ExcelReader', 'MC_ExcelReader' if ctx.quick else 'MC_ExcelReader_thorough',
                      workers=max(4, core.NCPU - 4), timeout=3000)
            for (cfg, want), f in zip(rejected, fvar):
                bad = _register(ctx, 'MC_ExcelReader', cfg, f.result())
                if bad.ok or bad.violated not in want:
                    raise core.MachineryError('%s should be rejected by the design model (%s), got %r\n%s'
                                              % (cfg, '/'.join(want), bad.violated, bad.out[-1500:]))
                ctx.notes.append('design model rejects %s: %s violated' % (cfg, bad.violated))
            wide = _register(ctx, 'MC_ExcelReader', 'MC_ExcelReader_wide', fwide.result())
            tcases, r = fcases.result()
        phase['tlc_models_and_cases'] = round(time.time() - t0, 1)
        chain = []
        for p in wide.prints():
            if core.tagged(p, 'CHAIN'):
                v = core.parse_tla(p)
                chain.append('%s: documented=%s chain=%s'
                             % ('|'.join(text(h) for h in v[1]), '|'.join(c['cls'] for c in v[2]),
                                '|'.join(c['cls'] for c in v[3])))
        if wide.violated != 'ChainAgrees' or not chain:
            raise core.MachineryError('the wide header set should be rejected (ChainAgrees)\n' + wide.out[-1500:])
        ctx.coverage['headers_where_chain_order_matters'] = sorted(set(chain))
        # (S->C) the sheets of the configuration with TLC's records; the quick tier replays every
        # sheet of the five-column layouts and a seeded 28 % sample of the others (every layout
        # keeps several emptiness patterns); the thorough tier replays all
        ctx.coverage['tlc_sheets'] = len(tcases)
        rnd = random.Random(ctx.seed)
        cases = []
        tcases.sort(key=lambda c: json.dumps([c['headers'], c['rows']]))
        for k, c in enumerate(tcases):
            mixed = (7 in c['lay'] and any(k in c['lay'] for k in (4, 5, 6))    # formula + element.X
                     or max(c['lay']) > 24)                                     # two-digit indices
            if ctx.quick and c['how'] == 'all' and not mixed and rnd.random() < 0.72:
                continue
            q = len(cases)
            cases.append({'cid': 't%d' % k, 'kind': 'tlc', 'headers': c['headers'], 'rows': c['rows'],
                          'opt': {'delim': c['opt']['delim'], 'cutoff': c['opt']['cutoff'],
                                  'imag': c['opt']['imag'], 'files': c['opt']['files']},
                          'expected': c['expected'], 'form': FORM_NAMES[q % len(FORM_NAMES)],
                          'sheet': SHEET_MODES[(q // len(FORM_NAMES)) % 3],
                          'explicit_defaults': q % 7 == 3})
        cases.extend(boundary_cases(rnd))
        for k in range(ctx.pick(400, 6000)):
            cases.append(random_case(rnd, 'r%d' % k, big=False))
        for k in range(ctx.pick(40, 1500)):
            cases.append(random_case(rnd, 'b%d' % k, big=True))
        rc = repo_cases()
        ctx.coverage['repo_sheets'] = len(rc)
        cases.extend(rc)
    # group into workbooks (big sheets in small books)
    books, cur, weight = [], [], 0
    for i, c in enumerate(cases):
        w = 1 + len(c['rows']) * len(c['headers']) // 40
        if cur and (len(cur) >= SHEETS_PER_BOOK or weight + w > 2 * SHEETS_PER_BOOK):
            books.append(cur)
            cur, weight = [], 0
        cur.append((i, c))
        weight += w
    if cur:
        books.append(cur)
    t1 = time.time()
    results = core.pmap(execute_book, [([c for _, c in b], ('abs' if n % 2 == 0 else 'rel')
                                        + ('+rewrite' if n % 3 == 0 and len(b) > 1 else ''))
                                       for n, b in enumerate(books)], chunksize=1)
    ctx.count('exercised_same_path_rewritten', sum(1 for n, b in enumerate(books) if n % 3 == 0 and len(b) > 1))
    ctx.count('exercised_io_absolute_path', (len(books) + 1) // 2)
    ctx.count('exercised_io_relative_path', len(books) // 2)
    phase['replay_into_read_excel'] = round(time.time() - t1, 1)
    ctx.coverage['workbooks'] = len(books)
    per_case = [None] * len(cases)
    for b, res in zip(books, results):
        for (i, _), x in zip(b, res):
            per_case[i] = x
    traces = []
    infos = []
    for tid, (case, (ev, mism, info)) in enumerate(zip(cases, per_case)):
        ctx.evaluated()
        if _special(case):
            ctx.nontrivial(_signature(case))
        ctx.count('cases_' + case['kind'])
        _exercise(ctx, case)
        if mism is not None:
            ctx.violation('ReplayRecords', case, tags=_tags(case, info), detail=mism)
        traces.append((tid, ev))
        infos.append(info)
        if tid % 2711 == 0 or case['kind'] == 'repo' and tid % 7 == 0:
            ctx.sample(_brief(case), cap=8)
    t2 = time.time()
    fails, stats = core.validate_traces('Trace_ExcelReader', 'Trace', traces)
    phase['trace_validation'] = round(time.time() - t2, 1)
    ctx.count('traces_validated_against_impl', len(traces))
    ctx.coverage['trace_lines'] = stats['lines']
    outside = 0
    for tid, idx, clause in sorted(fails):
        case = cases[tid]
        if clause == 'OutsideQuantifier':
            if case['kind'] == 'repo':
                outside += 1             # a repository sheet using forms the property does not cover
                continue
            raise core.MachineryError('generated sheet outside the quantifier: %r' % (_brief(case),))
        ctx.violation(clause, case, tags=_tags(case, infos[tid]),
                      detail={'sheet': _brief(case), 'raised': infos[tid].get('raised')})
    ctx.coverage['repo_sheets_outside_quantifier'] = outside
    if ctx.replay_case is None:
        missing = [nm for nm in REQUIRED_COUNTERS if not ctx.coverage.get('exercised_' + nm)]
        if missing:
            raise core.MachineryError('input classes of the quantifier not exercised in this run: %s' % missing)
    ctx.assume('numbers are compared through their 9-digit decimal projection; the reader passes cells '
               'through, so equal projections stand for equal values')
    ctx.assume("the informational preset entries 'required'/'optional' are not part of the record "
               '(dropped by the projection)')
    ctx.assume('pandas/openpyxl deliver the worksheet as written (repeated headers renamed text.k)')


if __name__ == '__main__':
    core.main('C15', 'model_checking', run)
