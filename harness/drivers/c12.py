"""C12 - unit tables form a consistent algebra and agree with their definitions.

(D)    spec/MC_Units.tla: a conversion table as a state machine over exact rationals
       (path independence = reflexive + inverse + transitive; derived entries), with
       three variants that TLC must reject and one (the inverted entry) that the
       algebra alone must NOT reject.
(S->C) spec/MC_UnitsCases.tla: from the catalogue of spec/Units.tla TLC derives the
       accept/refuse outcome of every ordered pair of unit strings, the exact factor of
       every pair of SI-prefix units, exact temperature fixed points and the periodic
       table; the driver makes each call on the real code and compares by equality.
(C->S) the driver interrogates pmutt.constants (it never copies a table) and logs the
       full conversion matrix of every quantity type, every row of the accept/refuse
       matrix, every entry of the R/kb/h/c tables, the accessors P0/T0/V0/m_e/m_p, the
       spectroscopic helpers and the element tables; spec/Trace_Units.tla judges every line.
"""
import json
import math
import random

from harness import core, lib_units
from harness.core import to_dec, to_dec2

# numeric arguments are [class, value] so that a case stays JSON-able: f float, i python int,
# npf64 / npi64 / npi32 numpy scalars.  Zero (int, float, negative zero) is a value, not 'omitted';
# 1e200 / 1e-200 are the huge / tiny ends (far from overflow for every factor ratio <= 1e26).
NUMS = [['f', 1.0], ['f', 3.7], ['f', -40.0], ['i', 2], ['i', 0], ['f', 0.0], ['f', -0.0],
        ['i', -7], ['i', 10 ** 15], ['npf64', 2.5], ['npf64', 0.0], ['npi64', 3], ['npi64', 0],
        ['npi32', -7], ['f', 1e200], ['f', -1e200], ['f', 1e-200]]
TEMP_NUMS = [['f', 1.0], ['f', 3.7], ['f', -40.0], ['f', 0.0], ['f', 273.15], ['f', -273.15],
             ['i', 25], ['i', 0], ['i', -40], ['npf64', 298.15], ['npi64', 300], ['npi32', 0],
             ['f', -0.0], ['f', 1e200], ['f', 1e-200]]
PIDX = 1            # index (0-based) of the argument that is also passed positionally (3.7)


def _arg(spec):
    import numpy as np
    k, v = spec
    return {'f': float, 'i': int, 'npf64': np.float64, 'npi64': np.int64, 'npi32': np.int32}[k](v)


def _argclass(spec):
    k, v = spec
    mag = 'zero' if float(v) == 0 else ('huge' if abs(float(v)) >= 1e100 else
                                        ('tiny' if abs(float(v)) <= 1e-100 else
                                         ('neg' if float(v) < 0 else 'pos')))
    return k + ':' + mag
MACHINERY_CLAUSES = ('MachineryWitness', 'MachineryOrder', 'MachinerySymbol', 'MachineryNoZeroProbe', 'MachineryNoRepeatedAttempt', 'UnknownEvent',
                     'UnknownAccessor')
ACCESSORS = [('P0', 'pressure', None), ('T0', 'temp', None), ('V0', 'volume', None),
             ('m_e', 'mass', 'amu'), ('m_p', 'mass', 'amu')]


# --------------------------------------------------------------------------
# small projections
# --------------------------------------------------------------------------
def _num(x):
    """Dec of a library result; None if it is not a finite number."""
    try:
        x = float(x)
    except Exception:
        return None
    if math.isnan(x) or math.isinf(x):
        return None
    return to_dec(x)


def _norm(d):
    m, e = d
    if m == 0:
        return [0, 0]
    while m % 10 == 0:
        m //= 10
        e += 1
    return [m, e]


def _call(fn, *a, **k):
    """(ok, value or exception name).  Only exceptions raised by the library are caught."""
    try:
        return True, fn(*a, **k)
    except Exception as ex:                       # noqa: the library refused / failed
        return False, type(ex).__name__


def _conv(c, num, u, v):
    ok, val = _call(c.convert_unit, num=num, initial=u, final=v)
    d = _num(val) if ok else None
    return (d is not None), (d if d is not None else [0, 0]), (None if ok else val)


def _lits(ls):
    return [{'t': x['t'], 'mant': x.get('mant', [0, 0]), 'd': x['d'], 'u': x['u']} for x in ls]


# --------------------------------------------------------------------------
# case executors (each returns (events, mismatches))
# --------------------------------------------------------------------------
def _exec_row(case):
    """One row of the accept/refuse matrix: u against every unit string."""
    from pmutt import constants as c
    u = case['u']
    td = c.type_dict
    vs, vtypes, mism = [], [], []
    # every pair is asked five times inside this one process: three times in a row (num = 1.0,
    # num not given, num = 0), once more after all the other pairs of the row have been asked
    # ('again'), and once more after a successful conversion u -> u ('after_success')
    variants = ['one', 'omitted', 'zero', 'again', 'after_success']
    refused = [[] for _ in variants]
    exc_names = [[] for _ in variants]
    cells = case['row']

    def attempt(k, num, cell, factor):
        v = cell['v']
        ok, d, exc = _conv(c, num, u, v)
        refused[k].append(not ok)
        exc_names[k].append('' if ok else str(exc))
        if 'expect' in cell:
            got = 'ok' if ok else 'refused'
            if got != cell['expect']:
                mism.append({'clause': 'ReplayOutcome', 'u': u, 'v': v, 'num': variants[k],
                             'expected': cell['expect'], 'got': got, 'exception': exc})
            elif ok and cell.get('has10') and factor:
                # num = 1.0 and an omitted num give the factor itself
                if _norm(d) != [1, cell['p10']]:
                    mism.append({'clause': 'ReplayFactor', 'u': u, 'v': v, 'num': variants[k],
                                 'expected': [1, cell['p10']], 'got': _norm(d)})

    for cell in cells:
        vs.append(cell['v'])
        vtypes.append(td.get(cell['v'], ''))
        for k, num in enumerate((1.0, None, 0)):
            attempt(k, num, cell, k < 2)
    for cell in cells:
        attempt(3, 1.0, cell, True)
    self_ok, _, _ = _conv(c, 2.5, u, u)                 # a successful conversion of u, if u is a unit
    for cell in reversed(cells):
        attempt(4, 1.0, cell, True)
    refused[4].reverse()
    exc_names[4].reverse()
    ev = {'ev': 'cross', 'u': u, 'utype': td.get(u, ''), 'vs': vs, 'vtypes': vtypes,
          'variants': variants, 'refused': refused, 'exc': exc_names, 'self_ok': self_ok}
    return [ev], mism


def _exec_temps(case):
    """Exact temperature fixed points computed by TLC (hundredths)."""
    from pmutt import constants as c
    mism = []
    import numpy as np
    for t in case['cases']:
        exp = _norm([t['y100'], -2])
        # the integer point as float, python int and numpy integer
        for form, x in (('float', float(t['x'])), ('int', int(t['x'])), ('npi64', np.int64(t['x']))):
            ok, d, exc = _conv(c, x, t['u'], t['v'])
            if not ok:
                mism.append({'clause': 'ReplayOutcome', 'u': t['u'], 'v': t['v'], 'x': t['x'],
                             'form': form, 'expected': 'ok', 'got': 'refused', 'exception': exc})
            elif _norm(d) != exp:
                mism.append({'clause': 'ReplayTemperature', 'u': t['u'], 'v': t['v'], 'x': t['x'],
                             'form': form, 'expected': exp, 'got': _norm(d)})
    return [], mism


def _exec_matrix(case):
    """Full conversion matrix of one quantity type of pmutt's own type_dict."""
    from pmutt import constants as c
    t = case['type']
    units = [u for u, ty in c.type_dict.items() if ty == t]
    n = len(units)
    specs = case['nums']
    nums = [_arg(x) for x in specs]
    classes = {}
    ok = [[True] * n for _ in range(n)]
    vp = [[None] * n for _ in range(n)]
    v = [[[None] * len(nums) for _ in range(n)] for _ in range(n)]

    def seen(k, o):
        if o:
            cl = _argclass(specs[k])
            classes[cl] = classes.get(cl, 0) + 1

    for i, a in enumerate(units):
        for j, b in enumerate(units):
            o, val = _call(c.convert_unit, nums[PIDX], a, b)          # positional form
            d = _num(val) if o else None
            ok[i][j] = ok[i][j] and d is not None
            vp[i][j] = d or [0, 0]
    if t == 'temp':
        rt = [[[None] * len(nums) for _ in range(n)] for _ in range(n)]
        via = [[[[None] * len(nums) for _ in range(n)] for _ in range(n)] for _ in range(n)]
        for i, a in enumerate(units):
            for j, b in enumerate(units):
                for k, x in enumerate(nums):
                    o1, d1, _ = _conv(c, x, a, b)
                    seen(k, o1)
                    raw = c.convert_unit(num=x, initial=a, final=b) if o1 else 0.0
                    o2, d2, _ = _conv(c, raw, b, a)
                    ok[i][j] = ok[i][j] and o1 and o2
                    v[i][j][k], rt[i][j][k] = d1, d2
                    for m, w in enumerate(units):
                        o3, d3, _ = _conv(c, raw, b, w)
                        ok[i][j] = ok[i][j] and o3
                        via[i][j][m][k] = d3
        ev = {'ev': 'temp', 'type': t, 'units': units, 'nums': [to_dec(float(x)) for x in nums],
              'ok': ok, 'v': v, 'rt': rt, 'via': via, 'vp': vp, 'pidx': PIDX + 1,
              'classes': classes}
        return [ev], []
    f = [[None] * n for _ in range(n)]
    for i, a in enumerate(units):
        for j, b in enumerate(units):
            o, d, _ = _conv(c, None, a, b)          # num omitted: "the conversion factor"
            ok[i][j] = ok[i][j] and o
            f[i][j] = d
            for k, x in enumerate(nums):
                o, d, _ = _conv(c, x, a, b)
                seen(k, o)
                ok[i][j] = ok[i][j] and o
                v[i][j][k] = d
    ev = {'ev': 'matrix', 'type': t, 'units': units, 'nums': [to_dec(float(x)) for x in nums],
          'ok': ok, 'f': f, 'v': v, 'vp': vp, 'pidx': PIDX + 1, 'classes': classes}
    return [ev], []


ARRAY_X = [1.0, 2.5, 300.0, -40.0, 0.0]


def _exec_array(case):
    """Array-valued arguments: the same container object is converted several times."""
    import numpy as np
    from pmutt import constants as c
    evs, mism = [], []
    for a, b, w in case['triples']:
        for kind in ('f64', 'i64', 'list'):
            if kind == 'f64':
                X = np.array(ARRAY_X, dtype=np.float64)
            elif kind == 'i64':
                X = np.array([int(v) for v in ARRAY_X], dtype=np.int64)
            else:
                X = list(ARRAY_X)
            x0 = [float(v) for v in X]

            def snap(obj):
                return [to_dec2(float(v)) for v in np.ravel(np.asarray(obj, dtype=float))]

            e = {'ev': 'array', 'type': case['type'], 'a': a, 'b': b, 'w': w, 'kind': kind,
                 'x': [to_dec2(v) for v in x0], 'after': [], 'raised': False}
            ok, y1 = _call(c.convert_unit, num=X, initial=a, final=b)
            e['after'].append(snap(X))
            if not ok:
                e['raised'] = True
                e['exception'] = y1
                evs.append(e)
                continue
            try:
                y1snap = snap(y1)
                y2 = c.convert_unit(num=X, initial=a, final=w)
                e['after'].append(snap(X))
                y2snap = snap(y2)
                y0 = c.convert_unit(num=X, initial=a, final=a)
                e['after'].append(snap(X))
                y0snap = snap(y0)
                y3snap = snap(c.convert_unit(num=y1, initial=b, final=w))
                y4snap = snap(c.convert_unit(num=y1, initial=b, final=a))
                e.update({'y1': y1snap, 'y2': y2snap, 'y0': y0snap, 'y3': y3snap, 'y4': y4snap,
                          'y1after': snap(y1),
                          's1': [to_dec2(c.convert_unit(num=v, initial=a, final=b)) for v in x0],
                          's2': [to_dec2(c.convert_unit(num=v, initial=a, final=w)) for v in x0]})
            except Exception as ex:          # accepted once, then failed on the same container
                mism.append({'clause': 'Raises', 'u': a, 'v': b, 'kind': kind,
                             'raised': '%s: %s' % (type(ex).__name__, ex)})
                continue
            evs.append(e)
    return evs, mism


def _doc_fields(docmap, key):
    if key in docmap:
        try:
            rec = lib_units.literal_record(docmap[key])
            return {'doc': True, 'docval': to_dec(float(docmap[key])), 'doclit': _lits([rec]),
                    'doctext': docmap[key]}
        except ValueError:
            pass
    return {'doc': False, 'docval': [0, 0], 'doclit': []}


def _exec_tables(case):
    """The "tables" trace: units, constants, R/kb/h/c tables, derived entries, accessors."""
    from pmutt import constants as c
    lits = lib_units.read_literals(core.REPO)
    si_of = case['si']                                   # quantity type -> SI unit (from the spec)
    td = c.type_dict
    documented = {}
    for heading, unit in lib_units.doc_units(c.convert_unit.__doc__):
        documented.setdefault(unit, heading.lower())
    names = list(td)
    names += [k for k in lits['unit'] if k not in names]
    names += [k for k in documented if k not in names]
    evs = [{'ev': 'reset'}]
    for name in names:
        typed = name in td
        ty = td.get(name, '')
        acc_ok, _, _ = _conv(c, 1.0, name, name)
        g, gok = [0, 0], False
        if typed and ty != 'temp' and ty in si_of:
            gok, g, _ = _conv(c, None, si_of[ty], name)
        evs.append({'ev': 'unit', 'name': name, 'codes': core.text_codes(name), 'typed': typed,
                    'type': ty, 'tabulated': name in lits['unit'],
                    'documented': name in documented, 'heading': documented.get(name, ''),
                    'accepted': acc_ok, 'g': g, 'gok': gok,
                    'lits': _lits(lits['unit'].get(name, []))})
    evs.append({'ev': 'const', 'name': 'Na', 'val': to_dec(c.Na), 'lits': _lits(lits['Na'])})
    # every other module-level numeric constant of constants.py (today: e, the elementary charge)
    for cname, cl in sorted(lits['module'].items()):
        if cname != 'Na' and isinstance(getattr(c, cname, None), (int, float)):
            evs.append({'ev': 'const', 'name': cname, 'val': to_dec(getattr(c, cname)),
                        'lits': _lits(cl)})

    def table(ev, fn, first, tab, extra=None):
        docmap = dict(lib_units.doc_values(fn.__doc__))
        keys = [first] + [k for k in list(tab) + list(docmap) if k != first]
        seen = set()
        for key in keys:
            if key in seen:
                continue
            seen.add(key)
            ok, val = _call(fn, key)
            d = _num(val) if ok else None
            okk, valk = _call(fn, units=key)                      # keyword form
            e = {'ev': ev, 'key': key, 'codes': core.text_codes(key), 'raised': d is None,
                 'val': d or [0, 0], 'kwval': (_num(valk) if okk else None) or [0, 0],
                 'lits': _lits(tab.get(key, [])), 'tab': key in tab}
            e.update(_doc_fields(docmap, key))
            if extra:
                e.update(extra(key))
            evs.append(e)

    def hbar(key):
        out = {}
        for field, args, kw in (('bar', (key,), {'bar': True}), ('barF', (key,), {'bar': False}),
                                ('barpos', (key, True), {})):
            ok, val = _call(c.h, *args, **kw)
            out[field] = (_num(val) if ok else None) or [0, 0]
        return out

    table('R', c.R, 'J/mol/K', lits['R'])
    table('kb', c.kb, 'J/K', lits['kb'])
    table('h', c.h, 'J s', lits['h'], hbar)
    table('c', c.c, 'm/s', lits['c'])
    for name in names:
        if name in td:
            evs.append({'ev': 'entry', 'name': name})
    for fname, qtype, ref in ACCESSORS:
        fn = getattr(c, fname)
        docmap = dict(lib_units.doc_values(fn.__doc__))
        keys = [u for u, ty in td.items() if ty == qtype]
        keys += [k for k in docmap if k not in keys]
        refval = [0, 0]
        if ref:
            ok, val = _call(fn, ref)
            refval = (_num(val) if ok else None) or [0, 0]
        for key in keys:
            ok, val = _call(fn, key)
            d = _num(val) if ok else None
            okk, valk = _call(fn, units=key)
            e = {'ev': 'acc', 'fn': fname, 'qtype': qtype, 'key': key, 'raised': d is None,
                 'val': d or [0, 0], 'kwval': (_num(valk) if okk else None) or [0, 0],
                 'lits': _lits(lits['num'].get(fname, [])),
                 'ref': ref or '', 'refval': refval}
            e.update(_doc_fields(docmap, key))
            evs.append(e)
    return evs, []


SPEC_FN = ['energy', 'freq', 'temp', 'wavenumber']


HELPERS = [('energy_to_freq', 0), ('energy_to_temp', 0), ('energy_to_wavenumber', 0),
           ('freq_to_energy', 1), ('freq_to_temp', 1), ('freq_to_wavenumber', 1),
           ('temp_to_energy', 2), ('temp_to_freq', 2), ('temp_to_wavenumber', 2),
           ('wavenumber_to_energy', 3), ('wavenumber_to_freq', 3), ('wavenumber_to_temp', 3),
           ('wavenumber_to_inertia', 3), ('inertia_to_temp', 4), ('debye_to_einstein', 2),
           ('einstein_to_debye', 2)]
HELPER_BASE = {'f64': [1.6e-20, 2.42e13, 1160.0, 810.0, 7.2e-46],
               'i64': [1, 24200000000000, 1160, 810, 2],
               'list': [1.6e-20, 2.42e13, 1160.0, 810.0, 7.2e-46]}


def _exec_spectro(case):
    import numpy as np
    from pmutt import constants as c

    def fn(a, b):
        return getattr(c, '%s_to_%s' % (SPEC_FN[a], SPEC_FN[b]))

    evs = []
    cons = {'h': to_dec(c.h('J s')), 'kb': to_dec(c.kb('J/K')), 'c': to_dec(c.c('cm/s'))}
    for specs in case['spec']:
        xs = [_arg(x) for x in specs]
        g = [[None] * 4 for _ in range(4)]
        g3 = [[None] * 4 for _ in range(4)]
        rt = [[None] * 4 for _ in range(4)]
        via = [[[None] * 4 for _ in range(4)] for _ in range(4)]
        raw = [[None] * 4 for _ in range(4)]
        for a in range(4):
            for b in range(4):
                raw[a][b] = xs[a] if a == b else fn(a, b)(xs[a])
                g[a][b] = to_dec(raw[a][b])
                g3[a][b] = to_dec(3.7 * xs[a] if a == b else fn(a, b)(3.7 * xs[a]))
        for a in range(4):
            for b in range(4):
                rt[a][b] = to_dec(raw[a][b] if a == b else fn(b, a)(raw[a][b]))
                for k in range(4):
                    via[a][b][k] = to_dec(raw[a][b] if b == k else fn(b, k)(raw[a][b]))
        e = {'ev': 'spec', 'xs': [to_dec(x) for x in xs], 'g': g, 'g3': g3, 'rt': rt, 'via': via,
             'cls': _argclass(specs[3])}
        e.update(cons)
        evs.append(e)
    for spec in case['inertia']:
        w = _arg(spec)
        inertia = c.wavenumber_to_inertia(w)
        e = {'ev': 'inertia', 'w': to_dec(w), 'inertia': to_dec(inertia),
             'th': to_dec(c.inertia_to_temp(inertia)), 'thw': to_dec(c.wavenumber_to_temp(w)),
             'cls': _argclass(spec)}
        e.update(cons)
        evs.append(e)
    for spec in case['debye']:
        d = _arg(spec)
        ein = c.debye_to_einstein(d)
        evs.append({'ev': 'debye', 'd': to_dec(d), 'e': to_dec(ein),
                    'back': to_dec(c.einstein_to_debye(ein)), 'cls': _argclass(spec)})
    # every helper with an array-valued argument (statmech passes arrays of wavenumbers)
    for name, q in case.get('helpers', []):
        f = getattr(c, name)
        for kind in ('f64', 'i64', 'list'):
            b = HELPER_BASE[kind][q]
            vals = [b, 2 * b, 3 * b]
            X = list(vals) if kind == 'list' else np.array(vals, dtype=np.float64 if kind == 'f64' else np.int64)

            def snap(obj):
                return [to_dec2(float(v)) for v in np.ravel(np.asarray(obj, dtype=float))]

            e = {'ev': 'helper', 'fn': name, 'kind': kind, 'x': [to_dec2(float(v)) for v in vals],
                 'raised': False, 'y': [], 's': []}
            ok, y = _call(f, X)
            e['after'] = snap(X)
            if ok:
                e['y'] = snap(y)
                e['s'] = [to_dec2(f(v)) for v in vals]
            else:
                e['raised'] = True
                e['exception'] = y
            evs.append(e)
    return evs, []


def _exec_elements(case):
    from pmutt import constants as c
    import pmutt

    def look(tab, key):
        if key in tab:
            return {'has': True, 'v': to_dec2(tab[key])}
        return {'has': False, 'v': [0, 0, 0]}

    import numpy as np
    evs = [{'ev': 'reset'}]
    mism = []
    sym_of = {}

    def pick(tab, syms):
        for sy in syms:
            if sy in tab:
                return sy
        return syms[0]

    for el in case['elements']:
        z, syms = el['z'], el['syms']
        sym = pick(c.atomic_weight, syms)
        symS = pick(c.S_elements, syms)
        sym_of[z] = sym
        evs.append({'ev': 'element', 'z': z, 'sym': sym, 'symS': symS,
                    'awZ': look(c.atomic_weight, z), 'awS': look(c.atomic_weight, sym),
                    'sZ': look(c.S_elements, z), 'sS': look(c.S_elements, symS)})

    def count(item):
        n = item[1]
        k = item[2] if len(item) > 2 else ''
        return np.int64(n) if k == 'npi64' else (np.float64(n) if k == 'npf64' else n)

    for comp in case['comps']:
        kind = comp['kind']
        items = comp['items']                       # [[z, n(, numpy class of n)], ...]
        if kind == 'formula':
            arg = ''.join('%s%s' % (sym_of[it[0]], '' if it[1] == 1 else int(it[1])) for it in items)
        else:
            arg = {}
            for k, it in enumerate(items):
                z = it[0]
                if kind == 'sym' or (kind == 'mixed' and k % 2):
                    key = sym_of[z]
                elif kind == 'npnum':
                    key = np.int64(z)
                else:
                    key = z
                arg[key] = arg.get(key, 0) + count(it)
        ok, val = _call(pmutt.get_molecular_weight, arg)
        d = _num(val) if ok else None
        evs.append({'ev': 'mw', 'kind': kind, 'cls': comp.get('cls', 'random'),
                    'arg': arg if isinstance(arg, str) else repr(arg)[:200],
                    'comp': [[it[0], to_dec(float(it[1]))] for it in items], 'raised': d is None,
                    'val': d or [0, 0]})
    return evs, mism


EXEC = {'row': _exec_row, 'array': _exec_array, 'temps': _exec_temps, 'matrix': _exec_matrix, 'tables': _exec_tables,
        'spectro': _exec_spectro, 'elements': _exec_elements}


def execute(case):
    try:
        return EXEC[case['kind']](case)
    except core.MachineryError:
        raise
    except Exception as ex:            # the library failed outside a guarded call
        return [], [{'clause': 'Raises', 'raised': '%s: %s' % (type(ex).__name__, ex)}]


# --------------------------------------------------------------------------
# case construction
# --------------------------------------------------------------------------
def _loguniform(rnd, lo, hi):
    return math.exp(rnd.uniform(math.log(lo), math.log(hi)))


def _build_cases(ctx, gen):
    from pmutt import constants as c
    rnd = random.Random(ctx.seed)
    cases = []
    # rows of the accept/refuse matrix: TLC's names plus every name the code knows
    expect = {}
    for p in gen['pairs']:
        expect[(p['u'], p['v'])] = p
    spec_names = sorted({p['u'] for p in gen['pairs']})
    lits = lib_units.read_literals(core.REPO)
    code_names = [u for u in list(c.type_dict) + list(lits['unit']) if u not in spec_names]
    names = spec_names + sorted(set(code_names))
    for u in names:
        row = []
        for v in names:
            cell = {'v': v}
            p = expect.get((u, v))
            if p:
                cell.update({'expect': p['expect'], 'has10': p['has10'], 'p10': p['p10']})
            row.append(cell)
        cases.append({'kind': 'row', 'u': u, 'row': row})
    cases.append({'kind': 'temps', 'cases': gen['temps']})
    extra = ctx.pick(2, 40)
    for t in sorted(set(c.type_dict.values())):
        if t == 'temp':
            nums = TEMP_NUMS + [['f', round(rnd.uniform(-500, 3000), 2)] for _ in range(extra)]
        else:
            nums = NUMS + [['f', round(_loguniform(rnd, 1e-6, 1e6), 6) * rnd.choice([1, -1])]
                           for _ in range(extra)]
        cases.append({'kind': 'matrix', 'type': t, 'nums': nums})
    # array-valued arguments: every ordered pair of every type with a third unit, in every run
    for t in sorted(set(c.type_dict.values())):
        us = [u for u, ty in c.type_dict.items() if ty == t]
        n = len(us)
        triples = []
        for i in range(n):
            for j in range(n):
                if i != j:
                    triples.append([us[i], us[j], us[(j + 1 + (1 if (j + 1) % n == i else 0)) % n]])
        cases.append({'kind': 'array', 'type': t, 'triples': triples})
    si = {}
    for t in gen['types']:
        si[t['type']] = t['si']
    cases.append({'kind': 'tables', 'si': si})
    nsp = ctx.pick(12, 1600)
    base = [1.6e-20, 2.42e13, 1160.0, 810.0]
    ibase = [1, 24200000000000, 1160, 810]
    # one deterministic sample of every argument class (float, int, numpy scalars, negative, zero,
    # huge, tiny), then seeded random positive floats
    class_spec = [[['f', v] for v in base], [['i', v] for v in ibase],
                  [['npf64', v] for v in base], [['npi64', v] for v in ibase],
                  [['npi32', v] for v in [1, 2000000000, 1160, 810]],
                  [['f', -v] for v in base], [['i', -v] for v in ibase],
                  [['f', 0.0]] * 4, [['i', 0]] * 4, [['npf64', 0.0]] * 4,
                  [['f', 1e150]] * 4, [['f', 1e-150]] * 4]
    class_one = [['f', 810.0], ['i', 810], ['npf64', 2.5], ['npi64', 3], ['npi32', 7], ['f', -3.5],
                 ['i', -2], ['f', 1e100], ['f', 1e-100]]
    for k in range(ctx.pick(4, 16)):
        spec = list(class_spec) if k == 0 else []
        for _ in range(nsp // ctx.pick(4, 16)):
            spec.append([['f', _loguniform(rnd, 1e-23, 1e-18)], ['f', _loguniform(rnd, 1e10, 1e15)],
                         ['f', _loguniform(rnd, 1.0, 1e4)], ['f', _loguniform(rnd, 1.0, 5e3)]])
        cs = {'kind': 'spectro', 'spec': spec,
              'inertia': (list(class_one) if k == 0 else []) +
              [['f', _loguniform(rnd, 0.05, 200.0)] for _ in range(nsp // ctx.pick(4, 16))],
              'debye': (list(class_one) + [['f', 0.0], ['i', 0]] if k == 0 else []) +
              [['f', _loguniform(rnd, 20.0, 2000.0)] for _ in range(nsp // ctx.pick(4, 16))]}
        if k == 0:
            cs['helpers'] = [list(hq) for hq in HELPERS]
        cases.append(cs)
    elements = sorted(gen['elements'], key=lambda e: e['z'])
    weighted = [e['z'] for e in elements if e['z'] in c.atomic_weight]
    # deterministic part: every element alone, by symbol, by atomic number, by numpy integer key and
    # as a formula string; every class of count (0, negative, large, fractional, numpy scalars)
    fixed = []
    for z in weighted:
        fixed.append({'kind': 'sym', 'cls': 'single', 'items': [[z, 1]]})
        fixed.append({'kind': 'num', 'cls': 'single', 'items': [[z, 3]]})
        fixed.append({'kind': 'npnum', 'cls': 'single', 'items': [[z, 2]]})
        fixed.append({'kind': 'formula', 'cls': 'single', 'items': [[z, 2]]})
    for kind in ('sym', 'num', 'npnum', 'mixed'):
        fixed.append({'kind': kind, 'cls': 'count:zero', 'items': [[6, 0], [1, 4]]})
        fixed.append({'kind': kind, 'cls': 'count:neg', 'items': [[8, -1], [1, 2]]})
        fixed.append({'kind': kind, 'cls': 'count:large', 'items': [[6, 1000], [1, 2002]]})
        fixed.append({'kind': kind, 'cls': 'count:frac', 'items': [[26, 0.5], [8, 0.75]]})
        fixed.append({'kind': kind, 'cls': 'count:npi64', 'items': [[6, 2, 'npi64'], [1, 6, 'npi64']]})
        fixed.append({'kind': kind, 'cls': 'count:npf64', 'items': [[78, 2.5, 'npf64'], [8, 1.0, 'npf64']]})
    fixed.append({'kind': 'formula', 'cls': 'formula:repeat', 'items': [[6, 1], [1, 3], [6, 1], [1, 2], [8, 1], [1, 1]]})
    fixed.append({'kind': 'formula', 'cls': 'formula:two-digit', 'items': [[6, 12], [1, 26]]})
    fixed.append({'kind': 'formula', 'cls': 'formula:zero', 'items': [[6, 1], [1, 0], [8, 2]]})
    for part in range(ctx.pick(1, 12)):
        comps = list(fixed) if part == 0 else []
        for k in range(ctx.pick(120, 1000)):
            kind = ['sym', 'num', 'mixed', 'formula', 'npnum'][k % 5]
            zs = rnd.sample(weighted, rnd.randint(1, 5))
            if kind == 'formula' and rnd.random() < 0.3:
                zs = zs + [zs[0]]                       # a repeated element, as in CH3CH3
            items = []
            for z in zs:
                n = rnd.randint(1, 12)
                if kind != 'formula' and rnd.random() < 0.15:
                    n = rnd.choice([0.5, 2.5, 0.25])
                items.append([z, n])
            comps.append({'kind': kind, 'items': items})
        cases.append({'kind': 'elements', 'elements': elements, 'comps': comps})
    return cases


def _signature(case):
    k = case['kind']
    if k == 'row':
        return 'row:' + case['u']
    if k == 'matrix':
        return 'matrix:' + case['type']
    if k == 'array':
        return 'array:' + case['type']
    return k + ':' + core._hash(case)


def _tags(case, ev):
    tags = {'kind': case['kind']}
    if ev is not None:
        tags['ev'] = ev.get('ev', '')
        for f in ('name', 'key', 'type', 'u', 'fn', 'arg', 'a', 'b', 'w', 'kind'):
            if f in ev:
                tags['entry' if f in ('name', 'key') else f] = ev[f]
    return tags


def run(ctx):
    ctx.coverage['rule'] = (
        'a case is one interrogation of pmutt.constants: a row of the accept/refuse matrix (one '
        'unit string against all unit strings, outcomes and SI-prefix factors predicted by TLC '
        'from the catalogue of Units.tla), the full conversion matrix of one quantity type of '
        'type_dict (all pairs and triples, several numeric arguments), the tables trace (every '
        'unit, every key of R/kb/h/c, every accessor key, every derived entry), a batch of '
        'spectroscopic samples, or the element tables with random compositions; non-trivial = '
        'the case made at least one accepted library call; distinct by row unit / quantity type '
        '/ content hash')
    if ctx.replay_case is not None:
        cases = [ctx.replay_case['case']]
    else:
        # (D) design model and its variants
        # the design configurations are small and independent: run them side by side
        import concurrent.futures as cf
        jobs = [('MC_Units', 'MC_Units' if ctx.quick else 'MC_Units_thorough', None),
                ('MC_Units', 'MC_Units_inverted_algebra', None),
                ('MC_Units', 'MC_Units_inverted', 'DerivedAgree'),
                ('MC_Units', 'MC_Units_pairwise', 'PathIndependent'),
                ('MC_Units', 'MC_Units_nooffset', 'PathIndependent'),
                ('MC_UnitsRefuse', 'MC_UnitsRefuse', None),
                ('MC_UnitsRefuse', 'MC_UnitsRefuse_cache', 'RefusedEveryTime')]

        def one(job):
            mod, cfg, inv = job
            r = ctx.model(mod, cfg, workers=2, expect_ok=inv is None)
            if inv is not None and (r.ok or r.violated != inv):
                raise core.MachineryError('%s should be rejected by %s:\n%s' % (cfg, inv, r.out[-1500:]))
            return r

        with cf.ThreadPoolExecutor(max_workers=4) as ex:
            list(ex.map(one, jobs))
        ctx.notes.append('design model: an inverted table entry passes every algebra law '
                         '(MC_Units_inverted_algebra) and is rejected only by DerivedAgree; an edited '
                         'pairwise cell and a dropped temperature offset are rejected by PathIndependent')
        # (S->C) cases from the catalogue
        gen, r = core.tlc_cases('MC_UnitsCases', 'MC_UnitsCases')
        ctx.coverage['tlc_cases'] = {k: len(v) for k, v in gen.items()}
        cases = _build_cases(ctx, gen)
    results = core.pmap(execute, cases)
    traces = []
    for tid, (case, (events, mism)) in enumerate(zip(cases, results)):
        ctx.evaluated(len(case['row']) if case['kind'] == 'row' else
                      len(case['cases']) if case['kind'] == 'temps' else max(1, len(events)))
        if events or case['kind'] == 'temps':
            ctx.nontrivial(_signature(case))
        for m in mism:
            tags = {'kind': case['kind']}
            for f in ('u', 'v'):
                if f in m:
                    tags[f] = m[f]
            ctx.violation(m.get('clause', 'ReplayOutcome'), case, tags=tags, detail=m)
        traces.append((tid, events))
        if case['kind'] in ('matrix', 'tables'):
            ctx.sample({k: v for k, v in case.items() if k in ('kind', 'type', 'nums')})
    # vacuity counter of the array probes: how many were accepted (and so fully judged) per container
    probes = {}
    for _, evs in traces:
        for ev in evs:
            if ev.get('ev') == 'array':
                k = ev['kind'] + ('_refused' if ev['raised'] else '_judged')
                probes[k] = probes.get(k, 0) + 1
    ctx.coverage['array_probes'] = probes
    # vacuity counters of the argument classes (accepted calls / judged events per class)
    cov = {'convert_unit_num': {}, 'helper_arg': {}, 'helper_array': {}, 'molar_mass': {},
           'cross_variants': {}, 'accessor_keyword_calls': 0, 'h_bar_forms': 0, 'module_constants': [],
           'elements_by_alternate_symbol': 0, 'positional_calls': 0}
    for _, evs in traces:
        for ev in evs:
            k = ev.get('ev')
            if k in ('matrix', 'temp'):
                for cl, n in ev['classes'].items():
                    key = ('temp:' if k == 'temp' else 'prop:') + cl
                    cov['convert_unit_num'][key] = cov['convert_unit_num'].get(key, 0) + n
                cov['positional_calls'] += len(ev['units']) ** 2
            elif k in ('spec', 'inertia', 'debye'):
                key = k + ':' + ev['cls']
                cov['helper_arg'][key] = cov['helper_arg'].get(key, 0) + 1
            elif k == 'helper':
                key = ev['kind'] + ('_refused' if ev['raised'] else '_judged')
                cov['helper_array'][key] = cov['helper_array'].get(key, 0) + 1
            elif k == 'mw':
                key = ev['kind'] + ':' + ev['cls']
                cov['molar_mass'][key] = cov['molar_mass'].get(key, 0) + (0 if ev['raised'] else 1)
            elif k == 'cross':
                for kk, name in enumerate(ev['variants']):
                    cov['cross_variants'][name] = cov['cross_variants'].get(name, 0) + len(ev['refused'][kk])
            elif k in ('R', 'kb', 'h', 'c', 'acc'):
                cov['accessor_keyword_calls'] += 0 if ev['raised'] else 1
                if k == 'h' and not ev['raised']:
                    cov['h_bar_forms'] += 3
            elif k == 'const':
                cov['module_constants'].append(ev['name'])
            elif k == 'element' and ev['z'] in (113, 115, 117, 118) and ev['awZ']['has']:
                cov['elements_by_alternate_symbol'] += 1
    ctx.coverage['input_classes'] = cov
    if ctx.replay_case is None:
        need = (['prop:' + _argclass(x) for x in NUMS] + ['temp:' + _argclass(x) for x in TEMP_NUMS])
        missing = [k for k in need if not cov['convert_unit_num'].get(k)]
        for grp, keys in (('helper_arg', ['spec:f:pos', 'spec:i:pos', 'spec:npf64:pos', 'spec:npi64:pos',
                                          'spec:npi32:pos', 'spec:f:neg', 'spec:i:neg', 'spec:f:zero',
                                          'spec:i:zero', 'spec:f:huge', 'spec:f:tiny', 'inertia:i:pos',
                                          'inertia:f:neg', 'inertia:f:huge', 'debye:i:zero', 'debye:npi64:pos']),
                          ('helper_array', ['f64_judged', 'i64_judged']),
                          ('molar_mass', ['sym:single', 'num:single', 'npnum:single', 'formula:single',
                                          'sym:count:zero', 'num:count:neg', 'mixed:count:large',
                                          'npnum:count:frac', 'sym:count:npi64', 'num:count:npf64',
                                          'formula:formula:repeat', 'formula:formula:two-digit',
                                          'formula:formula:zero', 'formula:random', 'mixed:random']),
                          ('cross_variants', ['one', 'omitted', 'zero', 'again', 'after_success'])):
            missing += [grp + '/' + k for k in keys if not cov[grp].get(k)]
        for k in ('accessor_keyword_calls', 'h_bar_forms', 'elements_by_alternate_symbol',
                  'positional_calls'):
            if not cov[k]:
                missing.append(k)
        if 'e' not in cov['module_constants'] or 'Na' not in cov['module_constants']:
            missing.append('module_constants')
        if missing:
            raise core.MachineryError('input classes never exercised: %s' % missing)
    if ctx.replay_case is None and not any(k.startswith(('f64', 'i64')) for k in probes):
        raise core.MachineryError('no array-valued probe was made: %r' % (probes,))
    fails, stats = core.validate_traces('Trace_Units', 'Trace', traces)
    ctx.count('traces_validated_against_impl', len([t for t in traces if t[1]]))
    ctx.coverage['trace_lines'] = stats['lines']
    ctx.coverage['replayed_outcomes'] = sum(len(cs['row']) for cs in cases if cs['kind'] == 'row')
    for tid, idx, clause in sorted(fails):
        ev = traces[tid][1][idx]
        if clause in MACHINERY_CLAUSES:
            raise core.MachineryError('trace spec reported %s on %s' % (clause, json.dumps(ev)[:600]))
        if clause.startswith('Note'):
            # docstring text disagreeing with the function: documentation, not behaviour
            note = 'docstring: %s %s %s' % (clause[4:], ev.get('fn', ev.get('ev', '')),
                                            ev.get('key', ev.get('name', '')))
            if ev.get('doctext'):
                note += ' (documented %s, function %s)' % (
                    ev['doctext'], 'raises' if ev.get('raised') else 'returns %se%d' % tuple(ev['val']))
            if note not in ctx.notes:
                ctx.notes.append(note)
            continue
        detail = {'event_index': idx,
                  'event': {k: v for k, v in ev.items() if k not in ('codes', 'lits', 'doclit')}
                  if case_small(ev) else {'ev': ev.get('ev'), 'type': ev.get('type')}}
        ctx.violation(clause, cases[tid], tags=_tags(cases[tid], ev), detail=detail)
    ctx.assume('tabulated literals are taken as correctly rounded at their last written digit; '
               'literals written as a pure power of ten are exact SI prefixes')
    ctx.assume('Dec arithmetic: derived-entry clauses see nothing below ~1e-6 relative')
    ctx.assume('the catalogue of Units.tla (unit -> quantity type, SI-prefix exponents, periodic table '
               'without elements 113/115/117/118) is the definition the code is compared with')


def case_small(ev):
    return ev.get('ev') not in ('matrix', 'temp', 'cross', 'spec', 'array')


if __name__ == '__main__':
    core.main('C12', 'model_checking', run)
