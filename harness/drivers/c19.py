"""C19 - phase diagrams and energy spans select the true extrema.

(D)    spec/Extrema.tla checked exhaustively (MC_Extrema.cfg): every integer table
       with entries 0..2 (<= 3 reactions x <= 3 grid points; <= 2 x 2 x 2 for 2-D),
       every state-energy list of <= 6 states over 0..3.  The variant that takes the
       arg-min along the reaction rows (numpy axis=1, get_GoRT_1D at the pinned
       commit) must be REJECTED (MC_Extrema_axis1*.cfg).
(S->C) MC_Extrema_cases: TLC emits every small 1-D table, additive 2-D table and
       reaction sequence with the acceptable answers it computed.  Tables are
       realised with real Nasa species (coefficients interpolating the integers),
       sequences with electronic StatMech species; the reported indices / span are
       compared with TLC's sets (discrete projection only).
(C->S) the same calls plus random real-valued phase diagrams (StatMech / Nasa
       species, scans over T, P and per-species pressures, arbitrary signed
       normalisation factors, with and without units) and random reaction sequences
       (both Reactions.get_E_span and Network.get_E_span) are recorded as NDJSON and
       judged by spec/Trace_Extrema.tla.
No plotting function is called.
"""
import math
import random
from fractions import Fraction as F

from harness import core
from harness.core import to_dec

T_GRID = [500.0, 1000.0, 1500.0]            # an arithmetic progression: also a range / arange
# species names: a per-species scan variable is '<name>_kwargs'; the alphabet deliberately
# includes names ending in one of the characters of '_kwargs' (and in 's', 'g', 'a', '_')
GAS_NAMES = ['CO_gas', 'H2O_g', 'O2_gas', 'H2_gas', 'NH3(g)', 'CO', 'H2', 'G1', 'Ar', 'gas', 'args',
             'CH4_w', 'N2_k', 'O_r', 'CO2_', 'CH3OH(gas)', 'H2 gas', 'vapours', 'NO_a', 'X2']
REF_NAMES = ['R', 'Pt_bulk', 'vacancies', 'Pt(S)', 'slab', 'Ni_surf_a', 'Z']
PHASE_SUFFIXES = ['fcc', 'CO(S)', 'ML_a', 'sites', 'brg', 'top_', 'ML hollow', 'PH']
KW_CHARS = set('_kwargs')
GRID_FORMS = ['list', 'farray', 'tuple', 'npscalars', 'ilist', 'iarray', 'arange', 'range']
ORDERS = ['asc', 'desc', 'shuf', 'dup']
NORM_MODES = ['none', 'coverage', 'positive', 'signed', 'logsigned', 'int']
NORM_CONTAINERS = ['list', 'ndarray', 'tuple']
RXN_CLASSES = ['Reaction', 'SurfaceReaction', 'ChemkinReaction']
SCAN_VARS = ['T', 'P', 'G1_kwargs', 'G2_kwargs']
LEN1 = [1, 2, 3, 30, 5, 29, 8, 4, 15, 6, 7]
LEN2_QUICK = [(1, 1), (1, 2), (2, 1), (2, 2), (3, 4), (5, 2), (30, 1), (1, 30), (29, 2), (2, 29),
              (6, 6), (4, 3), (30, 3)]
LEN2_MORE = [(30, 30), (29, 30), (30, 29), (3, 30)]
INT_FORMS = ('ilist', 'iarray', 'arange', 'range')


def _typed_grid(vals, form):
    """The same grid values as the container / element type a user may pass: list of floats,
    float ndarray, list of ints, int ndarray, numpy.arange, range (integer forms need
    integer values; arange / range need an arithmetic progression, else an int ndarray)."""
    import numpy as np
    if form == 'list':
        return [float(v) for v in vals]
    if form == 'farray':
        return np.array([float(v) for v in vals])
    if form == 'tuple':
        return tuple(float(v) for v in vals)
    if form == 'npscalars':
        return [np.float64(v) for v in vals]
    iv = [int(v) for v in vals]
    if any(float(i) != float(v) for i, v in zip(iv, vals)):
        raise core.MachineryError('integer grid form for non-integer values')
    if form == 'ilist':
        return iv
    step = (iv[1] - iv[0]) if len(iv) > 1 else 1
    ap = step != 0 and all(b - a == step for a, b in zip(iv, iv[1:]))
    if form in ('arange', 'range') and ap:
        stop = iv[-1] + (1 if step > 0 else -1)
        return np.arange(iv[0], stop, step) if form == 'arange' else range(iv[0], stop, step)
    return np.array(iv)


def _int_typed(x_values):
    """coverage only: the grid is integer-typed (int list / ndarray / arange / range)"""
    import numpy as np
    try:
        return np.asarray(x_values).dtype.kind in 'iu'
    except Exception:
        return False


def _table_dtype(tab):
    import numpy as np
    dt = getattr(tab, 'dtype', None)
    return {'tabdtype': str(dt), 'tabfloat': bool(dt is not None and np.issubdtype(dt, np.floating))}
EXACT_NORMS = [1.0, 2.0, -1.0, 0.5, -4.0]
UNITS = [None, 'kJ/mol', 'eV', 'kcal/mol', 'J/mol']
SPAN_UNITS = ['eV', 'kJ/mol', 'kcal/mol', 'J/mol']


def all_units():
    """Every energy unit pmutt.constants.R knows ('<unit>/K' keys of its table), read from
    the library so that a new unit is picked up; at least the 16 documented ones."""
    import inspect
    import re
    from pmutt import constants as c
    found = re.findall(r"'([^']+)/K'\s*:", inspect.getsource(c.R))
    units = []
    for u in found:
        if u not in units:
            try:
                c.R(u + '/K')
                units.append(u)
            except Exception:
                pass
    if len(units) < 16:
        raise core.MachineryError('could not enumerate the units of constants.R: %r' % (units,))
    return units


# --------------------------------------------------------------------------
# projection helpers
# --------------------------------------------------------------------------
def _finite_all(a):
    import numpy as np
    return bool(np.all(np.isfinite(np.asarray(a, dtype=float))))


def _dec_nested(a):
    """nested lists of floats -> nested lists of Dec; non-finite -> [0, 0] (the event
    carries finite = false and the spec reports Finite)."""
    if isinstance(a, (list, tuple)):
        return [_dec_nested(x) for x in a]
    return to_dec(a) if core.finite(a) else [0, 0]


def _int_nested(a):
    if isinstance(a, (list, tuple)):
        return [_int_nested(x) for x in a]
    x = float(a)
    return int(x) if core.finite(x) else -1


def _integral(arr):
    import numpy as np
    a = np.asarray(arr, dtype=float)
    return bool(np.all(np.isfinite(a)) and np.all(a == np.floor(a)))


def _stable_fields(st):
    import numpy as np
    st = np.asarray(st)
    return {'st': _int_nested(st.tolist()), 'stshape': [int(v) for v in st.shape],
            'stint': _integral(st)}


# --------------------------------------------------------------------------
# recording wrappers around the library calls
# --------------------------------------------------------------------------
def _temperature(kw, names_values):
    """Temperature the library multiplies by when units are requested."""
    for name, val in names_values:
        if name == 'T':
            return float(val)
    return float(kw.get('T', 0.0))


def record_scan1(pd, norms, x_name, x_values, G_units, kw, k=0, ret_tab=False):
    """Call get_GoRT_1D, return the event (or a 'raised' marker)."""
    import numpy as np
    from pmutt import constants as c
    n, npts = len(pd.reactions), len(x_values)
    own, Ts = [], []
    for rxn in pd.reactions:
        row = []
        for x in x_values:
            a = dict(kw)
            a[x_name] = x
            row.append(float(rxn.get_delta_GoRT(**a)))
        own.append(row)
    for x in x_values:
        Ts.append(_temperature(kw, [(x_name, x)]))
    tab, st = pd.get_GoRT_1D(x_name=x_name, x_values=x_values, G_units=G_units, **dict(kw))
    dt = _table_dtype(tab)
    dt['g1int'] = _int_typed(x_values)
    raw_tab = tab
    tab = np.asarray(tab, dtype=float)
    ev = {'ev': 'scan1', 'n': n, 'np': npts, 'k': int(k), 'units': G_units is not None,
          'x1': str(x_name),
          'R': to_dec(c.R('%s/K' % G_units)) if G_units is not None else [1, 0],
          'T': [to_dec(t) for t in Ts], 'norm': [to_dec(v) for v in norms],
          'own': _dec_nested(own), 'tab': _dec_nested(tab.tolist()),
          'tabshape': [int(v) for v in tab.shape],
          'finite': _finite_all(tab) and _finite_all(own)}
    ev.update(_stable_fields(st))
    ev.update(dt)
    if ret_tab:
        return ev, np.asarray(st), raw_tab
    return ev, np.asarray(st)


def record_scan2(pd, norms, x1_name, x1_values, x2_name, x2_values, G_units, kw, ret_tab=False):
    import numpy as np
    from pmutt import constants as c
    n, npts, nq = len(pd.reactions), len(x1_values), len(x2_values)
    own, Ts = [], []
    for rxn in pd.reactions:
        plane = []
        for x1 in x1_values:
            row = []
            for x2 in x2_values:
                a = dict(kw)
                a[x1_name] = x1
                a[x2_name] = x2
                row.append(float(rxn.get_delta_GoRT(**a)))
            plane.append(row)
        own.append(plane)
    for x1 in x1_values:
        Ts.append([_temperature(kw, [(x2_name, x2), (x1_name, x1)]) for x2 in x2_values])
    tab, st = pd.get_GoRT_2D(x1_name=x1_name, x1_values=x1_values, x2_name=x2_name,
                             x2_values=x2_values, G_units=G_units, **dict(kw))
    dt = _table_dtype(tab)
    dt['g1int'], dt['g2int'] = _int_typed(x1_values), _int_typed(x2_values)
    raw_tab = tab
    tab = np.asarray(tab, dtype=float)
    ev = {'ev': 'scan2', 'n': n, 'np': npts, 'nq': nq, 'units': G_units is not None,
          'x1': str(x1_name), 'x2': str(x2_name),
          'R': to_dec(c.R('%s/K' % G_units)) if G_units is not None else [1, 0],
          'T': _dec_nested(Ts), 'norm': [to_dec(v) for v in norms],
          'own': _dec_nested(own), 'tab': _dec_nested(tab.tolist()),
          'tabshape': [int(v) for v in tab.shape],
          'finite': _finite_all(tab) and _finite_all(own)}
    ev.update(_stable_fields(st))
    ev.update(dt)
    if ret_tab:
        return ev, np.asarray(st), raw_tab
    return ev, np.asarray(st)


def _state_G(rxn, state, units, kw):
    if units is None:
        return float(rxn.get_GoRT_state(state=state, **dict(kw)))
    return float(rxn.get_G_state(state=state, units=units, **dict(kw)))


def _step_energies(rxns, units, kw):
    """One record per step: the Gibbs energy of its reactant state, of its transition
    state (if any) and of its product state, each from the reaction's own getter.  Every
    step's reactant state is listed - it need not be the previous step's product state."""
    steps = []
    for rxn in rxns:
        steps.append({'r': _state_G(rxn, 'reactants', units, kw),
                      't': ([_state_G(rxn, 'transition_state', units, kw)]
                            if rxn.transition_state is not None else []),
                      'p': _state_G(rxn, 'products', units, kw)})
    return steps


def _is_contiguous(rxns):
    from pmutt.reaction.network import state_to_set
    return all(state_to_set(a.products, a.products_stoich) == state_to_set(b.reactants, b.reactants_stoich)
               for a, b in zip(rxns, rxns[1:]))


def _later_reactant_extreme(steps):
    """coverage only: a reactant state of a step after the first lies strictly beyond
    every other state of the sequence"""
    rest = []
    for k, st in enumerate(steps):
        rest += ([st['r']] if k == 0 else []) + st['t'] + [st['p']]
    return any(st['r'] > max(rest) or st['r'] < min(rest) for st in steps[1:])


def record_span(rxns, api, units, kw, holder='Reactions', net=None):
    from pmutt.reaction import Reactions
    from pmutt.reaction.network import Network, state_to_set
    steps = _step_energies(rxns, units, kw)
    flat = [g for st in steps for g in [st['r']] + st['t'] + [st['p']]]
    ev = {'ev': 'span', 'api': api, 'contig': _is_contiguous(rxns),
          'lrx': _later_reactant_extreme(steps)}
    if api == 'reactions':
        if holder == 'PhaseDiagram':               # inherits Reactions.get_E_span
            from pmutt.reaction.phasediagram import PhaseDiagram
            obj = PhaseDiagram(reactions=list(rxns))
        else:
            obj = Reactions(reactions=list(rxns))
        span = obj.get_E_span(units=units, **dict(kw))
        ev['steps'] = [{'r': _dec_nested(st['r']), 't': _dec_nested(st['t']), 'p': _dec_nested(st['p'])}
                       for st in steps]
    else:
        # a path of the network graph: only contiguous sequences are paths
        if not ev['contig']:
            raise core.MachineryError('driver asked for a network path of a non-contiguous sequence')
        G = [g for k, st in enumerate(steps) for g in ([st['r']] if k == 0 else []) + st['t'] + [st['p']]]
        net = net if net is not None else Network(reactions=list(rxns))
        path = []
        for s, rxn in enumerate(rxns):
            if s == 0:
                path.append(state_to_set(rxn.reactants, rxn.reactants_stoich))
            if rxn.transition_state is not None:
                path.append(state_to_set(rxn.transition_state, rxn.transition_state_stoich))
            path.append(state_to_set(rxn.products, rxn.products_stoich))
        if len(set(path)) != len(path) or any(p not in net.graph.nodes for p in path):
            raise core.MachineryError('driver built an invalid network path')
        if api == 'network_min':
            # a linear sequence has exactly one simple path between its ends: the minimum
            # span over the paths is the span of the sequence
            from pmutt.reaction import _write_reaction_state
            src = _write_reaction_state(rxns[0].reactants, rxns[0].reactants_stoich)
            tgt = _write_reaction_state(rxns[-1].products, rxns[-1].products_stoich)
            span = net.get_min_E_span(source=src, target=tgt, units=units, **dict(kw))
        else:
            span = net.get_E_span(path=path, units=units, **dict(kw))
        ev['G'] = _dec_nested(G)
    span = float(span)
    ev['finite'] = core.finite(span) and _finite_all(flat)
    ev['span'] = to_dec(span) if core.finite(span) else [0, 0]
    return ev, span


# --------------------------------------------------------------------------
# species construction
# --------------------------------------------------------------------------
def _nasa(name, a, phase):
    import numpy as np
    from pmutt.empirical.nasa import Nasa
    a = np.array([float(v) for v in a])
    return Nasa(name=name, T_low=100.0, T_mid=3000.0, T_high=6000.0, a_low=a, a_high=a.copy(),
                phase=phase)


def _interp_coeffs(Ts, vals):
    """NASA-7 coefficients with G/RT(T_j) = vals[j] on up to three temperatures:
    G/RT = -a7 + a6/T - a2 T/2 (all other coefficients zero); exact rationals."""
    n = len(Ts)
    basis = [lambda T: F(-1), lambda T: 1 / F(T), lambda T: F(-1, 2) * F(T)][:n]
    M = [[b(F(T)) for b in basis] + [F(v)] for T, v in zip(Ts, vals)]
    for col in range(n):
        piv = next(r for r in range(col, n) if M[r][col] != 0)
        M[col], M[piv] = M[piv], M[col]
        M[col] = [x / M[col][col] for x in M[col]]
        for r in range(n):
            if r != col and M[r][col] != 0:
                M[r] = [x - M[r][col] * y for x, y in zip(M[r], M[col])]
    sol = [M[r][n] for r in range(n)] + [F(0)] * (3 - n)
    a = [0.0] * 7
    a[6], a[5], a[1] = float(sol[0]), float(sol[1]), float(sol[2])
    return a


def _table_diagram(rows_by_T, norms, slopes, lnp_unit=1.0, gname='G', zname='Z'):
    """PhaseDiagram whose normalised table is rows_by_T[i][a] + slopes[i] * ln(P):
    reaction i is  Z (+ nu G) = S_i (+ nu G)  with S_i a Nasa species interpolating
    norm_i * rows_by_T[i][.] on T_GRID and G a structureless gas (G/RT = ln P)."""
    import numpy as np
    from pmutt.reaction import Reaction
    from pmutt.reaction.phasediagram import PhaseDiagram
    nT = len(rows_by_T[0])
    Z = _nasa(zname, [0.0] * 7, 'S')
    Gs = _nasa(gname, [0.0] * 7, 'G')
    rxns = []
    for i, row in enumerate(rows_by_T):
        S = _nasa('S%d_%s' % (i, PHASE_SUFFIXES[i % len(PHASE_SUFFIXES)]), _interp_coeffs(T_GRID[:nT], [v * norms[i] for v in row]), 'S')
        nu = norms[i] * slopes[i] / lnp_unit      # nu * ln(P_b) = norm * slope * (b - 1)
        if nu > 0:
            rxns.append(Reaction(reactants=[Z], reactants_stoich=[1.0],
                                 products=[S, Gs], products_stoich=[1.0, float(nu)]))
        elif nu < 0:
            rxns.append(Reaction(reactants=[Z, Gs], reactants_stoich=[1.0, float(-nu)],
                                 products=[S], products_stoich=[1.0]))
        else:
            rxns.append(Reaction(reactants=[Z], reactants_stoich=[1.0],
                                 products=[S], products_stoich=[1.0]))
    return PhaseDiagram(reactions=rxns, norm_factors=np.array(norms, dtype=float))


def _check_stable1(st, acc):
    if list(st.shape) != [len(acc)]:
        return {'what': 'shape', 'expected_shape': [len(acc)], 'got_shape': list(st.shape),
                'got': _int_nested(st.tolist())}
    bad = [j for j in range(len(acc)) if int(st[j]) + 1 not in acc[j] or st[j] != int(st[j])]
    if bad:
        return {'what': 'argmin', 'points': bad, 'acceptable_1based': acc,
                'got_0based': _int_nested(st.tolist())}
    return None


def _check_stable2(st, acc):
    shape = [len(acc), len(acc[0])]
    if list(st.shape) != shape:
        return {'what': 'shape', 'expected_shape': shape, 'got_shape': list(st.shape)}
    bad = [(j, k) for j in range(shape[0]) for k in range(shape[1])
           if int(st[j][k]) + 1 not in acc[j][k] or st[j][k] != int(st[j][k])]
    if bad:
        return {'what': 'argmin', 'points': bad, 'acceptable_1based': acc,
                'got_0based': _int_nested(st.tolist())}
    return None


# --------------------------------------------------------------------------
# executing cases
# --------------------------------------------------------------------------
def _exec_one(case):
    import numpy as np
    t = case['t']
    npts = len(t[0])
    pd = _table_diagram(t, case['norms'], [0] * len(t))
    xs = _typed_grid(T_GRID[:npts], case.get('xs_form', 'farray' if case.get('xs_array') else 'list'))
    events, mism = [], []
    ev, st = record_scan1(pd, case['norms'], 'T', xs, case['units'], {'P': 1.0})
    events.append(ev)
    m = _check_stable1(st, case['acc'])
    if m:
        mism.append(('ReplayStable', dict(m, op='scan1')))
    # the same table with a singleton second axis (a pressure the table does not depend on)
    ev2, st2 = record_scan2(pd, case['norms'], 'T', xs, 'P',
                            _typed_grid([2.0], case.get('p_form', 'list')), case['units'], {})
    ev1, st1 = record_scan1(pd, case['norms'], 'T', xs, case['units'], {'P': 2.0}, k=1)
    events += [ev2, ev1]
    m = _check_stable2(st2, [[a] for a in case['acc']])
    if m:
        mism.append(('ReplayStable', dict(m, op='scan2')))
    return events, mism


def _exec_two(case):
    A, c, nb, order = case['a'], case['c'], case['nb'], case['order']
    pform = case.get('p_form', 'list')
    pint = pform in INT_FORMS                      # integer pressures 1, 2, 4: ln P = (b - 1) ln 2
    gname = case.get('gname', 'G')
    pd = _table_diagram(A, case['norms'], c, math.log(2.0) if pint else 1.0, gname=gname,
                        zname=case.get('zname', 'Z'))
    Ts = _typed_grid(T_GRID[:len(A[0])], case.get('t_form', 'list'))
    Ps = [2 ** b for b in range(nb)] if pint else [math.exp(b) for b in range(nb)]
    pname = 'P' if case['pvar'] == 'P' else gname + '_kwargs'   # per-species pressure of the gas
    pvals = _typed_grid(Ps, pform) if pname == 'P' else [{'P': p} for p in Ps]
    kw = {} if pname == 'P' else {'P': 7.0}          # overridden for the gas by G_kwargs
    if order == 'TP':
        names, vals = ('T', pname), (Ts, pvals)
    else:
        names, vals = (pname, 'T'), (pvals, Ts)
    events, mism = [], []
    ev2, st2 = record_scan2(pd, case['norms'], names[0], vals[0], names[1], vals[1],
                            case['units'], kw)
    events.append(ev2)
    m = _check_stable2(st2, case['acc'])
    if m:
        mism.append(('ReplayStable', dict(m, op='scan2')))
    # every slice of the second axis as a 1-D scan
    for k, v2 in enumerate(vals[1]):
        kw1 = dict(kw)
        kw1[names[1]] = v2
        ev1, st1 = record_scan1(pd, case['norms'], names[0], vals[0], case['units'], kw1, k=k + 1)
        events.append(ev1)
        m = _check_stable1(st1, [case['acc'][j][k] for j in range(len(vals[0]))])
        if m:
            mism.append(('ReplayStable', dict(m, op='scan1', slice=k)))
    return events, mism


def _chain(energies_by_state, ts, mk, extras=None, rcls='Reaction'):
    """Reactions of a linear sequence; energies_by_state lists the intermediates and
    transition states without repetition (I0, [TS1], I1, [TS2], I2, ...).  extras[s] may
    give step s a co-reactant ('co': joins the reactants of step s, s >= 1) and / or a
    by-product ('by': leaves with the products of step s and does not continue), each a
    (species, stoich) pair - then the reactant state of the next step is NOT the product
    state of this one."""
    from pmutt.reaction import Reaction
    rxns, p = [], 0
    cur = mk('I0', energies_by_state[0], False)
    for s, has_ts in enumerate(ts):
        tsp = None
        if has_ts:
            p += 1
            tsp = mk('TS%d' % (s + 1), energies_by_state[p], True)
        p += 1
        nxt = mk('I%d' % (s + 1), energies_by_state[p], False)
        ex = (extras[s] if extras else None) or {}
        reac, rst = list(cur[0]), list(cur[1])
        prod, pst = list(nxt[0]), list(nxt[1])
        if ex.get('co'):
            reac.append(ex['co'][0])
            rst.append(ex['co'][1])
        if ex.get('by'):
            prod.append(ex['by'][0])
            pst.append(ex['by'][1])
        rxns.append(_make_reaction(rcls, reactants=reac, reactants_stoich=rst,
                             products=prod, products_stoich=pst,
                             transition_state=tsp[0] if tsp else None,
                             transition_state_stoich=tsp[1] if tsp else None))
        cur = nxt
    return rxns


def _exec_seq(case):
    """TLC sequence with independent reactant-state energies.  form 'co': step k is
    I(k-1) + X(k) = [TS(k)] = I(k) with E(X(k)) = r(k) - p(k-1); form 'by': step k is
    I(k-1) = [TS(k)] = I(k) + Z(k) with E(I(k)) = r(k+1), E(Z(k)) = p(k) - r(k+1)."""
    from pmutt.statmech import StatMech, presets
    from pmutt.reaction import Reaction

    def sp(name, e):
        return StatMech(name=name, potentialenergy=float(e), **presets['electronic'])

    steps, n = case['steps'], len(case['steps'])
    rxns = []
    for k, st in enumerate(steps):
        ts = ([sp('TS%d' % (k + 1), st['t'][0])], [1.0]) if st['t'] else (None, None)
        if case['form'] == 'co':
            reac, rst = [sp('I%d' % k, st['r'] if k == 0 else steps[k - 1]['p'])], [1.0]
            if k > 0 and (st['r'] != steps[k - 1]['p'] or case['zero_extra']):
                reac.append(sp('X%d' % (k + 1), st['r'] - steps[k - 1]['p']))
                rst.append(1.0)
            prod, pst = [sp('I%d' % (k + 1), st['p'])], [1.0]
        else:
            reac, rst = [sp('I%d' % k, st['r'])], [1.0]
            if k + 1 < n:
                prod, pst = [sp('I%d' % (k + 1), steps[k + 1]['r'])], [1.0]
                if st['p'] != steps[k + 1]['r'] or case['zero_extra']:
                    prod.append(sp('Z%d' % (k + 1), st['p'] - steps[k + 1]['r']))
                    pst.append(1.0)
            else:
                prod, pst = [sp('I%d' % (k + 1), st['p'])], [1.0]
        rxns.append(Reaction(reactants=reac, reactants_stoich=rst, products=prod, products_stoich=pst,
                             transition_state=ts[0], transition_state_stoich=ts[1]))
    events, mism = [], []
    apis = ['reactions'] + (['network'] if _is_contiguous(rxns) else [])
    for api in apis:
        ev, span = record_span(rxns, api, 'eV', {'T': case['T']})
        events.append(ev)
        r = round(span)
        if not core.finite(span) or abs(span - r) > 1e-6 or r not in case['spans']:
            mism.append(('ReplaySpan', {'api': api, 'got': span, 'acceptable': case['spans'],
                                        'states': case['states']}))
    return events, mism


def _exec_span(case):
    from pmutt.statmech import StatMech, presets

    def mk(name, e, is_ts):
        return ([StatMech(name=name, potentialenergy=float(e), **presets['electronic'])], [1.0])

    rxns = _chain(case['g'], case['ts'], mk)
    events, mism = [], []
    for api in ('reactions', 'network'):
        ev, span = record_span(rxns, api, 'eV', {'T': case['T']})
        events.append(ev)
        r = round(span)
        if not core.finite(span) or abs(span - r) > 1e-6 or r not in case['spans']:
            mism.append(('ReplaySpan', {'api': api, 'got': span, 'acceptable': case['spans']}))
    return events, mism


# ---- random real-valued phase diagrams ------------------------------------
def _random_species(rnd, kind, names=None):
    """A pool: reference surface R, gases G1, G2, candidate phases."""
    from pmutt.statmech import StatMech, presets
    sp = {}
    nm = names or {'R': 'R', 'G1': 'G1', 'G2': 'G2'}
    if kind == 'statmech':
        from ase.build import molecule
        sp['R'] = StatMech(name=nm['R'], potentialenergy=-380.0 - rnd.uniform(0, 5),
                           **presets['electronic'])
        sp['G1'] = StatMech(name=nm['G1'], atoms=molecule('CO'), potentialenergy=-14.8 + rnd.uniform(-0.2, 0.2),
                            vib_wavenumbers=[2121.2 * rnd.uniform(0.9, 1.1)], symmetrynumber=1,
                            **presets['idealgas'])
        sp['G2'] = StatMech(name=nm['G2'], atoms=molecule('H2'), potentialenergy=-6.77 + rnd.uniform(-0.1, 0.1),
                            vib_wavenumbers=[4306.0 * rnd.uniform(0.9, 1.1)], symmetrynumber=2,
                            **presets['idealgas'])
    else:
        sp['R'] = _nasa(nm['R'], [rnd.uniform(1, 4), rnd.uniform(-1e-3, 1e-3), 0, 0, 0,
                              rnd.uniform(-2e3, 2e3), rnd.uniform(-5, 5)], 'S')
        sp['G1'] = _nasa(nm['G1'], [3.5 + rnd.uniform(-0.5, 1.0), rnd.uniform(0, 2e-3), rnd.uniform(-5e-7, 5e-7),
                                0, 0, rnd.uniform(-2e4, -1e3), rnd.uniform(2, 8)], 'G')
        sp['G2'] = _nasa(nm['G2'], [3.5 + rnd.uniform(-0.5, 1.0), rnd.uniform(0, 2e-3), rnd.uniform(-5e-7, 5e-7),
                                0, 0, rnd.uniform(-2e3, 1e3), rnd.uniform(-4, 4)], 'G')
    return sp


def _random_phase(rnd, kind, sp, i, n1, n2, suffix='PH'):
    from pmutt.statmech import StatMech, presets
    name = '%d %s' % (i, suffix)
    if kind == 'statmech':
        e = (sp['R'].elec_model.potentialenergy
             + n1 * (sp['G1'].elec_model.potentialenergy - rnd.uniform(0.6, 2.0))
             + n2 * (sp['G2'].elec_model.potentialenergy - rnd.uniform(0.1, 0.9))
             + rnd.uniform(-0.05, 0.05))
        nv = max(1, int(round(3 * (n1 + n2))))
        vib = [rnd.uniform(50, 2100) for _ in range(min(nv, 12))]
        return StatMech(name=name, potentialenergy=e, vib_wavenumbers=vib, **presets['harmonic'])
    a = [rnd.uniform(1, 4) + 2.0 * (n1 + n2), rnd.uniform(-2e-3, 2e-3), rnd.uniform(-5e-7, 5e-7), 0, 0,
         n1 * rnd.uniform(-3e4, -5e3) + n2 * rnd.uniform(-1.2e4, -1e3) + rnd.uniform(-500, 500),
         rnd.uniform(-5, 5)]
    return _nasa(name, a, 'S')


def _grid(rnd, var, m, form='list', order=None):
    """m grid values of a scan variable in the given container / element type and order
    (asc, desc, shuf = as drawn, dup = unsorted with a repeated value); integer forms draw
    integer temperatures / pressures; arange / range can only be asc / desc.  Returns
    (values, effective form, effective order)."""
    if order is None:
        order = rnd.choice(['asc', 'asc', 'desc', 'shuf'])
    if var not in ('T', 'P'):
        form = 'dicts'
    if form in ('arange', 'range') and order in ('shuf', 'dup'):
        form = 'iarray'
    if form in ('arange', 'range'):
        if var == 'T':
            start, step = rnd.randint(250, 600), rnd.randint(5, 40)
        else:
            start, step = rnd.randint(1, 5), rnd.randint(1, 4)
        vals = [start + step * i for i in range(m)]
        if order == 'desc':
            vals.reverse()
        return _typed_grid(vals, form), form, order
    if form in INT_FORMS:
        pool = range(250, 1501) if var == 'T' else range(1, 121)
        vals = rnd.sample(pool, m)
    elif var == 'T':
        vals = [rnd.uniform(250.0, 1500.0) for _ in range(m)]
    else:
        vals = [10.0 ** rnd.uniform(-6.0, 2.0) for _ in range(m)]
    if order == 'asc':
        vals.sort()
    elif order == 'desc':
        vals.sort(reverse=True)
    elif order == 'dup' and m >= 2:
        vals[-1] = vals[0]
    if var in ('T', 'P'):
        return _typed_grid(vals, form), form, order
    return [{'P': v} for v in vals], form, order


def _make_reaction(cls_name, **kw):
    from pmutt.reaction import Reaction, ChemkinReaction
    from pmutt.omkm.reaction import SurfaceReaction
    return {'Reaction': Reaction, 'ChemkinReaction': ChemkinReaction,
            'SurfaceReaction': SurfaceReaction}[cls_name](**kw)


def _exec_rpd(case):
    import numpy as np
    from pmutt.reaction.phasediagram import PhaseDiagram
    rnd = random.Random(case['seed'])
    kind = case['species']
    rcls = case.get('rcls', 'Reaction')
    names = case.get('names') or {'R': 'R', 'G1': 'G1', 'G2': 'G2'}
    sp = _random_species(rnd, kind, names)
    n = case['n']

    def var(v):                 # 'G1_kwargs' -> '<name of gas 1>_kwargs'
        return names[v[:-7]] + '_kwargs' if v.endswith('_kwargs') else v

    rxns, stoich = [], []
    n_new = n - 1 if (case.get('dup_rxn') and n >= 2) else n
    for i in range(n_new):
        if i == 0 and rnd.random() < 0.5:
            n1 = n2 = 0.0                                   # the clean surface  R = R
            rxns.append(_make_reaction(rcls, reactants=[sp['R']], reactants_stoich=[1.0],
                                       products=[sp['R']], products_stoich=[1.0]))
        else:
            n1 = rnd.choice([0.0, 0.5, 1.0, 1.0, 2.0, 3.0, 4.0, 8.0])
            n2 = rnd.choice([0.0, 0.0, 0.5, 1.0, 2.0])
            if n1 == 0.0 and n2 == 0.0:
                n1 = 1.0
            ph = _random_phase(rnd, kind, sp, i, n1, n2,
                               PHASE_SUFFIXES[(i + case['seed']) % len(PHASE_SUFFIXES)] if case.get('names') else 'PH')
            reac, rst = [sp['R']], [1.0]
            if n1:
                reac.append(sp['G1'])
                rst.append(n1)
            if n2:
                reac.append(sp['G2'])
                rst.append(n2)
            rxns.append(_make_reaction(rcls, reactants=reac, reactants_stoich=rst, products=[ph],
                                       products_stoich=[1.0]))
        stoich.append((n1, n2))
    nm = case['norm_mode']
    if nm == 'none':
        norms, arg = [1.0] * n_new, None
    else:
        norms = []
        for (n1, n2) in stoich:
            if nm == 'coverage':
                v = max(n1 + n2, 0.5)
            elif nm == 'int':
                v = rnd.choice([1, 2, 3, 4, 8, 16])
            elif nm == 'logsigned':
                v = 10.0 ** rnd.uniform(-3.0, 3.0) * (-1.0 if rnd.random() < 0.5 else 1.0)
            else:
                v = rnd.uniform(0.05, 25.0) * (-1.0 if (nm == 'signed' and rnd.random() < 0.4) else 1.0)
            norms.append(v)
        if nm == 'signed' and n_new >= 1 and all(v > 0 for v in norms):
            norms[-1] = -norms[-1]
    if n_new < n:
        # the same candidate listed twice (same reaction object, same factor): an exact tie
        d = rnd.randrange(n_new)
        rxns.append(rxns[d])
        norms.append(norms[d])
    if nm != 'none':
        cont = case.get('norm_container') or ('ndarray' if rnd.random() < 0.7 else 'list')
        arg = (np.array(norms) if cont == 'ndarray' else tuple(norms) if cont == 'tuple' else list(norms))
    pd = PhaseDiagram(reactions=rxns, norm_factors=arg)
    if case.get('ctor') == 'from_dict':
        pd = PhaseDiagram.from_dict(pd.to_dict())
    cls = ['pd.n:%d' % n, 'pd.norm:' + nm, 'pd.rcls:' + rcls, 'pd.ctor:' + case.get('ctor', 'direct'),
           'pd.species:' + kind]
    if nm != 'none':
        cls.append('pd.normc:' + cont)
        if any(v < 0 for v in norms):
            cls.append('pd.norm:negative_present')
    if n_new < n:
        cls.append('pd.dup_reaction')
    units = case['units']
    fixed = {'T': rnd.uniform(300.0, 1200.0), 'P': 10.0 ** rnd.uniform(-4.0, 1.0),
             var('G1_kwargs'): {'P': 10.0 ** rnd.uniform(-5.0, 1.0)},
             var('G2_kwargs'): {'P': 10.0 ** rnd.uniform(-5.0, 1.0)}}
    events, kept = [], []

    def lenclass(m):
        return str(m) if m in (1, 2, 29, 30) else 'mid'

    v1 = var(case['x1'])
    g1, f1, o1 = _grid(rnd, v1, case['m1'], case.get('f1', 'list'), case.get('o1'))
    if case['dim'] == 1:
        kw = {k: v for k, v in fixed.items() if k != v1 and (k in ('T', 'P') or rnd.random() < 0.4)}
        tags = cls + ['scan1.units:%s' % units, 'scan1.var:' + case['x1'], 'scan1.len:' + lenclass(case['m1']),
                      'scan1.form:' + f1] + (['scan1.order:' + o1] if case['m1'] >= 3 else [])
        ev, _, tab = record_scan1(pd, norms, v1, g1, units, kw, ret_tab=True)
        ev['cls'] = tags
        events.append(ev)
        kept.append((ev, tab))
        # the same call once more on the same object
        ev, _, tab = record_scan1(pd, norms, v1, g1, units, kw, ret_tab=True)
        ev['cls'] = ['pd.repeat_call']
        events.append(ev)
        kept.append((ev, tab))
    else:
        v2 = var(case['x2'])
        g2, f2, o2 = _grid(rnd, v2, case['m2'], case.get('f2', 'list'), case.get('o2'))
        kw = {k: v for k, v in fixed.items()
              if k not in (v1, v2) and (k in ('T', 'P') or rnd.random() < 0.4)}
        tags = cls + ['scan2.units:%s' % units, 'scan2.vars:%s,%s' % (case['x1'], case['x2']),
                      'scan2.len1:' + lenclass(case['m1']), 'scan2.len2:' + lenclass(case['m2']),
                      'scan2.form1:' + f1, 'scan2.form2:' + f2]
        tags += (['scan2.order1:' + o1] if case['m1'] >= 3 else [])
        tags += (['scan2.order2:' + o2] if case['m2'] >= 3 else [])
        ev, _, tab = record_scan2(pd, norms, v1, g1, v2, g2, units, kw, ret_tab=True)
        ev['cls'] = tags
        events.append(ev)
        kept.append((ev, tab))
        ks = list(range(len(g2)))
        rnd.shuffle(ks)
        for k in sorted(ks[:case.get('slices', 2)]):
            kw1 = dict(kw)
            kw1[v2] = g2[k]
            ev1, _, tab = record_scan1(pd, norms, v1, g1, units, kw1, k=k + 1, ret_tab=True)
            events.append(ev1)
            kept.append((ev1, tab))
    # a table handed out earlier must still hold what was recorded when it was returned
    mism = []
    for ev, tab in kept:
        if _dec_nested(np.asarray(tab, dtype=float).tolist()) != ev['tab']:
            mism.append(('ReturnedTableKept', {'op': ev['ev']}))
    return events, mism


def _reverse_sequence(rxns):
    """The same pathway walked backwards: every step reversed, steps in reverse order."""
    out = []
    for r in reversed(rxns):
        out.append(type(r)(reactants=r.products, reactants_stoich=r.products_stoich,
                           products=r.reactants, products_stoich=r.reactants_stoich,
                           transition_state=r.transition_state,
                           transition_state_stoich=r.transition_state_stoich))
    return out


def _exec_rspan(case):
    from pmutt.statmech import StatMech, presets
    rnd = random.Random(case['seed'])
    ts = case['ts']
    rcls = case.get('rcls', 'Reaction')
    gas, gname = None, case.get('gname', 'GAS')
    if case['gas']:
        gas = _nasa(gname, [3.5, rnd.uniform(0, 1e-3), 0, 0, 0, rnd.uniform(-1e3, 1e3),
                            rnd.uniform(2, 8)], 'G')
    e, energies = rnd.uniform(-3.0, 3.0), []
    energies.append(e)
    drift = rnd.choice([-0.6, -0.2, 0.0, 0.3])
    for has_ts in ts:
        nxt = e + drift + rnd.uniform(-1.2, 1.2)
        if has_ts:
            energies.append(max(e, nxt) + rnd.uniform(0.02, 1.6))
        energies.append(nxt)
        e = nxt

    def species(name, en, nvib):
        if rcls == 'ChemkinReaction':         # needs species with a phase: NASA polynomials
            return _nasa(name, [rnd.uniform(1, 4), rnd.uniform(-1e-3, 1e-3), 0, 0, 0, en * 11604.5,
                                rnd.uniform(-3, 3)], 'S')
        vib = [rnd.uniform(80, 3200) for _ in range(nvib)]
        if vib:
            return StatMech(name=name, potentialenergy=en, vib_wavenumbers=vib, **presets['harmonic'])
        return StatMech(name=name, potentialenergy=en, **presets['electronic'])

    def mk(name, en, is_ts):
        s = species(name, en, rnd.randint(0, 5))
        if gas is not None and not is_ts and rnd.random() < 0.4:
            return ([s, gas], [1.0, rnd.choice([0.5, 1.0, 2.0])])
        return ([s], [1.0])

    extras = None
    if case.get('noncontig'):
        # co-reactants join / by-products leave: the reactant state of the next step then
        # differs from this step's product state (by up to a few eV either way)
        extras = []
        for k in range(len(ts)):
            ex = {}
            if k > 0 and rnd.random() < 0.5:
                ex['co'] = (species('X%d' % k, rnd.uniform(-3.0, 3.0), 0), rnd.choice([1.0, 1.0, 0.5, 2.0]))
            if k + 1 < len(ts) and rnd.random() < 0.4:
                ex['by'] = (species('Z%d' % k, rnd.uniform(-3.0, 3.0), 1), 1.0)
            extras.append(ex)
    rxns = _chain(energies, ts, mk, extras, rcls)
    if case.get('reversed'):
        rxns = _reverse_sequence(rxns)
    kw = {'T': rnd.uniform(250.0, 1100.0)}
    gas_used = gas is not None and any(gas in r.reactants or gas in r.products for r in rxns)
    if gas is not None:
        if case.get('gas_kw') == 'kwargs':    # the pressure as a per-species keyword
            kw[gname + '_kwargs'] = {'P': 10.0 ** rnd.uniform(-3.0, 1.5)}
        else:
            kw['P'] = 10.0 ** rnd.uniform(-3.0, 1.5)
    units = case['units']
    holder = case.get('holder', 'Reactions')
    tsmode = 'all' if all(ts) else ('none' if not any(ts) else 'mixed')
    cls = ['span.steps:%d' % len(ts), 'span.ts:' + tsmode, 'span.rcls:' + rcls, 'span.holder:' + holder]
    if case.get('reversed'):
        cls.append('span.reversed')
    if gas_used:
        cls.append('span.gas:' + ('kwargs' if case.get('gas_kw') == 'kwargs' else 'P'))
    events = []
    ev, _ = record_span(rxns, 'reactions', units or 'eV', kw, holder)
    ev['cls'] = cls + ['span.units:%s' % (units or 'eV')]
    events.append(ev)
    if _is_contiguous(rxns):
        from pmutt.reaction.network import Network
        net = Network(reactions=list(rxns))          # ONE object, queried again and again
        ev, _ = record_span(rxns, 'network', units, kw, net=net)
        ev['cls'] = ['net.units:%s' % units]
        events.append(ev)
        simple_names = all(len(r.reactants) == 1 and len(r.products) == 1 for r in rxns)
        do_min = case.get('min_span') and simple_names
        if do_min:
            ev, _ = record_span(rxns, 'network_min', units, kw, net=net)
            ev['cls'] = ['net.min_single_path', 'netmin.units:%s' % units]
            events.append(ev)
        # the same Network under other conditions, and back: every answer is judged against
        # the sequence's own state energies under THOSE conditions
        pkey = (gname + '_kwargs') if (gas is not None and case.get('gas_kw') == 'kwargs') else 'P'
        kwP = dict(kw)
        if pkey == 'P':
            kwP['P'] = kw.get('P', 1.0) * rnd.choice([1e-3, 1e-2, 50.0, 400.0])
        else:
            kwP[pkey] = {'P': kw[pkey]['P'] * rnd.choice([1e-3, 1e-2, 50.0, 400.0])}
        kwT = dict(kw)
        kwT['T'] = kw['T'] + rnd.choice([-120.0, 90.0, 333.0])
        other_units = rnd.choice([u for u in [None, 'eV', 'kJ/mol', 'kcal/mol', 'Ha'] if u != units])
        for tag, u2, kw2 in ((('net.requery:P' if pkey == 'P' else 'net.requery:kwargs') if gas_used
                              else 'net.requery:P_without_gas', units, kwP),
                             ('net.requery:T', units, kwT),
                             ('net.requery:units', other_units, kw),
                             ('net.requery:back', units, kw)):
            ev, _ = record_span(rxns, 'network', u2, kw2, net=net)
            ev['cls'] = [tag]
            events.append(ev)
            if do_min and tag != 'net.requery:units':
                ev, _ = record_span(rxns, 'network_min', u2, kw2, net=net)
                ev['cls'] = ['netmin.requery']
                events.append(ev)
    return events, []


EXEC = {'one': _exec_one, 'two': _exec_two, 'span': _exec_span, 'seq': _exec_seq, 'rpd': _exec_rpd,
        'rspan': _exec_rspan}


def execute(case):
    try:
        return EXEC[case['kind']](case)
    except core.MachineryError:
        raise
    except Exception as ex:                      # the library raised on a valid case
        import traceback
        return [], [('Raises', {'raised': '%s: %s' % (type(ex).__name__, ex),
                                'where': traceback.format_exc().splitlines()[-3:]})]


# --------------------------------------------------------------------------
# case generation
# --------------------------------------------------------------------------
def _tlc_cases(ctx, rnd):
    data, r = core.tlc_cases('MC_Extrema_cases', 'MC_Extrema_cases')
    ctx.coverage['tlc_cases'] = {k: len(v) for k, v in data.items()}
    one, two, span, seq = list(data['one']), list(data['two']), list(data['span']), list(data['seq'])

    def stratified(lst, key, per_group):
        """up to per_group cases of every shape class (all of them in the thorough tier)"""
        groups = {}
        for d in sorted(lst, key=lambda d: core._hash(d)):
            groups.setdefault(key(d), []).append(d)
        out = []
        for g in sorted(groups):
            rnd.shuffle(groups[g])
            out += groups[g] if not ctx.quick else groups[g][:per_group]
        return out

    one = stratified(one, lambda d: (len(d['t']), len(d['t'][0])), 80)
    two = stratified(two, lambda d: (len(d['a']), len(d['a'][0]), d['nb'], d['order']), 14)
    span = stratified(span, lambda d: tuple(d['ts']), 30)
    # non-contiguous sequences: all those whose later reactant state is the strict extreme,
    # a stratified sample of the rest
    seq = ([d for d in seq if d['lrx']]
           + stratified([d for d in seq if not d['lrx']],
                        lambda d: (tuple(len(st['t']) for st in d['steps']), d['contig']), 12))
    cases = []
    for c in one:
        n = len(c['t'])
        cases.append({'kind': 'one', 't': c['t'], 'acc': c['acc'],
                      'norms': [rnd.choice(EXACT_NORMS) for _ in range(n)],
                      'units': rnd.choice([None, None, 'kJ/mol', 'eV']),
                      'xs_form': rnd.choice(GRID_FORMS), 'p_form': rnd.choice(GRID_FORMS)})
    for c in two:
        n = len(c['a'])
        cases.append({'kind': 'two', 'a': c['a'], 'c': c['c'], 'nb': c['nb'], 'order': c['order'],
                      't': c['t'], 'acc': c['acc'],
                      'norms': [rnd.choice(EXACT_NORMS) for _ in range(n)],
                      'units': rnd.choice([None, None, 'kJ/mol', 'eV']),
                      'pvar': rnd.choice(['P', 'G_kwargs', 'G_kwargs']),
                      'gname': rnd.choice(GAS_NAMES), 'zname': rnd.choice(REF_NAMES),
                      't_form': rnd.choice(GRID_FORMS), 'p_form': rnd.choice(GRID_FORMS)})
    for c in seq:
        cases.append({'kind': 'seq', 'steps': c['steps'], 'states': c['states'], 'spans': c['spans'],
                      'form': rnd.choice(['co', 'by']), 'zero_extra': rnd.random() < 0.3,
                      'T': rnd.choice([298.15, 500.0, 933.0])})
    for c in span:
        cases.append({'kind': 'span', 'ts': c['ts'], 'g': c['g'], 'spans': c['spans'],
                      'T': rnd.choice([298.15, 500.0, 933.0])})
    return cases


def _random_cases(ctx, rnd):
    """Random real-valued cases.  Every enumerated input class (unit, number of reactions,
    scan variable (pair), grid length class, container, order, norm-factor mode, reaction
    class, number of steps, ...) is ROTATED deterministically so that each occurs in every
    run; the seed only changes the values."""
    cases = []
    units = [None] + all_units()
    pairs = [(a, b) for a in SCAN_VARS for b in SCAN_VARS if a != b]
    len2 = LEN2_QUICK if ctx.quick else LEN2_QUICK + LEN2_MORE
    n_pd = ctx.pick(170, 3000)
    j1 = j2 = 0
    for i in range(n_pd):
        dim = 1 if (i // len(units)) % 2 == 0 else 2
        rcls = RXN_CLASSES[i % 3]
        kind = 'nasa' if rcls == 'ChemkinReaction' else ['statmech', 'nasa'][(i // 3) % 2]
        gn = rnd.sample(GAS_NAMES, 2)
        case = {'kind': 'rpd', 'seed': rnd.randrange(1 << 30), 'dim': dim,
                'names': {'R': rnd.choice(REF_NAMES), 'G1': gn[0], 'G2': gn[1]},
                'species': kind, 'rcls': rcls, 'n': 1 + (i % 8),
                'norm_mode': NORM_MODES[i % len(NORM_MODES)],
                'norm_container': NORM_CONTAINERS[(i // len(NORM_MODES)) % 3],
                'dup_rxn': i % 5 == 2, 'ctor': 'from_dict' if (kind == 'nasa' and i % 4 == 1) else 'direct',
                'units': units[i % len(units)], 'slices': 2}
        if dim == 1:
            q = j1 // 4
            case.update({'x1': SCAN_VARS[j1 % 4], 'x2': SCAN_VARS[(j1 + 1) % 4], 'm1': LEN1[j1 % len(LEN1)],
                         'm2': 0, 'f1': GRID_FORMS[q % len(GRID_FORMS)], 'f2': 'list',
                         'o1': ORDERS[(q + q // len(GRID_FORMS)) % 4], 'o2': 'asc'})
            j1 += 1
        else:
            m1, m2 = len2[j2 % len(len2)]
            case.update({'x1': pairs[j2 % 12][0], 'x2': pairs[j2 % 12][1], 'm1': m1, 'm2': m2,
                         'f1': GRID_FORMS[j2 % len(GRID_FORMS)], 'f2': GRID_FORMS[(j2 // 3) % len(GRID_FORMS)],
                         'o1': ORDERS[j2 % 4], 'o2': ORDERS[(j2 // 5) % 4]})
            j2 += 1
        for f, o in (('f1', 'o1'), ('f2', 'o2')):     # arange / range are ascending or descending
            if case[f] in ('arange', 'range') and case[o] in ('shuf', 'dup'):
                case[o] = ['asc', 'desc'][(i // 2) % 2]
        cases.append(case)
    span_units = all_units() + [None]
    for i in range(ctx.pick(410, 8000)):
        steps = 1 + (i % 8)
        mode = (i // 8) % 3
        ts = [True] * steps if mode == 0 else [False] * steps if mode == 1 else \
            [rnd.random() < 0.6 for _ in range(steps)]
        rcls = RXN_CLASSES[i % 3]
        cases.append({'kind': 'rspan', 'seed': rnd.randrange(1 << 30), 'ts': ts, 'rcls': rcls,
                      'gas': i % 3 == 0, 'gas_kw': 'kwargs' if i % 6 == 0 else 'P',
                      'gname': GAS_NAMES[i % len(GAS_NAMES)],
                      'noncontig': steps >= 2 and i % 5 in (1, 2, 3), 'reversed': i % 4 == 1,
                      'holder': ['Reactions', 'PhaseDiagram'][(i // 2) % 2], 'min_span': i % 2 == 0,
                      'units': span_units[i % len(span_units)]})
    return cases


def _expected_classes():
    """Every input class a (non-replay) run must have exercised at least once."""
    us = [str(u) for u in [None] + all_units()]
    lens = ['1', '2', '29', '30', 'mid']
    exp = []
    exp += ['scan1.units:' + u for u in us] + ['scan2.units:' + u for u in us]
    exp += ['pd.n:%d' % k for k in range(1, 9)]
    exp += ['pd.norm:' + m for m in NORM_MODES] + ['pd.norm:negative_present']
    exp += ['pd.normc:' + c for c in NORM_CONTAINERS]
    exp += ['pd.rcls:' + c for c in RXN_CLASSES] + ['pd.ctor:direct', 'pd.ctor:from_dict']
    exp += ['pd.species:statmech', 'pd.species:nasa', 'pd.dup_reaction', 'pd.repeat_call']
    exp += ['scan1.var:' + v for v in SCAN_VARS]
    exp += ['scan2.vars:%s,%s' % (a, b) for a in SCAN_VARS for b in SCAN_VARS if a != b]
    exp += ['scan1.len:' + c for c in lens]
    exp += ['scan2.len1:' + c for c in lens] + ['scan2.len2:' + c for c in lens]
    exp += ['scan1.form:' + f for f in GRID_FORMS + ['dicts']]
    exp += ['scan2.form1:' + f for f in GRID_FORMS + ['dicts']]
    exp += ['scan2.form2:' + f for f in GRID_FORMS + ['dicts']]
    exp += ['scan1.order:' + o for o in ORDERS]
    exp += ['scan2.order1:' + o for o in ORDERS] + ['scan2.order2:' + o for o in ORDERS]
    exp += ['span.units:' + u for u in us[1:]] + ['net.units:' + u for u in us]
    exp += ['netmin.units:' + u for u in us] + ['net.min_single_path']
    exp += ['span.steps:%d' % k for k in range(1, 9)] + ['span.ts:all', 'span.ts:none', 'span.ts:mixed']
    exp += ['span.rcls:' + c for c in RXN_CLASSES]
    exp += ['span.holder:Reactions', 'span.holder:PhaseDiagram', 'span.reversed', 'span.gas:P',
            'span.gas:kwargs']
    # the same Network queried again under other conditions
    exp += ['net.requery:P', 'net.requery:kwargs', 'net.requery:T', 'net.requery:units', 'net.requery:back',
            'netmin.requery']
    return exp


def _signature(case):
    k = case['kind']
    if k == 'one':
        return ['one', case['t']]
    if k == 'two':
        return ['two', case['t'], case['order']]
    if k == 'span':
        return ['span', case['ts'], case['g']]
    if k == 'seq':
        return ['seq', case['steps'], case['form'], case['zero_extra']]
    return [k, case['seed']]


def _nontrivial(case, events):
    """phase diagrams: at least two reactions and two grid points; spans: at least two
    distinct state energies."""
    for e in events:
        if e['ev'] == 'span':
            g = e['G'] if 'G' in e else [x for st in e['steps'] for x in [st['r']] + st['t'] + [st['p']]]
            if len({tuple(x) for x in g}) >= 2:
                return True
        elif e['n'] >= 2 and e['np'] * e.get('nq', 1) >= 2:
            return True
    return False


def _tags(case, ev):
    t = {'kind': case['kind'], 'op': ev.get('ev') if ev else None}
    if ev and ev.get('ev') == 'span':
        t['api'] = ev['api']
    return t


def run(ctx):
    ctx.coverage['rule'] = (
        'a case is one phase diagram (reactions, normalisation factors, scan variables, grids, '
        'units) or one reaction sequence; one/two/span cases are the complete small-integer case '
        'sets emitted by TLC from Extrema.tla (realised with Nasa / electronic StatMech species), '
        'rpd/rspan cases are random real-valued ones (StatMech and Nasa species, scans over T, P '
        'and per-species pressures, 1-8 reactions, 1-30 grid values, signed normalisation '
        'factors; 1-8 steps with/without transition states through Reactions.get_E_span and '
        'Network.get_E_span); non-trivial: a diagram with >= 2 reactions and >= 2 grid points, a '
        'sequence with >= 2 distinct state energies; distinct by table / sequence / seed')
    rnd = random.Random(ctx.seed)
    if ctx.replay_case is not None:
        cases = [ctx.replay_case['case']]
    else:
        # (D) design model; the implementation-shaped axis=1 variant must be rejected.
        # The four TLC runs (three models, case generation) are independent processes.
        import concurrent.futures as cf
        with cf.ThreadPoolExecutor(max_workers=5) as ex:
            f_ok = ex.submit(ctx.model, 'MC_Extrema', 'MC_Extrema' if ctx.quick else 'MC_Extrema_big',
                             workers=8)
            f_bad = [(cfg, inv, ex.submit(ctx.model, 'MC_Extrema', cfg, workers=2, expect_ok=False))
                     for cfg, inv in (('MC_Extrema_axis1', 'StableShape'),
                                      ('MC_Extrema_axis1_values', 'StableIsArgMin'),
                                      ('MC_Extrema_skipreact', 'SpanDefinition'))]
            f_cases = ex.submit(_tlc_cases, ctx, rnd)
            f_ok.result()
            for cfg, inv, f in f_bad:
                bad = f.result()
                if bad.ok or bad.violated != inv:
                    raise core.MachineryError('the implementation-shaped variant should be rejected by %s '
                                              '(%s):\n%s' % (inv, cfg, bad.out[-1500:]))
            tlc_cases = f_cases.result()
        ctx.notes.append('design model rejects a state list that drops the reactant states of later '
                         'steps (SpanDefinition fails for a non-contiguous sequence); it is harmless '
                         'for contiguous chains only (lemma ContiguousSkipHarmless)')
        ctx.notes.append('design model rejects arg-min along the reaction rows (numpy axis=1): '
                         'StableShape fails whenever #reactions != #grid points and StableIsArgMin '
                         'fails because the entries are grid indices, not reaction indices')
        cases = tlc_cases + _random_cases(ctx, rnd)
    results = core.pmap(execute, cases)
    traces = []
    found = []                                   # (clause, case, tags, detail)
    cov = {'scan1': 0, 'scan2': 0, 'span_reactions': 0, 'span_network': 0, 'with_units': 0,
           'slices_compared': 0, 'scans_with_phase_change': 0, 'scans_shape_discriminating': 0,
           'span_highest_before_lowest': 0, 'span_highest_after_lowest': 0,
           'span_noncontiguous': 0, 'span_noncontiguous_later_reactant_extreme': 0,
           'scan2_integer_typed_first_grid': 0, 'scan2_integer_typed_second_grid': 0,
           'scan1_integer_typed_grid': 0,
           'scans_over_per_species_variable': 0,
           'scans_over_per_species_variable_name_ending_in_kwargs_chars': 0,
           'scans_with_exact_tie_at_a_minimum': 0, 'span_network_min': 0,
           'span_highest_is_first_state': 0, 'span_highest_is_last_state': 0,
           'span_lowest_is_first_state': 0, 'span_lowest_is_last_state': 0,
           'span_tied_highest': 0, 'span_tied_lowest': 0}
    classes = {}

    def flat(x):
        return [z for y in x for z in flat(y)] if isinstance(x, list) else [x]

    for tid, (case, (events, mism)) in enumerate(zip(cases, results)):
        ctx.evaluated()
        if _nontrivial(case, events):
            ctx.nontrivial(_signature(case))
        for clause, detail in mism:
            found.append((clause, case, {'kind': case['kind'], 'op': detail.get('op'),
                                         'api': detail.get('api')}, detail))
        traces.append((tid, events))
        for e in events:                       # coverage statistics only (no judgement)
            for c in e.get('cls', ()):
                classes[c] = classes.get(c, 0) + 1
            if e['ev'] == 'span':
                cov['span_' + e['api']] = cov.get('span_' + e['api'], 0) + 1
                gd = e['G'] if 'G' in e else [x for st in e['steps'] for x in [st['r']] + st['t'] + [st['p']]]
                g = [m * 10.0 ** x for m, x in gd]
                if e['api'] == 'reactions' and not e['contig']:
                    cov['span_noncontiguous'] += 1
                    cov['span_noncontiguous_later_reactant_extreme'] += 1 if e['lrx'] else 0
                cov['span_highest_is_first_state'] += 1 if g[0] == max(g) else 0
                cov['span_highest_is_last_state'] += 1 if g[-1] == max(g) else 0
                cov['span_lowest_is_first_state'] += 1 if g[0] == min(g) else 0
                cov['span_lowest_is_last_state'] += 1 if g[-1] == min(g) else 0
                if len(set(g)) > 1:
                    cov['span_tied_highest'] += 1 if g.count(max(g)) > 1 and e['api'] != 'reactions' else 0
                    cov['span_tied_lowest'] += 1 if g.count(min(g)) > 1 and e['api'] != 'reactions' else 0
                if g.index(max(g)) < g.index(min(g)):
                    cov['span_highest_before_lowest'] += 1
                elif g.index(max(g)) > g.index(min(g)):
                    cov['span_highest_after_lowest'] += 1
            else:
                cov[e['ev']] += 1
                for xn, m in ((e.get('x1', ''), e['np']), (e.get('x2', ''), e.get('nq', 0))):
                    if xn.endswith('_kwargs'):
                        cov['scans_over_per_species_variable'] += 1
                        if m >= 2 and xn[:-7][-1:] in KW_CHARS:
                            cov['scans_over_per_species_variable_name_ending_in_kwargs_chars'] += 1
                if e['ev'] == 'scan2':
                    cov['scan2_integer_typed_first_grid'] += 1 if e.get('g1int') else 0
                    cov['scan2_integer_typed_second_grid'] += 1 if e.get('g2int') else 0
                else:
                    cov['scan1_integer_typed_grid'] += 1 if e.get('g1int') else 0
                cov['with_units'] += 1 if e['units'] else 0
                cov['slices_compared'] += 1 if e.get('k', 0) > 0 else 0
                cov['scans_with_phase_change'] += 1 if len(set(flat(e['st']))) > 1 else 0
                cov['scans_shape_discriminating'] += 1 if e['n'] != e['np'] else 0
                if e['ev'] == 'scan1' and e['n'] >= 2 and e['tabshape'] == [e['n'], e['np']]:
                    for j in range(e['np']):
                        col = sorted(m * 10.0 ** x for m, x in (row[j] for row in e['tab']))
                        if col[0] == col[1]:
                            cov['scans_with_exact_tie_at_a_minimum'] += 1
                            break
        if tid % 797 == 0:
            ctx.sample({k: v for k, v in case.items() if k not in ('acc',)})
    ctx.coverage['exercised'] = cov
    ctx.coverage['input_classes'] = dict(sorted(classes.items()))
    if ctx.replay_case is None:
        missing = [c for c in _expected_classes() if not classes.get(c)]
        missing += [k for k, v in cov.items() if v == 0]
        if missing:
            raise core.MachineryError('vacuous run, input classes never exercised: %r' % (missing,))
    fails, stats = core.validate_traces('Trace_Extrema', 'Trace_Extrema', traces)
    ctx.count('traces_validated_against_impl', len(traces))
    ctx.coverage['trace_lines'] = stats['lines']
    by = {}
    for tid, idx, clause in fails:
        ev = results[tid][0][idx]
        key = (tid, clause, ev['ev'], ev.get('api'))
        by.setdefault(key, []).append(idx)
    for (tid, clause, op, api), idxs in sorted(by.items(), key=lambda kv: (kv[0][0], kv[0][1])):
        ev = results[tid][0][idxs[0]]
        det = {'event_indices': idxs[:10], 'first_event': {k: ev[k] for k in ev if k not in ('own',)}}
        found.append((clause, cases[tid], {'kind': cases[tid]['kind'], 'op': op, 'api': api}, det))
    # report round-robin over (clause, kind) so that the first replay files show every clause
    groups = {}
    for v in found:
        groups.setdefault((v[0], v[2]['kind']), []).append(v)
    order = sorted(groups, key=lambda g: (g[1] not in ('rpd', 'rspan'), g))
    while any(groups.values()):
        for g in order:
            if groups[g]:
                ctx.violation(*groups[g].pop(0))
    ctx.assume('table entries, normalisation factors and state energies are compared as 9-digit '
               'decimals: entries agreeing to 9 digits count as tied (either is an acceptable minimum); '
               'EntryMatches holds to 1e-6 relative, SpanDefinition to 1e-7 of the largest state energy')
    ctx.assume('the reference for a table entry is the reaction\'s own get_delta_GoRT called by the '
               'driver with the same conditions; the reference for a span is each reaction\'s own '
               'get_G_state / get_GoRT_state (their correctness is the subject of C08)')
    ctx.assume('under ties of the highest or lowest state energy any (arg-max, arg-min) pair is accepted')


if __name__ == '__main__':
    core.main('C19', 'model_checking', run)
