"""C10 - reference adjustment reproduces the experimental enthalpies it was fitted to.

(D)    spec/References.tla over spec/Lin.tla (exact rational linear algebra): the
       append / extend / pop / fit history of a References object; every list of <= 3
       references over 2 descriptors with entries 0..2 (all rank cases) is reached.
       Invariants in every post-fit state: NormalEquations, Optimal, Reproduces (rows
       independent), KeysAreDescriptors, TrefIsMean, MinNorm (implementation-shaped),
       application clauses Linear / AbsentContributesNothing / TIndependent /
       ReproducesAtTref.  The code refits only on an explicit fit_HoRT_offset();
       MC_References_nostale.cfg (AlwaysFresh) is expected to be rejected.
(S->C) complete behaviours of a small instance (and -simulate behaviours in the
       thorough tier) are stepped through a real References object built from real
       StatMech reference species; after each call keys, T_ref, fitted values and
       (when unique) offsets - projected to small-denominator rationals - must EQUAL
       what TLC computed for the state as the code has it, or for a fresh fit.
(C->S) those runs plus random real-valued histories (1-8 references, 1-5 descriptors,
       elements or another descriptor dictionary, equal / close / spread T_ref, rank
       deficient and over/under-determined sets) are recorded as NDJSON and judged line
       by line by spec/Trace_References.tla.
"""
import json
import math
import random
import warnings
from fractions import Fraction

from harness import core
from harness.core import to_dec, to_dec2

ELEMENTS = ['C', 'H', 'N', 'O', 'Pt']            # sorted; model descriptor k <-> GRID_NAMES[k-1]
GROUPS = ['CH2', 'CH3', 'CO', 'OH', 'ring']
ABSENT = {'elements': ['S', 'Zn'], 'groups': ['aldehyde', 'ester']}   # every non-element descriptor uses 'groups'
GRID_NAMES = ['C', 'H', 'O']
DESCRIPTOR_ATTRS = ['groups', 'bonds', 'my_descriptor']
MAXDEN = 5000


# ----------------------------------------------------------------------------- objects
UNITS = ['kJ/mol', 'eV', 'kcal/mol', 'J/mol']
CTYPES = ['int', 'float', 'npint', 'npfloat']
TTYPES = ['float', 'int', 'npfloat']


def _typed(comp, ctype):
    """The composition dictionary with its counts as int / float / numpy integer / numpy float."""
    import numpy as np
    conv = {'int': lambda v: int(v) if float(v).is_integer() else float(v), 'float': float,
            'npint': lambda v: np.int64(v) if float(v).is_integer() else np.float64(v),
            'npfloat': np.float64}[ctype or 'int']
    return {k: conv(v) for k, v in comp.items()}


def _typedT(T, ttype):
    import numpy as np
    if ttype == 'int' and float(T).is_integer():
        return int(T)
    if ttype == 'npfloat':
        return np.float64(T)
    return float(T)


def _statmech(spec, comp, descriptor, refs=None):
    """A real StatMech species: ground-state electronic energy + harmonic vibrations
    (+ translation for 'gas' species)."""
    from pmutt.statmech import StatMech, elec, vib, trans
    kw = dict(name=spec.get('name') or 'sp', elec_model=elec.GroundStateElec,
              potentialenergy=spec['E'], spin=0.)
    if spec.get('wn'):
        kw.update(vib_model=vib.HarmonicVib, vib_wavenumbers=list(spec['wn']))
    if spec.get('mw'):
        kw.update(trans_model=trans.FreeTrans, n_degrees=3, molecular_weight=spec['mw'])
    comp = _typed(comp, spec.get('ctype'))
    if descriptor == 'elements':
        kw['elements'] = dict(comp)
    if refs is not None:
        kw['references'] = refs
    sp = StatMech(**kw)
    if descriptor != 'elements':
        setattr(sp, descriptor, dict(comp))
    return sp


def _reference(spec, descriptor):
    """A real Reference whose model is a real StatMech species (given as the class plus its
    keyword arguments, or as an instance).  spec['d'] (grid cases): the experimental value is
    placed d below the model value; spec['exp']: given."""
    from pmutt.empirical.references import Reference
    from pmutt.statmech import StatMech, elec, vib, trans
    mkw = dict(elec_model=elec.GroundStateElec, potentialenergy=spec['E'], spin=0.)
    if spec.get('wn'):
        mkw.update(vib_model=vib.HarmonicVib, vib_wavenumbers=list(spec['wn']))
    if spec.get('mw'):
        mkw.update(trans_model=trans.FreeTrans, n_degrees=3, molecular_weight=spec['mw'])
    comp = _typed(spec['comp'], spec.get('ctype'))
    kw = dict(name=spec.get('name'), T_ref=_typedT(spec['T'], spec.get('Ttype')), HoRT_ref=0.,
              phase=spec.get('phase'))
    if descriptor == 'elements':
        kw['elements'] = dict(comp)
    elif spec.get('phase'):
        kw['elements'] = {'H': 1}                   # an elements dict besides the descriptor used
    if spec.get('form') == 'instance':
        kw['model'] = StatMech(name=spec.get('name'), **mkw)
    else:
        kw['model'] = StatMech
        kw.update(mkw)
    ref = Reference(**kw)
    if descriptor != 'elements':
        setattr(ref, descriptor, dict(comp))
    ref._c10_uid = spec.get('uid')
    if 'exp' in spec:
        ref.HoRT_ref = float(spec['exp'])
    else:
        ref.HoRT_ref = float(ref.model.get_HoRT(T=ref.T_ref)) - float(spec['d'])
    return ref


def _frac(v):
    return Fraction(float(v)).limit_denominator(MAXDEN)


def _pair(fr):
    return [fr.numerator, fr.denominator]


# ----------------------------------------------------------------------------- events
class _NonFinite(Exception):
    pass


def _d(v):
    if not core.finite(v):
        raise _NonFinite()
    return to_dec(v)


def _d2(v):
    if not core.finite(v):
        raise _NonFinite()
    return to_dec2(v)


def _state_event(ev, R, mirror, descriptor, mobjs, by_identity=True):
    """Projection of the References object after a call.  `mirror` is the driver's own list
    of the reference specs that should now be in the object, `mobjs` the Reference objects
    built from them (names may be None or repeated, so the list is compared by identity;
    after a reload by name and data)."""
    mism = []
    desc = sorted({k for s in mirror for k in s['comp']})
    A = [[int(s['comp'].get(k, 0)) for k in desc] for s in mirror]
    held = list(R) if R.references is not None else []
    if by_identity:
        same = len(held) == len(mobjs) and all(a is b for a, b in zip(held, mobjs))
    else:
        same = ([(r.name, float(r.T_ref), float(r.HoRT_ref)) for r in held]
                == [(r.name, float(r.T_ref), float(r.HoRT_ref)) for r in mobjs])
    if not same:
        mism.append({'clause': 'ListEdit', 'expected': [s['uid'] for s in mirror],
                     'got': [getattr(r, '_c10_uid', r.name) for r in held]})
    if held:
        real_desc = list(R.get_descriptors())
        real_A = [[float(v) for v in row] for row in R.get_descriptors_matrix().tolist()]
        if real_desc != desc or real_A != [[float(v) for v in row] for row in A]:
            mism.append({'clause': 'DescriptorMatrix', 'expected': [desc, A], 'got': [real_desc, real_A]})
    keys = sorted(R.offset.keys())
    e = {'ev': ev, 'A': A, 'desc': desc, 'keys': keys,
         'names': ['' if r.name is None else str(r.name) for r in held],
         'off': [_d(R.offset[k]) for k in keys], 'Tref': _d(R.T_ref),
         # each reference's OWN model enthalpy, evaluated here directly from its species
         'dft': [_d(r.model.get_HoRT(T=r.T_ref)) for r in held],
         'exp': [_d(r.HoRT_ref) for r in held], 'Ti': [_d(r.T_ref) for r in held],
         # off . x_i as the object evaluates it (double precision witness of the fitted values)
         'fitv': [_d(-R.get_HoRT(descriptors=s['comp'])) for s in mirror]}
    return e, mism


def _vals(sp, T, on, units):
    kw = {} if on is None else {'use_references': on}
    return {'H': sp.get_HoRT(T=T, **kw), 'G': sp.get_GoRT(T=T, **kw), 'S': sp.get_SoR(T=T, **kw),
            'Cp': sp.get_CpoR(T=T, **kw), 'Cv': sp.get_CvoR(T=T, **kw),
            'HkJ': sp.get_H(T=T, units=units, **kw), 'GkJ': sp.get_G(T=T, units=units, **kw)}


def _empirical(tgt, kind):
    """A NASA / Shomate species fitted to the referenced StatMech species; value at its anchor."""
    from pmutt.empirical.nasa import Nasa
    from pmutt.empirical.shomate import Shomate
    cls = Nasa if kind == 'nasa' else Shomate
    emp = cls.from_model(model=tgt['on'], name='emp', T_low=200., T_high=1500., elements={'H': 1})
    T0 = 298.15
    return {'has': True, 'kind': kind, 'H': _d(emp.get_HoRT(T=T0)), 'Hon': _d(tgt['on'].get_HoRT(T=T0)),
            'Hoff': _d(tgt['on'].get_HoRT(T=T0, use_references=False))}


SE_COUNT = [0]


def _eval_event(R, tgt, Ts, units, emp=None):
    from pmutt import constants as c
    keys = sorted(R.offset.keys())
    comp = tgt['comp']
    tcomp = getattr(tgt['on'], R.descriptor)           # the dictionary the species really carries
    e = {'ev': 'eval', 'keys': keys, 'x': [core.to_dec_exact(float(comp.get(k, 0))) for k in keys],
         'absent': sorted(k for k in comp if k not in R.offset and comp[k]),
         'T': [_d(T) for T in Ts], 'R': _d(c.R('%s/K' % units)), 'units': units,
         'Hon': [], 'Hoff': [], 'Gon': [], 'Goff': [], 'HkJon': [], 'HkJoff': [], 'GkJon': [], 'GkJoff': [],
         'S': [], 'Cp': [], 'Cv': [], 'H2': [], 'G2': [], 'GSe': [], 'Hdef': [], 'Hrep': [], 'ver': [], 'Hks': [], 'Gks': [],
         'Hdir': [], 'Hdir2': [], 'Gdir2': [],
         'zeros': [_d2(v) for v in (R.get_SoR(), R.get_CpoR(), R.get_CvoR(), R.get_UoRT(),
                                    R.get_AoRT(descriptors=tcomp, T=Ts[0]))],
         'HnoT': _d(R.get_HoRT(descriptors=tcomp)),
         'emp': emp or {'has': False}}
    for T in Ts:
        on, off = _vals(tgt['on'], T, True, units), _vals(tgt['on'], T, False, units)
        none = _vals(tgt['none'], T, None, units)
        e['Hon'].append(_d(on['H']))
        e['Hoff'].append(_d(off['H']))
        e['Gon'].append(_d(on['G']))
        e['Goff'].append(_d(off['G']))
        e['HkJon'].append(_d(on['HkJ']))
        e['HkJoff'].append(_d(off['HkJ']))
        e['GkJon'].append(_d(on['GkJ']))
        e['GkJoff'].append(_d(off['GkJ']))
        for q, key in (('S', 'S'), ('Cp', 'Cp'), ('Cv', 'Cv'), ('H', 'H2'), ('G', 'G2')):
            e[key].append([_d2(on[q]), _d2(off[q]), _d2(none[q])])
        # G with the entropy of the elements subtracted (S_elements=True) is switched off the same way (seed C10-14:
        # the option combination S_elements=True, use_references=False); where the species' elements have no
        # tabulated entropy the plain G stands in
        try:
            gse = [tgt['on'].get_GoRT(T=T, S_elements=True, use_references=True),
                   tgt['on'].get_GoRT(T=T, S_elements=True, use_references=False),
                   tgt['none'].get_GoRT(T=T, S_elements=True)]
            SE_COUNT[0] += 1
        except Exception:
            gse = [on['G'], off['G'], none['G']]
        e['GSe'].append([_d2(v) for v in gse])
        e['Hdef'].append(_d2(tgt['on'].get_HoRT(T=T)))                       # use_references omitted
        e['Hrep'].append(_d2(tgt['on'].get_HoRT(T=T, use_references=True)))  # second call
        e['ver'].append(_d2(tgt['on'].get_HoRT(T=T, verbose=True)[5]))
        # T given per species ('<species name>_kwargs'), alone and with a different global T
        skw = {'%s_kwargs' % tgt['on'].name: {'T': T}}
        other = Ts[1] if T is Ts[0] else Ts[0]
        e['Hks'].append([_d2(tgt['on'].get_HoRT(**skw)), _d2(tgt['on'].get_HoRT(T=other, **skw))])
        e['Gks'].append([_d2(tgt['on'].get_GoRT(**skw)), _d2(tgt['on'].get_GoRT(T=other, **skw))])
        hdir = R.get_HoRT(descriptors=tcomp, T=T)
        e['Hdir'].append(_d(hdir))
        e['Hdir2'].append(_d2(hdir))
        e['Gdir2'].append(_d2(R.get_GoRT(descriptors=tcomp, T=T)))
    return e


def _linear_event(lin, T):
    def pair(sp):
        return [_d(sp.get_HoRT(T=T)), _d(sp.get_HoRT(T=T, use_references=False))]
    return {'ev': 'linear', 'a': lin['a'], 'b': lin['b'], 'T': _d(T),
            'Hx': pair(lin['x']), 'Hy': pair(lin['y']), 'Hz': pair(lin['z'])}


def _repro_events(R, mirror, descriptor):
    evs = []
    for i, (r, s) in enumerate(zip(list(R), mirror)):
        sp = _statmech(s, s['comp'], descriptor, refs=R)
        evs.append({'ev': 'repro', 'i': i + 1, 'Ti': _d(r.T_ref), 'exp': _d(r.HoRT_ref),
                    'Hon': _d(sp.get_HoRT(T=r.T_ref)),
                    'Hoff': _d(sp.get_HoRT(T=r.T_ref, use_references=False))})
    return evs


# ----------------------------------------------------------------------------- S->C
def _projection(R, mirror):
    keys = sorted(R.offset.keys())
    return {'keys': keys, 'off': [_pair(_frac(R.offset[k])) for k in keys],
            'tref': _pair(_frac(R.T_ref)),
            # off . x_i for every current reference, through the public application call
            'fitv': [_pair(_frac(-R.get_HoRT(descriptors=s['comp']))) for s in mirror]}


def _matches(proj, snap, names):
    if proj['keys'] != [names[k - 1] for k in snap['keys']]:
        return False
    if proj['tref'] != list(snap['tref']) or proj['fitv'] != [list(v) for v in snap['fitv']]:
        return False
    return (not snap['unique']) or proj['off'] == [list(v) for v in snap['off']]


# ----------------------------------------------------------------------------- one history
def execute(case):
    """Run one history through a real References object.  Returns (events, mismatches)."""
    import json as _json
    from pmutt.empirical.references import References
    from pmutt.io.json import pmuttEncoder, json_to_pmutt
    descriptor = case['descriptor']
    units = case.get('units', 'kJ/mol')
    events, mism = [], []
    R = None
    mirror = []
    mobjs = []
    targets = []
    lin = None
    Ts = [_typedT(T, case.get('Ttype')) for T in case['T']]
    by_identity = True

    def species():
        """(re)build the species that share the References object for the rest of the history"""
        tg = [{'comp': t['comp'], 'on': _statmech(t, t['comp'], descriptor, refs=R),
               'none': _statmech(t, t['comp'], descriptor)} for t in case['targets']]
        ln = None
        if case.get('lin'):
            c = case['lin']
            ln = {'a': c['a'], 'b': c['b']}
            for nm in ('x', 'y', 'z'):
                ln[nm] = _statmech(c['model'], c[nm], descriptor, refs=R)
        return tg, ln

    with warnings.catch_warnings():
        warnings.simplefilter('ignore')
        for k, op in enumerate(case['ops']):
            act = op['act']
            try:
                if act == 'construct':
                    mirror = list(op['refs'])
                    mobjs = [_reference(s, descriptor) for s in mirror]
                    R = References(references=list(mobjs), descriptor=descriptor)
                    targets, lin = species()
                elif act == 'given':                    # offsets passed in: nothing is fitted
                    mirror = list(op.get('refs', []))
                    mobjs = [_reference(s, descriptor) for s in mirror]
                    R = References(offset=dict(op['offset']), T_ref=op['Tref'], descriptor=descriptor,
                                   references=list(mobjs) if mobjs else None)
                    targets, lin = species()
                elif act == 'append':
                    new_ref = _reference(op['refs'][0], descriptor)
                    mirror.append(op['refs'][0])
                    mobjs.append(new_ref)
                    R.append(new_ref)
                elif act == 'extend':
                    new_refs = [_reference(s, descriptor) for s in op['refs']]
                    mirror.extend(op['refs'])
                    mobjs.extend(new_refs)
                    R.extend(new_refs if op.get('as', 'list') == 'list' else tuple(new_refs))
                elif act == 'insert':
                    new_ref = _reference(op['refs'][0], descriptor)
                    mirror.insert(op['i'], op['refs'][0])
                    mobjs.insert(op['i'], new_ref)
                    R.insert(op['i'], new_ref)
                elif act == 'setitem':
                    new_ref = _reference(op['refs'][0], descriptor)
                    mirror[op['i']] = op['refs'][0]
                    mobjs[op['i']] = new_ref
                    R[op['i']] = new_ref
                elif act == 'pop':
                    if op.get('default'):
                        mirror.pop()
                        mobjs.pop()
                        R.pop()
                    else:
                        mirror.pop(op['i'])
                        mobjs.pop(op['i'])
                        R.pop(op['i'])
                elif act == 'remove':
                    obj = mobjs[op['i']]
                    mirror.pop(op['i'])
                    mobjs.pop(op['i'])
                    R.remove(obj)
                elif act == 'clear':
                    R.clear_offset()
                elif act == 'reload':
                    if op.get('via') == 'json':
                        R = _json.loads(_json.dumps(R, cls=pmuttEncoder), object_hook=json_to_pmutt)
                    else:
                        R = References.from_dict(R.to_dict())
                    # new objects: compared with the old ones by name and data, then taken as the list
                    if ([(r.name, float(r.T_ref), float(r.HoRT_ref)) for r in R]
                            != [(r.name, float(r.T_ref), float(r.HoRT_ref)) for r in mobjs]):
                        mism.append({'clause': 'ListEdit', 'step': k, 'act': act,
                                     'expected': [s_['uid'] for s_ in mirror], 'got': [r.name for r in R]})
                    mobjs = list(R)
                    if descriptor != 'elements':        # an attribute set by the user is not serialised
                        for r, s in zip(R, mirror):
                            setattr(r, descriptor, _typed(s['comp'], s.get('ctype')))
                    targets, lin = species()
                elif act == 'fit':
                    R.fit_HoRT_offset()
                else:
                    raise core.MachineryError('unknown op %r' % (op,))
            except core.MachineryError:
                raise
            except Exception as ex:               # the library raised on a valid call: history ends here
                mism.append({'clause': 'Raises', 'step': k, 'act': act,
                             'raised': '%s: %s' % (type(ex).__name__, ex)})
                break
            try:
                ev, mm = _state_event(act, R, mirror, descriptor, mobjs, by_identity)
                for m in mm:
                    m['step'] = k
                    m['act'] = act
                mism.extend(mm)
                if act == 'given':
                    gk = sorted(op['offset'])
                    ev.update(gkeys=gk, goff=[_d(op['offset'][k_]) for k_ in gk], gTref=_d(op['Tref']))
                events.append(ev)
                if 'expect' in op:
                    proj = _projection(R, mirror)
                    exp = op['expect']
                    if not (_matches(proj, exp['cur'], case['names']) or
                            (act != 'given' and _matches(proj, exp['fresh'], case['names']))):
                        mism.append({'clause': 'ReplayState', 'step': k, 'act': act, 'got': proj,
                                     'expected_as_code': exp['cur'], 'expected_fresh': exp['fresh']})
                for j, t in enumerate(targets):
                    emp = None
                    if j == 0 and case.get('emp') and act in ('construct', 'fit', 'given'):
                        emp = _empirical(t, case['emp'])
                    events.append(_eval_event(R, t, Ts, units, emp))
                if lin is not None:
                    events.append(_linear_event(lin, Ts[0]))
                if act in ('construct', 'fit'):
                    events.extend(_repro_events(R, mirror, descriptor))
            except _NonFinite:
                events.append({'ev': 'nonfinite', 'step': k})
    return events, mism


def _safe_execute(case):
    try:
        return execute(case)
    except core.MachineryError:
        raise
    except Exception as ex:                       # the library raised on a valid history
        return [], [{'clause': 'Raises', 'raised': '%s: %s' % (type(ex).__name__, ex)}]


# ----------------------------------------------------------------------------- cases
def _grid_refspec(r, idx, rnd):
    comp = {GRID_NAMES[j]: int(v) for j, v in enumerate(r['x']) if v}
    return {'uid': 'r%d' % idx, 'name': None if not r.get('nm') else 'sp%d' % r['nm'], 'comp': comp, 'E': -2.0 - 1.5 * sum(r['x']) - 0.25 * idx,
            'wn': [1200.0 + 100.0 * idx, 3000.0], 'T': float(r['t']), 'd': int(r['d'])}


def _beh_to_case(h, cid, rnd):
    ops = []
    count = 0
    nd = len(h[0]['arg'][0]['x'])
    names = GRID_NAMES[:nd]
    for rec in h:
        op = {'act': rec['act'], 'expect': {'cur': rec['cur'], 'fresh': rec['fresh']},
              'isfresh': rec['isfresh'], 'det': rec['det'], 'n': rec['n']}
        if rec['act'] in ('construct', 'append', 'extend', 'given'):
            op['refs'] = []
            for r in rec['arg']:
                op['refs'].append(_grid_refspec(r, count, rnd))
                count += 1
            if rec['act'] == 'extend':
                op['as'] = rnd.choice(['list', 'tuple'])
            if rec['act'] == 'given':               # the offsets TLC chose, passed to the constructor
                cur = rec['cur']
                op['offset'] = {names[k - 1]: v[0] / v[1] for k, v in zip(cur['keys'], cur['off'])}
                op['Tref'] = cur['tref'][0] / cur['tref'][1]
        elif rec['act'] in ('insert', 'setitem'):
            op['refs'] = [_grid_refspec(rec['arg'][0], count, rnd)]
            op['i'] = rec['arg'][1]
            count += 1
        elif rec['act'] == 'pop':
            op['i'] = rec['arg'][0]
            op['default'] = bool(rec['arg'][1]) and rnd.random() < 0.5
        elif rec['act'] == 'remove':
            op['i'] = rec['arg'][0]
        elif rec['act'] == 'reload':
            op['via'] = rnd.choice(['dict', 'json'])
        ops.append(op)
    form = rnd.choice(['class', 'instance'])
    for o in ops:
        for sp in o.get('refs', []):
            sp['form'] = form
    tg = {'comp': {names[0]: 1, names[-1]: 2, 'S': 1}, 'E': -7.5, 'wn': [900.0, 1800.0]}
    lin = {'a': 2, 'b': 1, 'model': {'E': -4.0, 'wn': [1500.0]},
           'x': {names[0]: 1}, 'y': {names[-1]: 1, 'Zn': 1},
           'z': dict([(names[0], 2), (names[-1], 1), ('Zn', 1)]) if nd > 1 else {names[0]: 3, 'Zn': 1}}
    return {'cid': cid, 'kind': 'grid', 'descriptor': 'elements', 'names': names, 'ops': ops,
            'targets': [tg], 'lin': lin, 'T': [250.0, 800.0], 'units': rnd.choice(UNITS)}


def _rand_comp(rnd, names, dens=0.6, hi=4):
    while True:
        comp = {n: rnd.randint(1, hi) for n in names if rnd.random() < dens}
        if comp:
            if rnd.random() < 0.05:                 # a descriptor listed with count 0
                comp.setdefault(rnd.choice(names), 0)
            return comp


def _assign_names(rnd, ops):
    """Reference names: the default None for all, two names shared by all, a mix of None /
    repeated / unique names, or unique names."""
    mode = rnd.choice(['none', 'dup', 'mixed', 'mixed', 'unique'])
    for o in ops:
        for sp in o.get('refs', []):
            if mode == 'none':
                sp['name'] = None
            elif mode == 'dup':
                sp['name'] = rnd.choice(['H2O', 'ref'])
            elif mode == 'mixed':
                sp['name'] = rnd.choice([None, None, 'H2O', sp['uid']])
            else:
                sp['name'] = sp['uid']
    return mode


def _finish_case(rnd, cid, descriptor, names, ops, shape, tmode, T0):
    naming = _assign_names(rnd, ops)
    absent = ABSENT.get(descriptor, ABSENT['groups'])
    # forms of the reference species: composition counts as int / float / numpy scalars, model as a
    # class + keyword arguments or as an instance, phase, T_ref as int where it is a whole number
    form = rnd.choice(['class', 'instance'])
    json_ok = True
    for o in ops:
        for sp in o.get('refs', []):
            sp['ctype'] = rnd.choice(CTYPES)
            sp['form'] = form
            sp['phase'] = rnd.choice([None, None, 'G', 'S'])
            sp['Ttype'] = rnd.choice(TTYPES)
            json_ok = json_ok and sp['ctype'] in ('int', 'float')
    for o in ops:
        if o['act'] == 'reload':
            o['via'] = rnd.choice(['dict', 'json']) if json_ok else 'dict'   # numpy counts in JSON: C11
    targets = []
    for i in range(2):
        kind = rnd.choice(['int', 'int', 'int', 'fractional', 'empty', 'all_absent'])
        if kind == 'empty':
            comp = {}
        elif kind == 'all_absent':
            comp = {a: rnd.randint(1, 3) for a in absent}
        else:
            comp = _rand_comp(rnd, names, dens=0.7)
            if kind == 'fractional':                # e.g. per-site or averaged compositions
                comp = {k: v * rnd.choice([0.5, 0.25, 1.5, 1.0]) for k, v in comp.items()}
            if rnd.random() < 0.4:
                comp[rnd.choice(absent)] = rnd.randint(1, 3)
        targets.append({'comp': comp, 'E': rnd.uniform(-40.0, -1.0), 'ctype': rnd.choice(CTYPES),
                        'tkind': kind,
                        'wn': [rnd.uniform(150.0, 3900.0) for _ in range(rnd.randint(0 if i else 1, 4))]})
    x = _rand_comp(rnd, names, dens=0.6, hi=3)
    y = _rand_comp(rnd, names + absent[:1], dens=0.6, hi=3)
    a, b = rnd.randint(1, 3), rnd.randint(1, 3)
    z = {}
    for kx, v in x.items():
        z[kx] = z.get(kx, 0) + a * v
    for ky, v in y.items():
        z[ky] = z.get(ky, 0) + b * v
    lin = {'a': a, 'b': b, 'model': {'E': rnd.uniform(-20.0, -1.0), 'wn': [rnd.uniform(300.0, 3000.0)]},
           'x': x, 'y': y, 'z': z}
    # any T: the reference temperature itself, both ends of 10 .. 5000 K, whole numbers (also passed as
    # int), anything in between
    T1 = rnd.choice([T0, T0, 10.0, 5000.0, float(rnd.randint(50, 3000)), rnd.uniform(10.0, 5000.0)])
    T2 = rnd.choice([float(rnd.randint(50, 3000)), rnd.uniform(10.0, 5000.0), rnd.uniform(100.0, 2000.0)])
    return {'cid': cid, 'kind': 'real', 'descriptor': descriptor, 'names': names, 'ops': ops,
            'targets': targets, 'lin': lin, 'T': [T1, T2], 'shape': shape, 'tmode': tmode,
            'naming': naming, 'Ttype': rnd.choice(TTYPES), 'units': rnd.choice(UNITS),
            'emp': rnd.choice([None, None, 'nasa', 'shomate']), 'form': form}


def _refspec(rnd, i, comp, T, exp=None):
    spec = {'uid': 'ref%d' % i, 'name': 'ref%d' % i, 'comp': comp, 'E': rnd.uniform(-40.0, -1.0),
            'wn': [rnd.uniform(150.0, 3900.0) for _ in range(rnd.randint(0, 4))],
            'T': T, 'exp': rnd.uniform(-400.0, 150.0) if exp is None else exp}
    if rnd.random() < 0.3:
        spec['mw'] = rnd.uniform(2.0, 120.0)
    return spec


def _square_singular_case(rnd, cid, descriptor, pool, rows=None, how=None):
    """As many references as descriptors, one of them an integer combination of two others (the
    3 x 3 ... 5 x 5 composition matrix has rank n - 1; entries up to 8+): e.g. C2H6, H2CO and
    C3H8O = C2H6 + H2CO over C, H, O.  Reached by constructing with all of them, or by fitting the
    independent ones, adding the dependent one and refitting."""
    if rows is None:
        n = rnd.choice([2, 3, 3, 4, 4, 5])
        names = sorted(rnd.sample(pool, n))
        while True:
            rows = [[rnd.choice([0, 0, 1, 1, 2, 3, 4]) for _ in range(n)] for _ in range(n - 1)]
            if n == 2:
                rows.append([2 * v for v in rows[0]])
            else:
                i, j = rnd.sample(range(n - 1), 2)
                a, b = rnd.randint(1, 2), rnd.randint(1, 2)
                rows.append([a * u + b * v for u, v in zip(rows[i], rows[j])])
            if all(any(r) for r in rows) and all(any(r[c] for r in rows) for c in range(n)):
                break
    else:
        n = len(rows)
        names = sorted(pool[:n]) if descriptor != 'elements' else ['C', 'H', 'O'][:n]
    T0 = rnd.choice([298.15, 298.0, 300.0, 500.0])
    refs = [_refspec(rnd, i, {names[c]: v for c, v in enumerate(r) if v}, T0) for i, r in enumerate(rows)]
    how = how or rnd.choice(['construct', 'append', 'insert', 'extend'])
    if how == 'construct':
        order = list(refs)
        rnd.shuffle(order)
        ops = [{'act': 'construct', 'refs': order}]
    elif how == 'append':
        ops = [{'act': 'construct', 'refs': refs[:-1]}, {'act': 'append', 'refs': [refs[-1]]}, {'act': 'fit'}]
    elif how == 'insert':
        ops = [{'act': 'construct', 'refs': refs[:-1]},
               {'act': 'insert', 'i': rnd.randrange(0, n - 1), 'refs': [refs[-1]]}, {'act': 'fit'}]
    else:
        k = rnd.randint(1, n - 1)
        ops = [{'act': 'construct', 'refs': refs[:k]}, {'act': 'extend', 'refs': refs[k:]}, {'act': 'fit'}]
    return _finish_case(rnd, cid, descriptor, names, ops, 'square_singular', 'equal', T0)


def _gap_cases(rnd, limit):
    """Deterministic family (harness/lib_c10_gap.json, built once by enumeration + filter): reference
    sets with repeated rows (and rows that are sums of others), counts up to 8, 2-5 descriptors, whose
    composition matrix has its round-off singular value between eps*s_max and eps*max(M,N)*s_max - the
    band where the documented rank decision of the least-squares solver (rcond=None) matters.  The
    band is re-checked here with this machine's LAPACK (with a margin on both sides)."""
    import os
    import numpy as np
    with open(os.path.join(os.path.dirname(os.path.dirname(os.path.abspath(__file__))), 'lib_c10_gap.json')) as f:
        mats = json.load(f)
    eps = np.finfo(float).eps
    keep = []
    for rows in mats:
        A = np.array(rows, float)
        sv = np.linalg.svd(A, compute_uv=False)
        r = np.linalg.matrix_rank(A)
        if r < len(sv) and 1.05 * eps < sv[r] / sv[0] < 0.9 * eps * max(A.shape):
            keep.append(rows)
    rnd.shuffle(keep)
    cases = []
    for k, rows in enumerate(keep[:limit]):
        n = len(rows[0])
        names = sorted(rnd.sample(ELEMENTS, n))
        T0 = rnd.choice([298.15, 300.0, 500.0])
        refs = [_refspec(rnd, i, {names[c]: v for c, v in enumerate(r) if v}, T0) for i, r in enumerate(rows)]
        how = rnd.choice(['construct', 'append', 'append', 'extend'])
        if how == 'construct' or len(refs) < 2:
            ops = [{'act': 'construct', 'refs': refs}]
        elif how == 'append':                        # the repeated entry arrives later: append and refit
            ops = [{'act': 'construct', 'refs': refs[:-1]}, {'act': 'append', 'refs': [refs[-1]]}, {'act': 'fit'}]
        else:
            ops = [{'act': 'construct', 'refs': refs[:1]}, {'act': 'extend', 'refs': refs[1:], 'as': 'list'},
                   {'act': 'fit'}]
        cases.append(_finish_case(rnd, 'q%d' % k, 'elements', names, ops, 'near_cutoff', 'equal', T0))
    return cases


def _random_case(rnd, cid):
    # the descriptor dictionary: elements, or any other attribute of the reference / species objects
    descriptor = 'elements' if rnd.random() < 0.6 else rnd.choice(DESCRIPTOR_ATTRS)
    pool = ELEMENTS if descriptor == 'elements' else GROUPS
    nd = rnd.choice([1, 2, 3, 4, 5, 5])
    names = sorted(rnd.sample(pool, nd))
    nref = rnd.choice([1, 2, 3, 4, 5, 6, 7, 8, 8])
    shape = rnd.choice(['free', 'free', 'square', 'dependent_rows', 'tied_columns', 'under',
                        'square_singular', 'isomers'])
    if shape == 'square_singular':
        return _square_singular_case(rnd, cid, descriptor, pool)
    if shape == 'square':
        nref = nd
    elif shape == 'under':
        nref = rnd.randint(1, nd)
    comps = []
    for i in range(nref):
        if shape == 'isomers' and comps and rnd.random() < 0.6:
            comps.append(dict(rnd.choice(comps)))        # same composition, different data (isomer)
        elif shape == 'dependent_rows' and comps and rnd.random() < 0.5:
            base = rnd.choice(comps)
            mult = rnd.choice([1, 2])
            comps.append({k: v * mult for k, v in base.items()})
        else:
            comps.append(_rand_comp(rnd, names, hi=3 if shape == 'dependent_rows' else 4))
    if nd < 5 and rnd.random() < 0.1:
        # a descriptor that is only ever listed with count 0 (an all-zero column of the matrix)
        extra = rnd.choice([n for n in pool if n not in names])
        comps[0][extra] = 0
        names = sorted(names + [extra])
    if shape == 'tied_columns' and nd >= 2:
        a, b = names[0], names[1]                    # two descriptors that always come together
        for cmp_ in comps:
            if a in cmp_ or b in cmp_:
                v = cmp_.get(a, cmp_.get(b))
                cmp_[a] = v
                cmp_[b] = 2 * v
    # reference temperatures: equal; equal to 2e-7; just inside / just outside the tolerance below which
    # the library treats them as equal (numpy.isclose: 1e-5 relative); spread by a kelvin or so
    tmode = rnd.choice(['equal', 'equal', 'equal', 'close', 'edge_in', 'edge_out', 'spread'])
    T0 = rnd.choice([298.15, 298.15, 298.0, 300.0, 273.15, 500.0])
    refs = []
    for i, comp in enumerate(comps):
        if tmode == 'equal':
            T = T0
        elif tmode == 'close':
            T = T0 * (1.0 + rnd.uniform(-2e-7, 2e-7))
        elif tmode == 'edge_in':
            T = T0 if i == 0 else T0 * (1.0 + rnd.choice([-1, 1]) * 0.9e-5)
        elif tmode == 'edge_out':
            T = T0 if i == 0 else T0 * (1.0 + rnd.choice([-1, 1]) * 1.2e-5)
        else:
            T = T0 + rnd.uniform(-1.5, 1.5)
        spec = {'uid': 'ref%d' % i, 'name': 'ref%d' % i, 'comp': comp, 'E': rnd.uniform(-40.0, -1.0),
                'wn': [rnd.uniform(150.0, 3900.0) for _ in range(rnd.randint(0, 4))],
                'T': T, 'exp': rnd.uniform(-400.0, 150.0)}
        if rnd.random() < 0.3:
            spec['mw'] = rnd.uniform(2.0, 120.0)
        refs.append(spec)
    k0 = rnd.randint(1, nref)
    start = rnd.random()
    if start < 0.12:
        # offsets passed to the constructor (nothing fitted), with or without references
        given = {n: rnd.choice([rnd.uniform(-200.0, 50.0), float(rnd.randint(-50, 50)), 0.0]) for n in names
                 if rnd.random() < 0.8} or {names[0]: -12.5}
        with_refs = rnd.random() < 0.7
        ops = [{'act': 'given', 'offset': given, 'Tref': rnd.choice([298.15, 400.0, T0, 1000.0]),
                'refs': refs[:k0] if with_refs else []}]
        if not with_refs:
            if rnd.random() < 0.3:
                ops.append({'act': 'clear'})
            return _finish_case(rnd, cid, descriptor, names, ops, shape, tmode, T0)
    else:
        ops = [{'act': 'construct', 'refs': refs[:k0]}]
    rest = refs[k0:]
    cur = k0
    for _ in range(rnd.randint(0, 5)):
        r = rnd.random()
        if rest and r < 0.25:
            ops.append({'act': 'append', 'refs': [rest.pop(0)]})
            cur += 1
        elif rest and r < 0.32:
            ops.append({'act': 'insert', 'i': rnd.randrange(-cur, cur + 1), 'refs': [rest.pop(0)]})
            cur += 1
        elif rest and r < 0.40:
            n = rnd.randint(1, len(rest))
            ops.append({'act': 'extend', 'refs': rest[:n], 'as': rnd.choice(['list', 'tuple'])})
            del rest[:n]
            cur += n
        elif rest and r < 0.47:
            ops.append({'act': 'setitem', 'i': rnd.randrange(-cur, cur), 'refs': [rest.pop(0)]})
        elif cur >= 2 and r < 0.57:
            if rnd.random() < 0.4:
                ops.append({'act': 'pop', 'default': True})
            else:
                ops.append({'act': 'pop', 'i': rnd.randrange(-cur, cur)})
            cur -= 1
        elif cur >= 2 and r < 0.65:
            ops.append({'act': 'remove', 'i': rnd.randrange(0, cur)})
            cur -= 1
        elif r < 0.73:
            ops.append({'act': 'clear'})
        elif r < 0.82:
            ops.append({'act': 'reload'})
        else:
            ops.append({'act': 'fit'})
    if rest:
        ops.append({'act': 'extend', 'refs': rest, 'as': 'list'})
    if ops[-1]['act'] != 'fit':
        ops.append({'act': 'fit'})
    return _finish_case(rnd, cid, descriptor, names, ops, shape, tmode, T0)


def _signature(case):
    return json.dumps([[o['act'], [(sorted(s['comp'].items()), s.get('d'), s['T']) for s in o.get('refs', [])],
                        o.get('i'), o.get('default')] for o in case['ops']], default=str)


def _tlc_behaviours(cfg, timeout=900, extra=()):
    r = core.run_tlc('MC_References', cfg, workers=1, timeout=timeout, extra=list(extra))
    behs = [core.parse_tla(p)[1] for p in r.prints() if core.tagged(p, 'BEH')]
    if not behs:
        raise core.MachineryError('behaviour generation (%s) produced nothing:\n%s' % (cfg, r.out[-2000:]))
    if not extra and not r.ok:
        raise core.MachineryError('behaviour generation (%s) failed:\n%s' % (cfg, r.out[-2000:]))
    return behs


def run(ctx):
    ctx.coverage['rule'] = (
        'a case is one history of a References object (construct with fit or with offset= given, then append / '
        'extend / insert / __setitem__ / pop / remove / clear_offset / to_dict-from_dict reload / fit_HoRT_offset calls) together with target species evaluated through it after every call; grid '
        'cases are complete TLC behaviours of References.tla (state equality on rational projections after '
        'each call), real cases are random real-valued histories (1-8 references over 1-5 descriptors, '
        'elements or groups, equal / close / spread T_ref, dependent rows, tied columns, under- and '
        'over-determined, square rank-deficient with a row that is an integer combination of two others; '
        'reference names None / repeated / unique); every case is judged line by line by Trace_References.tla; non-trivial = at '
        'least one fit of >= 2 references or one edit; distinct by the operation sequence')
    if ctx.replay_case is not None:
        cases = [ctx.replay_case['case']]
    else:
        cases = []
        import concurrent.futures as cf
        rnd = random.Random(ctx.seed)
        with cf.ThreadPoolExecutor(max_workers=4) as pool:
            # (S->C) behaviour generation (single TLC worker) runs beside the design model
            fut = pool.submit(_tlc_behaviours, 'MC_References_beh')
            # 3 x 3 squares (full rank and rank 2) of real molecules: invariants checked + behaviours emitted
            fut_sq = pool.submit(_tlc_behaviours, 'MC_References_sq')
            # remove / __setitem__ / clear_offset / reload and offset= given: invariants + behaviours
            fut_b2 = pool.submit(_tlc_behaviours, 'MC_References_beh2')
            fut_sim = None
            if not ctx.quick:
                fut_sim = pool.submit(_tlc_behaviours, 'MC_References_sim', 1500,
                                      ['-simulate', 'num=3000', '-depth', '9', '-seed', str(ctx.seed + 1)])
            # (D) design model
            ctx.model('MC_References', 'MC_References', workers=max(2, core.NCPU - 2))
            if not ctx.quick:
                ctx.model('MC_References', 'MC_References_3d')
                ctx.model('MC_References', 'MC_References_auto')
            bad = ctx.model('MC_References', 'MC_References_nostale', expect_ok=False)
            if bad.ok or bad.violated != 'AlwaysFresh':
                raise core.MachineryError('MC_References_nostale should be rejected with AlwaysFresh:\n'
                                          + bad.out[-1500:])
            bad = ctx.model('MC_References', 'MC_References_squarefast', expect_ok=False)
            if bad.ok or bad.violated != 'NormalEquations':
                raise core.MachineryError('MC_References_squarefast should be rejected with NormalEquations:\n'
                                          + bad.out[-1500:])
            ctx.notes.append('design model: the "square fast path" variant (direct solve of square systems, '
                             'singularity unnoticed) is rejected on square rank-deficient sets, as expected')
            bad = ctx.model('MC_References', 'MC_References_dftcache', expect_ok=False)
            if bad.ok or bad.violated != 'NormalEquations':
                raise core.MachineryError('MC_References_dftcache should be rejected with NormalEquations:\n'
                                          + bad.out[-1500:])
            ctx.notes.append('design model: the "cached model enthalpies keyed by (name, T_ref)" variant is '
                             'rejected on a refit with two references sharing a key, as expected')
            ctx.notes.append('design model: append/extend/insert/pop leave offset and T_ref stale until '
                             'fit_HoRT_offset() (AlwaysFresh rejected for the code-shaped variant, as expected)')
            behs = fut.result()
            ctx.coverage['tlc_behaviours'] = len(behs)
            sq = fut_sq.result()
            ctx.coverage['tlc_square_behaviours'] = len(sq)
            b2 = fut_b2.result()
            ctx.coverage['tlc_further_call_behaviours'] = len(b2)
            if ctx.quick:
                rnd.shuffle(behs)
                behs = behs[:800]
                rnd.shuffle(sq)
                sq = sq[:500]
                rnd.shuffle(b2)
                b2 = b2[:600]
            else:
                sim = fut_sim.result()
                ctx.coverage['tlc_simulated_behaviours'] = len(sim)
                behs += sim
        for k, h in enumerate(behs + sq + b2):
            cases.append(_beh_to_case(h, 'g%d' % k, rnd))
        # pinned: C2H6, H2CO, C3H8O (= C2H6 + H2CO) over C, H, O - a 3 x 3 matrix of rank 2 whose LU
        # factorisation does not meet an exactly zero pivot - and H2CO, C2H4O2, C3H8O (rank 2 as well)
        for k, (rows, how) in enumerate([(r, hw) for r in ([[2, 6, 0], [1, 2, 1], [3, 8, 1]],
                                                            [[1, 2, 1], [2, 6, 0], [4, 10, 2]])
                                         for hw in ('construct', 'append', 'insert', 'extend')]):
            cases.append(_square_singular_case(rnd, 'p%d' % k, 'elements', ELEMENTS, rows=rows, how=how))
        cases.extend(_gap_cases(rnd, ctx.pick(260, 10000)))
        for k in range(ctx.pick(500, 8000)):
            cases.append(_random_case(rnd, 'r%d' % k))
    results = core.pmap(_safe_execute, cases)
    traces = []
    shapes = {}
    for tid, (case, (events, mism)) in enumerate(zip(cases, results)):
        ctx.evaluated()
        nfit2 = any(e['ev'] in ('construct', 'fit') and len(e['A']) >= 2 for e in events)
        if nfit2 or any(o['act'] in ('append', 'extend', 'insert', 'pop') for o in case['ops']):
            ctx.nontrivial(_signature(case))
        for m in mism:
            ctx.violation(m.get('clause', 'ReplayState'), case,
                          tags={'kind': case['kind'], 'descriptor': case['descriptor'],
                                'act': m.get('act', '')}, detail=m)
        traces.append((tid, events))
        for e in events:
            if e['ev'] in ('construct', 'fit'):
                key = '%dx%d' % (len(e['A']), len(e['desc']))
                shapes[key] = shapes.get(key, 0) + 1
        if tid % 397 == 0:
            ctx.sample({'kind': case['kind'], 'descriptor': case['descriptor'],
                        'ops': [[o['act'], [s['comp'] for s in o.get('refs', [])]] for o in case['ops']],
                        'T': case['T']})
    ctx.coverage['fit_shapes'] = dict(sorted(shapes.items()))
    # vacuity indicators (discrete facts only; the rank flags of grid cases were computed by TLC)
    cnt = {'grid_fits_rows_independent': 0, 'grid_fits_rows_dependent': 0, 'stale_states': 0,
           'refitted_states': 0, 'evals_with_absent_descriptor': 0, 'repro_events': 0,
           'fits_with_unequal_T_ref': 0, 'square_rank_deficient_fits': 0,
           'refits_with_shared_name_and_T_ref': 0}
    import collections
    cnt = collections.defaultdict(int, cnt)
    required = list(cnt) + (
        ['calls_' + a for a in ('remove', 'setitem', 'clear', 'reload', 'given')]
        + ['reloads_via_json', 'given_without_references', 'extend_with_tuple', 'negative_indices',
           'reference_model_given_as_instance', 'references_with_phase', 'fits_with_isomers',
           'fits_with_all_zero_descriptor', 'fits_of_near_cutoff_rank_deficient_sets', 'fits_with_1_references', 'fits_with_8_references',
           'fits_with_1_descriptors', 'fits_with_5_descriptors', 'evals_at_T_ref', 'evals_with_no_offsets',
           'evaluations_at_T_range_ends', 'empirical_nasa', 'empirical_shomate']
        + ['reference_counts_as_' + c for c in CTYPES] + ['target_counts_as_' + c for c in CTYPES]
        + ['descriptor_' + d for d in ['elements'] + DESCRIPTOR_ATTRS]
        + ['T_ref_' + m for m in ('equal', 'close', 'edge_in', 'edge_out', 'spread')]
        + ['units_' + u.replace('/', '_per_') for u in UNITS]
        + ['T_passed_as_' + t for t in TTYPES]
        + ['targets_' + t for t in ('int', 'fractional', 'empty', 'all_absent')])
    for case, (events, _) in zip(cases, results):
        for o in case['ops']:
            if 'det' in o and o.get('isfresh'):
                cnt['grid_fits_rows_independent' if o['det'] else 'grid_fits_rows_dependent'] += 1
                # rank flag computed by TLC: rows dependent and as many rows as descriptors
                if not o['det'] and o['n'] == len(o['expect']['fresh']['keys']):
                    cnt['square_rank_deficient_fits'] += 1
        if case.get('shape') == 'square_singular':      # rank deficient by construction
            nall = sum(len(o.get('refs', [])) for o in case['ops'])
            cnt['square_rank_deficient_fits'] += sum(
                1 for e in events if e['ev'] in ('construct', 'fit')
                and len(e['A']) == nall == len(e['desc']))
        prev = None
        for o in case['ops']:
            if o['act'] in ('remove', 'setitem', 'clear', 'reload', 'given'):
                cnt['calls_' + o['act']] += 1
            if o['act'] == 'reload' and o.get('via') == 'json':
                cnt['reloads_via_json'] += 1
            if o['act'] == 'given' and not o.get('refs'):
                cnt['given_without_references'] += 1
            if o['act'] == 'extend' and o.get('as') == 'tuple':
                cnt['extend_with_tuple'] += 1
            if o['act'] in ('insert', 'setitem', 'pop') and isinstance(o.get('i'), int) and o['i'] < 0:
                cnt['negative_indices'] += 1
            for sp in o.get('refs', []):
                if sp.get('ctype'):
                    cnt['reference_counts_as_' + sp['ctype']] += 1
                if sp.get('form') == 'instance':
                    cnt['reference_model_given_as_instance'] += 1
                if sp.get('phase'):
                    cnt['references_with_phase'] += 1
        if case.get('shape') == 'near_cutoff':
            cnt['fits_of_near_cutoff_rank_deficient_sets'] += sum(
                1 for e in events if e['ev'] in ('construct', 'fit')
                and len(e['A']) == sum(len(o.get('refs', [])) for o in case['ops']))
        if case['kind'] == 'real':
            cnt['descriptor_' + case['descriptor']] += 1
            cnt['T_ref_' + case['tmode']] += 1
            cnt['units_' + case['units'].replace('/', '_per_')] += 1
            cnt['T_passed_as_' + case['Ttype']] += 1
            for t in case['targets']:
                cnt['targets_' + t['tkind']] += 1
                cnt['target_counts_as_' + t['ctype']] += 1
            for T in case['T']:
                if T in (10.0, 5000.0):
                    cnt['evaluations_at_T_range_ends'] += 1
        for e in events:
            if e['ev'] in ('append', 'extend', 'insert', 'pop', 'remove', 'setitem'):
                same = prev is not None and (e['keys'], e['off'], e['Tref']) == prev
                cnt['stale_states' if same else 'refitted_states'] += 1
            if e['ev'] == 'fit':                      # a second or later fit of the same object
                ks = [(nm, tuple(t)) for nm, t in zip(e['names'], e['Ti'])]
                if len(set(ks)) < len(ks):
                    cnt['refits_with_shared_name_and_T_ref'] += 1
            if e['ev'] in ('construct', 'fit'):
                if len({tuple(t) for t in e['Ti']}) > 1:
                    cnt['fits_with_unequal_T_ref'] += 1
                rows = [tuple(r) for r in e['A']]
                if any(rows[i] == rows[j] and (e['dft'][i], e['exp'][i]) != (e['dft'][j], e['exp'][j])
                       for i in range(len(rows)) for j in range(i)):
                    cnt['fits_with_isomers'] += 1
                if any(0 in [r[j] for r in e['A']] and all(r[j] == 0 for r in e['A'])
                       for j in range(len(e['desc']))):
                    cnt['fits_with_all_zero_descriptor'] += 1
                for tag, n, ends in (('references', len(e['A']), (1, 8)), ('descriptors', len(e['desc']), (1, 5))):
                    if n in ends:
                        cnt['fits_with_%d_%s' % (n, tag)] += 1
            if e['ev'] in ('construct', 'fit', 'append', 'extend', 'insert', 'pop', 'remove', 'setitem',
                           'clear', 'reload', 'given'):
                prev = (e['keys'], e['off'], e['Tref'])
            elif e['ev'] == 'eval':
                if e['absent']:
                    cnt['evals_with_absent_descriptor'] += 1
                if e['T'][0] == prev[2]:
                    cnt['evals_at_T_ref'] += 1
                if e['emp']['has']:
                    cnt['empirical_' + e['emp']['kind']] += 1
                if not e['keys']:
                    cnt['evals_with_no_offsets'] += 1
            elif e['ev'] == 'repro':
                cnt['repro_events'] += 1
    cnt = {k: cnt[k] for k in sorted(set(required) | set(cnt))}
    ctx.coverage['exercised'] = cnt
    fails, stats = core.validate_traces('Trace_References', 'Trace', traces)
    ctx.count('traces_validated_against_impl', len(traces))
    ctx.coverage['trace_lines'] = stats['lines']
    by_case = {}
    for tid, idx, clause in fails:
        by_case.setdefault((tid, clause), []).append(idx)
    for (tid, clause), idxs in sorted(by_case.items()):
        if clause == 'WITNESS' and results[tid][1]:
            continue        # the list / matrix already disagreed with the driver's mirror (reported above)
        if clause == 'WITNESS':
            raise core.MachineryError('driver logged an ill-formed event: case %r lines %r'
                                      % (cases[tid].get('cid'), idxs[:5]))
        ev = traces[tid][1][idxs[0]]
        ctx.violation(clause, cases[tid],
                      tags={'kind': cases[tid]['kind'], 'descriptor': cases[tid]['descriptor'],
                            'event': ev['ev']},
                      detail={'event_indices': idxs[:10], 'first_event': ev})
    if (ctx.replay_case is None and not ctx.violations
            and min(cnt[k] for k in cnt if k != 'refitted_states') == 0):
        raise core.MachineryError('vacuous run, never exercised: %r' % ([k for k in cnt if not cnt[k]],))
    ctx.assume('grid replays: offsets, T_ref and fitted values of the real object are projected to the '
               'nearest rational with denominator <= %d before being compared by equality with TLC\'s '
               'exact rationals (differences below ~1e-7 are invisible there)' % MAXDEN)
    ctx.assume('Dec arithmetic: clauses on real-valued histories hold to ~1e-6 relative of the largest operand')
    ctx.assume('for reference temperatures that differ, the documented use of the mean T_ref is accepted: '
               'reproduction through StatMech is required up to |d_i| |T_i - T_ref| / T_i')


if __name__ == '__main__':
    core.main('C10', 'model_checking', run)
