"""Helpers of the C12 driver: reading the *text* of the tabulated literals of
pmutt/constants.py with `ast` (how many digits were written, not what they
are worth) and reading the Unit/Value tables of the docstrings.

The values that the specification judges always come from calling the
library; what is read here is only (a) the precision to which each tabulated
constant was written, which the property's tolerance ("to within the rounding
of the tabulated constants") is made of, and (b) the documented values.
"""
import ast
import os
import re

from harness import core
from harness.core import to_dec


class SourceShapeError(core.MachineryError):
    """The tabulated literals could not be located in the source."""


_NUM = re.compile(r'^[+-]?(\d+\.?\d*|\.\d+)([eE][+-]?\d+)?$')


def literal_digits(text):
    """'9.86923e-6' -> ('986923', -11): the significant digits as written
    (leading zeros dropped, trailing zeros kept) and the exponent of the last
    written digit."""
    t = text.strip().lstrip('+-')
    if not _NUM.match(t):
        raise ValueError('not a decimal literal: %r' % (text,))
    mant, _, ex = t.lower().partition('e')
    ex = int(ex) if ex else 0
    ip, _, fp = mant.partition('.')
    digs = (ip + fp).lstrip('0')
    return digs, ex - len(fp)


def literal_record(text):
    """Projection of one written literal for the trace:
    m = the literal as a Dec (at most its first 9 written digits),
    d = number of significant digits written,
    u = witness of 1 / (2 * written mantissa): the relative half-ulp of the last
        written digit (the spec verifies 2*u*mant = 1)."""
    digs, e = literal_digits(text)
    if not digs:
        return {'t': text, 'm': [0, 0], 'd': 0, 'u': [0, 0]}
    n = int(digs)
    if len(digs) > 9:
        cut = len(digs) - 9
        m = [int(digs[:9]), e + cut]
    else:
        m = [n, e]
    mant = [m[0], 0]
    return {'t': text, 'm': m, 'mant': mant, 'd': len(digs), 'u': to_dec(0.5 / m[0])}


def _literals(src, node):
    out = []
    for n in ast.walk(node):
        if isinstance(n, ast.Constant) and isinstance(n.value, (int, float)) \
                and not isinstance(n.value, bool):
            seg = ast.get_source_segment(src, n)
            out.append(literal_record(seg))
    return out


def _dict_in(src, fn, name):
    for n in ast.walk(fn):
        if isinstance(n, ast.Assign) and len(n.targets) == 1 \
                and isinstance(n.targets[0], ast.Name) and n.targets[0].id == name \
                and isinstance(n.value, ast.Dict):
            out = {}
            for k, v in zip(n.value.keys, n.value.values):
                if isinstance(k, ast.Constant):
                    out[k.value] = _literals(src, v)
            return out
    raise SourceShapeError('no dict literal %s found' % name)


def _dict_anywhere(src, tree, fn, name):
    """The table may live inside the function or at module level."""
    try:
        return _dict_in(src, fn, name)
    except SourceShapeError:
        return _dict_in(src, tree, name)


def read_literals(repo):
    """{'unit': {unit: [lit...]}, 'R': {...}, 'h': {...}, 'kb': {...}, 'c': {...},
        'Na': [lit], 'num': {'m_e': [lit], 'm_p': [...], 'P0': [...], 'T0': [...]}}"""
    path = os.path.join(repo, 'pmutt', 'constants.py')
    with open(path) as f:
        src = f.read()
    tree = ast.parse(src)
    fns = {n.name: n for n in tree.body if isinstance(n, ast.FunctionDef)}
    need = ['convert_unit', 'R', 'h', 'kb', 'c', 'm_e', 'm_p', 'P0', 'T0']
    for k in need:
        if k not in fns:
            raise SourceShapeError('function %s not found in constants.py' % k)
    out = {'unit': _dict_anywhere(src, tree, fns['convert_unit'], 'unit_dict'),
           'R': _dict_anywhere(src, tree, fns['R'], 'R_dict'),
           'h': _dict_anywhere(src, tree, fns['h'], 'h_dict'),
           'kb': _dict_anywhere(src, tree, fns['kb'], 'kb_dict'),
           'c': _dict_anywhere(src, tree, fns['c'], 'c_dict'),
           'num': {}}
    na = None
    for n in tree.body:
        if isinstance(n, ast.Assign) and len(n.targets) == 1 \
                and isinstance(n.targets[0], ast.Name) and n.targets[0].id == 'Na':
            na = _literals(src, n.value)
    if not na:
        raise SourceShapeError('Na not found')
    out['Na'] = na
    # every other module-level numeric constant (e, ...): name -> literals
    out['module'] = {}
    for n in tree.body:
        if isinstance(n, ast.Assign) and len(n.targets) == 1 and isinstance(n.targets[0], ast.Name) \
                and not isinstance(n.value, ast.Dict):
            ls = _literals(src, n.value)
            if ls:
                out['module'][n.targets[0].id] = ls
    for fn in ('m_e', 'm_p', 'P0', 'T0'):
        lits = None
        for n in ast.walk(fns[fn]):
            if isinstance(n, ast.Call) and getattr(n.func, 'id', None) == 'convert_unit':
                for kw in n.keywords:
                    if kw.arg == 'num':
                        lits = _literals(src, kw.value)
        if lits is None:
            raise SourceShapeError('literal of %s not found' % fn)
        out['num'][fn] = lits
    return out


_RULE = re.compile(r'^\s*(=+\s+)+=+\s*$')


def doc_tables(doc):
    """RST simple tables of a docstring -> list of tables; a table is
    (header cells, [row cells...]).  Column boundaries come from the rule lines."""
    lines = (doc or '').splitlines()
    tables = []
    i = 0
    while i < len(lines):
        if _RULE.match(lines[i]):
            rule = lines[i]
            spans = [(m.start(), m.end()) for m in re.finditer(r'=+', rule)]

            def cells(ln, spans=spans):
                out = []
                for k, (a, b) in enumerate(spans):
                    end = spans[k + 1][0] if k + 1 < len(spans) else max(len(ln), b)
                    out.append(ln[a:end].strip())
                return out
            if i + 2 < len(lines) and _RULE.match(lines[i + 2]):
                header = cells(lines[i + 1])
                rows = []
                j = i + 3
                while j < len(lines) and not _RULE.match(lines[j]):
                    if lines[j].strip():
                        rows.append(cells(lines[j]))
                    j += 1
                tables.append((header, rows))
                i = j + 1
                continue
        i += 1
    return tables


def doc_values(doc):
    """[(unit, value_text)] of the first table that has Unit and Value columns."""
    for header, rows in doc_tables(doc):
        hl = [h.lower() for h in header]
        if 'unit' in hl and any(h.startswith('value') for h in hl):
            iu = hl.index('unit')
            iv = [k for k, h in enumerate(hl) if h.startswith('value')][0]
            out = []
            for r in rows:
                if len(r) > max(iu, iv) and r[iu] and r[iv]:
                    out.append((r[iu], r[iv]))
            return out
    return []


def doc_units(doc):
    """[(heading, unit)] of the unit tables of convert_unit's docstring: the
    heading is the *Heading* line preceding each Unit/Description table."""
    lines = (doc or '').splitlines()
    out = []
    heading = None
    i = 0
    while i < len(lines):
        m = re.match(r'^\s*\*([^*]+)\*\s*$', lines[i])
        if m:
            heading = m.group(1).strip()
        if _RULE.match(lines[i]) and i + 2 < len(lines) and _RULE.match(lines[i + 2]) \
                and heading is not None:
            spans = [(mm.start(), mm.end()) for mm in re.finditer(r'=+', lines[i])]
            head = lines[i + 1][spans[0][0]:spans[1][0]].strip().lower() if len(spans) > 1 else ''
            j = i + 3
            while j < len(lines) and not _RULE.match(lines[j]):
                if lines[j].strip() and head == 'unit':
                    # the unit column may be wider than its rule ("eV/molecule"):
                    # take everything up to two or more blanks
                    cell = re.split(r'\s{2,}', lines[j].strip())[0]
                    out.append((heading, cell))
                j += 1
            i = j + 1
            continue
        i += 1
    return out
